#!/usr/bin/env python3
"""Writes seeded/<id>/meta.json from the table below and (optionally) a detection matrix produced by tools/seedmatrix.py --json."""
import json, os, sys
VERIF = os.path.dirname(os.path.dirname(os.path.abspath(__file__)))
T = {
 'C01-1': ('SRC/heap_relax_snode.c', 'contiguity test of a relaxed supernode uses the first leaf instead of the minimum column', 'SymmetricMode = YES and an etree that is heap-ordered but not post-ordered'),
 'C01-2': ('SRC/dpanel_bmod.c', 'store of the solved U(krep-1,j) dropped in the 2-D blocked, 3-column case', 'a supernode of >= 100 columns with > 200 rows below it and a U-segment of length 3 (default sp_ienv)'),
 'C02-1': ('SRC/dpivotL.c', 'remembered pivot tested against u instead of u*max', 'refactor with SamePattern_SameRowPerm after the values changed so that an old pivot is small'),
 'C02-2': ('SRC/heap_relax_snode.c', 'descendants[] indexed in the wrong numbering for a non-contiguous relaxed supernode', 'SymmetricMode = YES, non-postordered etree with a small non-contiguous subtree'),
 'C03-1': ('SRC/dgstrf.c', 'reuse branch no longer refreshes L->nnz / U->nnz', 'DOFACT then SamePattern_SameRowPerm with values that make a remembered pivot fail'),
 'C03-2': ('SRC/util.c', 'fixupL returns early for a single supernode', 'matrix that factors into exactly one supernode with a non-identity perm_r'),
 'C04-1': ('SRC/dpivotL.c', 'diagonal accepted without the non-zero test', 'DiagPivotThresh = 0 and a zero diagonal at elimination time'),
 'C04-2': ('SRC/zgssvx.c', 'B scaled right after equilibration, before the factorization and the singular return', 'Equil = YES, badly scaled exactly singular matrix without a zero row/column'),
 'C05-1': ('SRC/zsp_blas2.c', 'CONJ upper solve divides by the unconjugated diagonal for single-column supernodes', 'Trans = CONJ, complex pivot in a single-column supernode'),
 'C05-2': ('SRC/dgssvx.c', 'X unscaled with the leading dimension of B in the transposed branch', 'nrhs >= 2, ldb != ldx, row equilibration in force, transposed solve'),
 'C06-1': ('SRC/heap_relax_snode.c', 'et_save taken after et[] was overwritten: the original etree is not restored', 'SymmetricMode = YES, DOFACT followed by SamePattern on a bushy etree'),
 'C06-2': ('SRC/dgstrf.c', 'reuse branch no longer refreshes U->nzval', 'SamePattern_SameRowPerm with abandoned pivots and enough fill to expand UCOL'),
 'C07-1': ('SRC/scopy_to_ucol.c', 'lsub not re-read after UCOL/USUB expansion', 'single precision, caller workspace, fill estimate below nnz(U)'),
 'C07-2': ('SRC/memory.c', 'user_bcopy stops one byte short (d_ptr > dest)', 'caller workspace and at least one expansion'),
 'C08-1': ('SRC/zmemory.c', 'StackFull tests top1 instead of used', 'complex double, lwork > 0 slightly too small'),
 'C08-2': ('SRC/dgstrf.c', 'LUSUP pre-check for a relaxed supernode is an if instead of a while', 'workspace of almost exactly the required length and a large late relaxed supernode'),
 'C09-1': ('SRC/sp_coletree.c', 'disjoint-set parent pointer becomes a file-scope static', 'two threads inside sp_coletree at the same time'),
 'C09-2': ('SRC/dmemory.c', 'dSetRWork no longer zeroes dense[] / tempv[] (calloc only under malloc)', 'lwork > 0 with a buffer that was used before or is not zeroed'),
 'C10-1': ('SRC/sp_coletree.c', 'firstcol[] initialised over nc instead of nr entries', 'tall matrix (m > n) with entries in rows >= n'),
 'C10-2': ('SRC/colamd.c', 'post- instead of pre-decrement when a newly null column is ordered', 'COLAMD on n > 100 with a dense row and a column living only in dense rows'),
 'C11-1': ('SRC/dmach.c', 'dmach("P") returns eps instead of eps*base', 'amax within a factor of two of the small/large thresholds'),
 'C11-2': ('SRC/cgsequ.c', 'empty column reported as ncol + j + 1', 'rectangular matrix with an empty column, single complex'),
 'C12-1': ('SRC/zgssvx.c', 'norm chosen from options->Trans instead of the effective transpose', 'row storage with ConditionNumber = YES'),
 'C12-2': ('SRC/dpivotgrowth.c', 'ncols bound moved from the column loop to the supernode loop', 'singular factorization whose zero pivot lies inside a multi-column supernode'),
 'C13-1': ('SRC/zgsrfs.c', 'residual for CONJ formed with A^T', 'Trans = CONJ with refinement, complex entries'),
 'C13-2': ('SRC/dgsrfs.c', 'loop leaves right after the fifth update', 'five refinement steps actually needed (slow convergence)'),
 'C14-1': ('SRC/dgstrs.c', 'work matrix addressed with ldb instead of n', 'nrhs >= 2 and ldb > n, vendor BLAS path'),
 'C14-2': ('SRC/zsp_blas2.c', 'start of y for a negative stride computed from lenx', 'sp_zgemv with T/C, incy < 0, rectangular A'),
 'C15-1': ('SRC/dgsisx.c', 'B pre-scaling for the transposed solve tests rowequ instead of colequ', 'transposed solve, Equil = YES with one-sided equilibration, RowPerm = NOROWPERM'),
 'C15-2': ('SRC/mark_relax.c', 'last column of each relaxed supernode not marked (j < kcol)', 'ILU with NOROWPERM, zero diagonals and a later singleton relaxed supernode'),
 'C16-1': ('SRC/dreadhb.c', 'header line 2 parsed for 4 instead of 5 fields: RHSCRD lost', 'Harwell-Boeing file with a right-hand-side block'),
 'C16-2': ('SRC/dreadMM.c', 'col[] allocated with nonz instead of new_nonz', 'symmetric Matrix Market file with off-diagonal entries'),
 'C17-1': ('SRC/mc64ad.c', 'reset loop after a shortest-path search starts at up instead of low', 'rare tie patterns in MC64 job 5'),
 'C17-2': ('SRC/zldperm.c', 'early return on structural singularity before the index arrays are shifted back', 'double complex, structurally singular matrix'),
 'C18-1': ('SRC/zgssvx.c', 'screening of C reads R[j]', 'Fact = FACTORED, equed C or B, C with a non-positive entry'),
 'C18-2': ('SRC/sgstrs.c', 'work arrays allocated above the argument screening and not freed on the error return', 'any rejected call of sgstrs'),
 'C19-1': ('SRC/dgstrf.c', 'LUSUP capacity check for a relaxed supernode misses its last column', 'lusup exactly full inside the last column of a relaxed supernode'),
 'C19-2': ('SRC/get_perm_c.c', 'free of b_colptr moved into the bnz != 0 branch', 'MMD ordering of a matrix with empty adjacency structure (diagonal)'),
 'C20-1': ('FORTRAN/c_fortran_zgssv.c', 'dense B created with leading dimension *n instead of *ldb', 'nrhs >= 2 and ldb > n through the z bridge'),
 'C20-2': ('SRC/util.c', 'Destroy_SuperNode_Matrix no longer frees col_to_sup', 'any factor / free cycle, visible only to a leak checker'),
 # ---- round 2: shared files or the same edit in all four arithmetic variants (the sibling rule is blind)
 'C01-3': ('SRC/?panel_bmod.c (x4)', 'final scatter of the 2-D blocked update skips segsze < 3 instead of <= 3: a solved segment of length 3 is overwritten with zeros', 'supernode >= 100 columns with > 200 rows below it and a U-segment of length exactly 3 (default sp_ienv)'),
 'C01-4': ('SRC/memory.c', 'copy_mem_int uses memmove with the element count as byte count', 'expansion of lsub/usub under library allocation (fill above the estimate)'),
 'C02-3': ('SRC/memory.c', 'SetIWork fills repfnz over n*panel_size instead of m*panel_size entries', 'tall matrix (m > n) handed to ?gstrf'),
 'C02-4': ('SRC/?gstrf.c (x4)', 'relaxed-supernode call of ?pivotL receives perm_c instead of iperm_c', 'DiagPivotThresh < 1, non-involutory column permutation, column inside a relaxed supernode'),
 'C03-3': ('SRC/?gstrf.c (x4)', 'perm_r completion loop runs over i < n instead of i < m', 'tall matrix, info = 0'),
 'C03-4': ('SRC/ilu_?drop_row.c (x4)', 'secondary dropping moves the subscript from slot m-1 instead of m1', 'ILU with DROP_SECONDARY and a tight fill quota (>= 2 rows dropped in one supernode)'),
 'C04-3': ('SRC/?pivotL.c (x4)', 'pivmax initialised to -1.0: an empty candidate set is no longer seen as a zero pivot', 'structurally deficient column (no stored candidate)'),
 'C04-4': ('SRC/?gstrf.c (x4)', 'relaxed-supernode branch overwrites the remembered first singular column', '>= 2 deficient columns, a later one inside a relaxed supernode'),
 'C05-3': ('SRC/?gssvx.c (x4)', 'row-storage branch keeps trant = NOTRANS but no longer sets notran', 'SLU_NR storage, Trans != NOTRANS, equilibration applied'),
 'C05-4': ('SRC/?panel_bmod.c (x4)', '2-D update offsets the block-row product by nsupc*no_zeros instead of nsupr*no_zeros', 'wide supernode (>= 100 x > 200) and a U-segment that starts inside it'),
 'C06-3': ('SRC/?memory.c (x4)', '?LUWorkFree resets top2 before subtracting the tail from used', 'caller workspace and a later re-factorization in the same buffer'),
 'C06-4': ('SRC/?memory.c (x4)', '?LUMemInit reuse branch restores nzumax from Glu->nzlumax', 'SamePattern_SameRowPerm with different L/U capacities'),
 'C07-3': ('SRC/?memory.c (x4)', '?expand no longer advances top1 for the USUB share of a UCOL expansion', 'caller workspace with a UCOL expansion'),
 'C07-4': ('SRC/?gstrf.c (x4)', 'read of Glu->nzlumax hoisted out of the relaxed-supernode branch (stale after ?column_bmod expanded lusup)', 'an expansion of lusup by a panel column followed by a relaxed supernode that needs one'),
 'C08-3': ('SRC/?memory.c (x4)', '?expand computes the bytes to shift from stack.used instead of stack.top1', 'caller workspace nearly exhausted, mid-factorization expansion'),
 'C08-4': ('SRC/?memory.c (x4)', 'usable workspace rounded up ((lwork+3)/4*4) instead of down', 'lwork not a multiple of 4'),
 'C09-3': ('FORTRAN/c_fortran_?gssv.c (x4)', 'bridge shifts the shared 1-based index arrays in place and back instead of copying them', 'two threads factoring through the bridge with shared rowind/colptr'),
 'C09-4': ('SRC/?lacon2.c (x4)', 'isave[2] (iteration counter) never initialised', 'condition / error estimate whose Hager iteration has not converged at the first L110 test'),
 'C10-3': ('SRC/mmd.c', 'dhead[1] = 0 after the isolated-vertex loop dropped', 'MMD ordering of a graph with isolated vertices and a vertex that drops to degree 1'),
 'C10-4': ('SRC/get_perm_c.c', 'dhead/qsize (int_t) allocated with sizeof(int)', '64-bit index build with an MMD ordering'),
 'C11-3': ('SRC/?laqgs.c (x4)', 'LARGE threshold written as 1/sfmin/prec: overflows to +inf, so a huge amax no longer triggers row scaling', 'amax above 1/(sfmin/prec) with acceptable rowcnd/colcnd'),
 'C11-4': ('SRC/?gsequ.c (x4)', 'zero-row report no longer returns: the column pass runs on and overwrites info', 'matrix with an all-zero row'),
 'C12-3': ('SRC/?sp_blas2.c (x4)', 'sp_?trsv (L, N) no longer clears the gemv scratch vector between supernodes (beta = 1)', 'ConditionNumber = YES, >= 2 multi-column supernodes with rows below'),
 'C12-4': ('SRC/?gssvx.c (x4)', 'info = n+1 warning moved inside the nrhs > 0 block', 'ConditionNumber = YES with nrhs = 0'),
 'C13-3': ('SRC/?gsrfs.c (x4)', '`else if (rwork[i] != 0.0)` became a plain else: division by an exactly-zero denominator', 'a row with |op(A)||x|+|b| = 0'),
 'C13-4': ('SRC/?gssvx.c (x4)', 'refinement runs only for IterRefine == SLU_DOUBLE / SLU_SINGLE', 'IterRefine = SLU_EXTRA (or the other accepted value)'),
 'C14-3': ('SRC/?sp_blas2.c (x4)', 'sp_?gemv (N) advances jx only when x(j) != 0', 'x with an exact zero'),
 'C14-4': ('SRC/?myblas2.c (x4)', '?lsolve 2-column tail starts its second column pointer on the diagonal', 'bundled kernels (no vendor BLAS), supernode width 3 mod 4'),
 'C15-3': ('SRC/ilu_?pivotL.c (x4)', 'pivot bookkeeping reads swap[] where iswap[] is meant', 'ILU with off-diagonal pivots and an L column emptied by dropping'),
 'C15-4': ('SRC/?gsisx.c (x4)', 'pivot-growth early exit folded into the lwork == -1 return, before the MC64 relabel is undone', 'MC64, PivotGrowth = YES, 0 < info <= n'),
 'C16-3': ('SRC/?readhb.c, ?readrb.c', 'D -> E exponent rewrite addresses buf[k] instead of buf[s+k]', 'values with a D exponent in a field other than the first of a line'),
 'C16-4': ('SRC/?readMM.c (x4)', 'comment skipping tests line[0] instead of banner[0]', 'blank line between the comments and the size line'),
 'C17-3': ('SRC/mc64ad.c', '++num moved above the csp == rinf test in mc64wd_', 'structurally singular matrix'),
 'C17-4': ('SRC/mc64ad.c', 'heap sift-down of mc64ed_ stops when posk >= qlen', 'n >= 5 and three or more rows with distinct distances in the heap'),
 'C18-3': ('SRC/?gssvx.c, ?gsisx.c (x8)', 'screening of the supplied row scale factors tests rcmax <= 0 instead of rcmin <= 0', 'Fact = FACTORED, equed R or B, R with one non-positive entry'),
 'C18-4': ('SRC/?gsequ.c (x4)', 'storage-tag screening of ?gsequ also lets SLU_NR through', 'direct call of ?gsequ with a row-compressed matrix'),
 'C19-3': ('SRC/get_perm_c.c', 'getata allocates marker[] with n+1 instead of max(m,n)+1 entries', 'MMD_ATA on a tall matrix'),
 'C19-4': ('SRC/?gstrf.c (x4)', 'iperm_r freed under `if (usepr)` although ?pivotL may clear usepr', 'SamePattern_SameRowPerm with values that make an old pivot unacceptable'),
 'C20-3': ('FORTRAN/c_fortran_?gssv.c (x4)', 'StatInit hoisted above the iopt dispatch: a free request allocates statistics it never releases', 'any factor / free cycle'),
 'C20-4': ('SRC/?panel_bmod.c (x4)', 'MatvecTmp = &TriTmp[colblk] instead of [maxsuper]', 'default sp_ienv (colblk 100 < maxsuper 200) and a segment longer than 100'),
 # ---- round 3: as round 2, with the round-1/2 ideas off limits and a hint to avoid swapped arrays / wrong counts / mis-sized allocations / dropped resets
 'C01-5': ('SRC/sp_preorder.c', 'post-ordering of the etree also skipped for ColPerm = NATURAL', 'NATURAL ordering of a matrix whose column etree is bushy and not naturally post-ordered'),
 'C01-6': ('SRC/?column_bmod.c (x4)', 'unrolled 3-column case computes ukj before ukj1 received the contribution of ukj2', 'panel size >= 4 and a 3-column supernode inside the panel updating a later column of it'),
 'C02-5': ('SRC/?column_bmod.c (x4)', 'no_zeros = kfnz - fsupc instead of kfnz - fst_col in the sup-col update', 'a supernode that starts in an earlier panel with >= 4 columns inside the current one'),
 'C02-6': ('SRC/?gssvx.c (x4)', 'get_perm_c also runs for SamePattern / SamePattern_SameRowPerm (Fact != FACTORED)', 'DOFACT then SamePattern through ?gssvx with ColPerm != MY_PERMC'),
 'C03-5': ('SRC/?gstrf.c (x4)', 'heap_relax_snode chosen by ColPerm == MMD_AT_PLUS_A instead of SymmetricMode == YES', 'SymmetricMode = YES with another ColPerm'),
 'C03-6': ('SRC/ilu_?copy_to_ucol.c (x4)', 'secondary dropping decrements m0 before copying the last entry into the hole', 'ILU with DROP_SECONDARY and a tight fill factor'),
 'C04-5': ('SRC/?pivotL.c (x4)', 'singularity test on thresh = u*pivmax instead of pivmax', 'DiagPivotThresh = 0'),
 'C04-6': ('SRC/?gstrf.c (x4)', 'relaxed-supernode branch records jcol + 1 (first column of the supernode) as the singular column', 'first zero pivot inside a relaxed supernode, not at its first column'),
 'C05-5': ('SRC/?gstrs.c (x4)', '`trans == NOTRANS` became `trans != TRANS`: CONJ takes the untransposed solve', 'Trans = CONJ'),
 'C05-6': ('SRC/?gssvx.c (x4)', 'get_perm_c guard became Fact != SamePattern_SameRowPerm', 'DOFACT then SamePattern with ColPerm != MY_PERMC'),
 'C06-5': ('SRC/?memory.c (x4)', '?expand advances the base of lsub itself (`type <= LSUB`) when lsub grows in a workspace', 'caller workspace, lsub running full during a re-factorization'),
 'C06-6': ('SRC/?copy_to_ucol.c (x4)', '?LUMemXpand for UCOL/USUB is told to carry over xusub[jcol] instead of nextu entries', 'library allocation, U overflowing at the second or later segment of a column'),
 'C07-5': ('SRC/?copy_to_ucol.c (x4)', 'same change as C06-6 (independent agent)', 'as C06-6'),
 'C07-6': ('SRC/?memory.c (x4)', '?expand books top1/used before it computes the block to shift', 'caller workspace within one growth increment of full'),
 'C08-5': ('SRC/?memory.c (x4)', '?LUMemInit takes its rollback mark before the five (n+1) arrays are allocated', 'lwork > 0 too small for the first guess, large enough for a halved one'),
 'C08-6': ('SRC/?memory.c (x4)', '?expand retries a failed keep_prev request with another length (patch rebased onto a68f306)', 'library allocation, the USUB growth request failing once'),
 'C09-5': ('SRC/?gssvx.c (x4)', 'rcond < eps tested although ConditionNumber = NO', 'caller-side rcond variable holding a small value from an earlier call'),
 'C09-6': ('SRC/?gstrf.c (x4)', 'usepr = (fact != DOFACT): SamePattern follows whatever perm_r holds', 'Fact = SamePattern with perm_r left over from another matrix, DiagPivotThresh < 1'),
 'C10-5': ('SRC/sp_preorder.c', 'post-ordering skipped for ColPerm = MY_PERMC', 'caller-supplied ordering whose etree is not already post-ordered'),
 'C10-6': ('SRC/get_perm_c.c', '#endif moved behind the break of case MMD_ATA: falls through into MMD_AT_PLUS_A', 'ColPerm = MMD_ATA'),
 'C11-5': ('SRC/?gsequ.c (x4)', 'lower clamp dropped from the column scale factor', 'a column of diag(R)*A whose largest entry is below the safe minimum'),
 'C11-6': ('SRC/?laqgs.c (x4)', 'threshold test made strict on both sides (amax > small && amax < large)', 'amax exactly equal to SMALL or LARGE'),
 'C12-5': ('SRC/?sp_blas2.c (x4)', '`if (nrow == 0) continue;` added to the (L, N) sweep of sp_?trsv: skips the block solve too', 'last supernode with > 1 column and no rows below it, ConditionNumber = YES'),
 'C12-6': ('SRC/?gssvx.c (x4)', '?PivotGrowth(*info - 1, ...) on the singular return', 'singular matrix whose zero-pivot column attains the minimum'),
 'C13-5': ('SRC/?gsrfs.c (x4)', 'rwork[i] = |B(i,j)| hoisted out of the refinement loop', 'refinement that takes more than one step'),
 'C13-6': ('SRC/?gssvx.c (x4)', '?gsrfs called with options->Trans instead of trant', 'row storage with refinement'),
 'C14-5': ('SRC/?sp_blas2.c (x4)', 'beta == 0 special case of sp_?gemv folded into y = beta*y', 'beta = 0 with NaN/Inf in y on entry'),
 'C14-6': ('SRC/?sp_blas2.c (x4)', '(L, N) sweep of sp_?trsv runs k < nsuper', 'last supernode with > 1 column'),
 'C15-5': ('SRC/ilu_?copy_to_ucol.c (x4)', '?LUMemXpand told to carry over xusub[jcol] instead of nextu entries', 'ILU under library allocation with a small fill factor'),
 'C15-6': ('SRC/qselect.c', 'partition scan made strict (A[i] > val): no progress on ties', 'secondary dropping by quick-select on tied magnitudes'),
 'C16-5': ('SRC/?readrb.c (x4)', 'header line 2 read with %14d: the only NUL terminator of buf disappears', 'Rutherford-Boeing title with a digit in column 15'),
 'C16-6': ('SRC/?readtriple.c (x4)', 'a[k] = val[k] instead of val[nz] in the scatter', 'triplet file not sorted by column'),
 'C17-5': ('SRC/mc64ad.c', 'sift-up comparison of the min-heap branch of mc64fd_ flipped', 'heap of >= 5 rows and a re-reached row (about 1 in 5000 random matrices of order 24-60)'),
 'C17-6': ('SRC/mc64ad.c', 'job 5: dw[2n+j] stored after the log and used un-logged in the post-step', 'a column whose largest magnitude is exactly 1'),
 'C18-5': ('SRC/?gssvx.c, ?gsisx.c (x8)', 'B/X mismatch test became B->ncol > X->ncol', 'X with more columns than B'),
 'C18-6': ('SRC/?gsrfs.c (x4)', 'quick return for nrhs == 0 moved above the argument screening', 'illegal argument together with nrhs = 0'),
 'C19-5': ('SRC/relax_snode.c + 3 siblings', 'descendants[parent] <= relax_columns: relaxed supernodes of relax+1 columns', 'relax >= panel_size (custom sp_ienv) and a subtree of exactly relax+1 nodes'),
 'C19-6': ('SRC/?gssvx.c (x4)', 'temporary column view of a row-stored A released only when nofact', 'SLU_NR with Fact = FACTORED'),
 'C20-5': ('FORTRAN/c_fortran_?gssv.c (x4)', 'row-index copy loop bounded by the 1-based colptr[n] (= nnz + 1)', 'any factor request (one element past both arrays)'),
 'C20-6': ('FORTRAN/c_fortran_?gssv.c (x4)', 'L/U headers released before Destroy_*_Matrix reads their Store', 'any free request'),
}
mx = {}
if len(sys.argv) > 1 and os.path.exists(sys.argv[1]):
    mx = json.load(open(sys.argv[1]))
for sid, (file, what, needs) in sorted(T.items()):
    d = os.path.join(VERIF, 'seeded', sid)
    if not os.path.isdir(d):
        print('missing', sid)
        continue
    hits = sorted(p for p, v in mx.get(sid, {}).items() if isinstance(v, list) and v and v[0] == 1)
    first = {p: mx[sid][p][1] for p in hits[:3]} if sid in mx else {}
    meta = {
        'id': sid, 'breaks_property': sid.split('-')[0], 'file': file, 'change': what, 'needs_to_manifest': needs,
        'origin': 'written by an independent sub-agent that saw only the property text and its own scratch worktree of /repo',
        'confirmed': 'tools/confirm_seed.sh %s %s in the scratch worktree at the pinned commit: run.sh passes on the original build; patch applies; library builds; '
                     'ctest 24/24 pass with the patch; run.sh fails with the patch; worktree removed afterwards' % tuple(sid.split('-')),
        'detected_by_checks': hits,
        'first_report': first,
        'how_checked': 'tools/seedmatrix.py applies patch.diff to a scratch copy of the sources (never /repo), runs ./check <Cnn> with SLU_REPO pointing at the copy, removes the copy',
        'checks_run': sorted(p for p, v in mx.get(sid, {}).items() if isinstance(v, list)),
    }
    mp = os.path.join(d, 'meta.json')
    if os.path.exists(mp):
        try:
            old = json.load(open(mp))
            for k in ('retired', 'rebased'):        # hand-written notes survive regeneration
                if k in old:
                    meta[k] = old[k]
        except ValueError:
            pass
    json.dump(meta, open(mp, 'w'), indent=1)
print('wrote', len(T))
