#!/bin/bash
# confirm a sub-agent's seeded change in its scratch worktree and store it under /verif/seeded/<id>/
# usage: tools/confirm_seed.sh C10 1
set -u
P=$1; K=$2; WT=/tmp/wt/$P; M=$WT/mutants/$K; ID=$P-$K
OUT=/verif/seeded/$ID
cd $WT || exit 2
git checkout -q -- . 
[ -d _build ] || cmake -G Ninja -B _build -DCMAKE_BUILD_TYPE=RelWithDebInfo >/dev/null
cmake --build _build -j16 >/dev/null 2>&1 || { echo "baseline build failed"; exit 2; }
runit() { ( cd $M && if [ -f run.sh ]; then timeout 600 bash run.sh; else echo "no run.sh"; false; fi ) > /tmp/wt/$ID.$1.log 2>&1; echo $?; }
r0=$(runit orig)
git apply $M/patch.diff || { echo "patch does not apply"; exit 2; }
files=$(git diff --name-only | tr '\n' ' ')
cmake --build _build -j16 > /tmp/wt/$ID.build.log 2>&1; b=$?
t=$(ctest --test-dir _build -j8 --timeout 900 2>&1 | grep -E "tests passed|tests failed" | tail -1)
r1=$(runit mut)
git checkout -q -- .
cmake --build _build -j16 >/dev/null 2>&1
echo "$ID files=[$files] demo_orig_rc=$r0 build_rc=$b suite='$t' demo_mut_rc=$r1"
if [ "$r0" = 0 ] && [ "$b" = 0 ] && [ "$r1" != 0 ] && echo "$t" | grep -q "100% tests passed"; then
  mkdir -p $OUT
  cp -r $M/. $OUT/
  rm -rf $OUT/demo $OUT/*.o $OUT/a.out 2>/dev/null
  find $OUT -type f -size +2M -delete
  find $OUT -type f -perm -u+x ! -name '*.sh' ! -name '*.py' -exec sh -c 'file "$1" | grep -q ELF && rm -f "$1"' _ {} \;
  echo CONFIRMED $ID
else
  echo NOT-CONFIRMED $ID
fi
