"""R12  abstract interpretation of the supernodal update kernels in a polynomial index domain (?column_bmod, ?panel_bmod; real instantiations).

The numerical update of a column by an earlier supernode [fsupc..krep] is a unit-lower-triangular solve with the block L[kfnz..krep, kfnz..krep]
followed by a product with the rows below.  Short segments (1, 2, 3) are hand-unrolled, longer ones go through ?trsv_/?gemv_ (or the bundled
kernels).  All of it is index arithmetic on one column-major block:

      value of L(stored row r, column c)  =  lusup[ xlusup[fsupc] + (c - fsupc) * nsupr + r ]          stored row r  <->  lsub[ xlsub[fsupc] + r ]
      the diagonal of column c is stored row c - fsupc

This is a forward flow analysis whose abstract values are integer polynomials over (fsupc, krep, kfnz, fst_col, nsupr, ...): one pass over the body
of the loop over updating supernodes per segment-size class (1, 2, 3, >= 4: the classes the code itself branches on) and per blocking branch;
counting loops are summarised by their affine induction variables (value at entry + iteration number * increment, value at exit from the trip
count), so nothing is unrolled or enumerated and no solver is involved: every obligation is an identity between two polynomials in normal
form.  Each floating-point statement of the recognised shapes gives obligations:

   X -= Y * lusup[P]          column(P) = row of Y,   stored row(P) = row of X,   Y is final (all earlier rows of the segment already applied)
   dense[..] = X              X is final and goes back to its own row;   rows below receive every row of the segment
   tempv[i] = dense[lsub[q]]  defines the row of tempv[0];   ?trsv_(.., &segsze, &lusup[P], &nsupr, tempv): P is the diagonal entry of that row's
                              column, order = rows up to krep, leading dimension nsupr;   ?gemv_: P is `order` rows further down the same column,
                              row count = rows below krep;   the scatter loops put the results back to the rows they came from / continue below.

The complex instantiations are tied to the real ones by R9c (same indexed accesses, same integer skeleton) and to each other by R9.
"""
import re
from ..facts import strip, callee_name, const_value, loc, canon, root_ref
from ..ir import pretty


# ---------------------------------------------------------------- polynomials  {monomial (sorted tuple of symbols): int}
def pc(c):
    return {(): c} if c else {}


def ps(s):
    return {(s,): 1}


def padd(a, b, sign=1):
    if a is None or b is None:
        return None
    out = dict(a)
    for m, c in b.items():
        out[m] = out.get(m, 0) + sign * c
        if out[m] == 0:
            del out[m]
    return out


def pmul(a, b):
    if a is None or b is None:
        return None
    out = {}
    for m1, c1 in a.items():
        for m2, c2 in b.items():
            m = tuple(sorted(m1 + m2))
            if len(m) > 3:
                return None
            out[m] = out.get(m, 0) + c1 * c2
            if out[m] == 0:
                del out[m]
    return out


def psubst(a, sym, q):
    if a is None:
        return None
    out = {}
    for m, c in a.items():
        k = m.count(sym)
        rest = tuple(x for x in m if x != sym)
        term = {rest: c}
        for _ in range(k):
            term = pmul(term, q)
            if term is None:
                return None
        out = padd(out, term)
    return out


def pconst(a):
    if a is None:
        return None
    if not a:
        return 0
    if set(a) == {()}:
        return a[()]
    return None


def pshow(a):
    if a is None:
        return '?'
    if not a:
        return '0'
    parts = []
    for m in sorted(a, key=lambda m: (len(m), m)):
        c = a[m]
        t = '*'.join(m) if m else ''
        if not m:
            parts.append(str(c))
        elif c == 1:
            parts.append(t)
        elif c == -1:
            parts.append('-' + t)
        else:
            parts.append('%d*%s' % (c, t))
    return ' + '.join(parts).replace('+ -', '- ')


NS, XLU, XLS = 'nsupr', 'XLUSUP0', 'XLSUB0'
DENSE = {'dense', 'dense_col'}
VECS = {'tempv', 'tempv1', 'TriTmp', 'MatvecTmp'}


class Elem(object):
    """a floating scalar that holds the vector entry of stored row `row`; `off` = (row of krep) - row when that is a constant"""
    def __init__(self, row, off, applied=()):
        self.row, self.off, self.applied = row, off, set(applied)
        self.dirty = None       # the statement that last changed a temporary which has not been stored back since


class Stop(Exception):
    pass


class Machine(object):
    def __init__(self, f, case, branch2d, report):
        self.f = f
        self.case = case            # 1, 2, 3 or 'big'
        self.branch2d = branch2d    # True: take the 2-D branch where the routine has one
        self.report = report
        self.env = {}
        self.vecrow = {}            # vector base name -> row polynomial of element 0
        self.ptr = {}               # pointer var name -> (base vector name, offset poly)
        self.nT = 0
        self.nobl = 0
        self.quiet = False
        self.unknown = []       # statements of a recognised shape whose operands could not be interpreted: the analysis is broken, not the code

    # ---- integer expressions
    def iv(self, e):
        e = strip(e)
        cv = const_value(e)
        if cv is not None:
            return pc(cv)
        if e.k == 'Ref':
            nm = e.a.get('name')
            if nm not in self.env:
                t = (e.t or '').replace('const', '').replace('register', '').strip()
                if t in ('int', 'int_t'):
                    return ps(nm)         # set before the loop over the updating supernodes (rowblk, jcol, w ...): an unknown constant
                return None
            v = self.env.get(nm)
            return v if isinstance(v, dict) else None
        if e.k == 'Binary' and e.a['op'] in ('+', '-', '*'):
            a, b = self.iv(e.c[0]), self.iv(e.c[1])
            if e.a['op'] == '*':
                return pmul(a, b)
            return padd(a, b, 1 if e.a['op'] == '+' else -1)
        if e.k == 'Unary' and e.a['op'] == '-':
            return padd({}, self.iv(e.c[0]), -1)
        if e.k == 'Index':
            b = strip(e.c[0])
            nm = {'nzval_colptr': 'xlusup', 'rowind_colptr': 'xlsub'}.get(b.a.get('name'), b.a.get('name'))
            ix = self.iv(e.c[1])
            fs = self.env.get('fsupc')
            if nm == 'xlusup' and ix is not None and isinstance(fs, dict):
                return padd(ps(XLU), pmul(padd(ix, fs, -1), ps(NS)))
            if nm == 'xlsub' and ix is not None and isinstance(fs, dict):
                d = pconst(padd(ix, fs, -1))
                if d == 0:
                    return ps(XLS)
                if d == 1:
                    return padd(ps(XLS), ps(NS))
            return None
        return None

    def fresh(self, e):
        return ps(re.sub(r'\s+', '', canon(e, ids=False)))

    def row_of_lsub(self, e):
        """stored row of lsub[Q]"""
        e = strip(e)
        if e.k == 'Index' and strip(e.c[0]).a.get('name') == 'lsub':
            q = self.iv(e.c[1])
            if q is not None:
                return padd(q, ps(XLS), -1)
        if e.k == 'Ref' and isinstance(self.env.get(e.a.get('name')), tuple) and self.env[e.a['name']][0] == 'row':
            return self.env[e.a['name']][1]
        return None

    def lusup_coords(self, e):
        """(column offset from fsupc, stored row) of lusup[P] / &lusup[P]"""
        e = strip(e)
        if e.k == 'Unary' and e.a['op'] == '&':
            e = strip(e.c[0])
        if not (e.k == 'Index' and strip(e.c[0]).a.get('name') in ('lusup', 'Lval')):
            return None
        p = self.iv(e.c[1])
        if p is None:
            return None
        p = padd(p, ps(XLU), -1)
        col, row = {}, {}
        for m, c in p.items():
            if XLU in m or XLS in m:
                return None
            if m.count(NS) == 1:
                col[tuple(x for x in m if x != NS)] = c
            elif m.count(NS) == 0:
                row[m] = c
            else:
                return None
        return col, row

    def krow(self):
        return padd(self.env.get('krep'), self.env.get('fsupc'), -1) if isinstance(self.env.get('krep'), dict) and isinstance(self.env.get('fsupc'), dict) else None

    # ---- obligations
    def need(self, ok, node, what):
        self.nobl += 1
        if not ok and not self.quiet:
            self.report(node, what)

    def peq(self, a, b):
        return a is not None and b is not None and not padd(a, b, -1)

    def elem_of(self, e):
        """Elem for a floating operand: a temp, dense[lsub[..]], dense[irow], tempv[i]"""
        e = strip(e)
        if e.k == 'Ref':
            v = self.env.get(e.a.get('name'))
            return v if isinstance(v, Elem) else None
        if e.k == 'Index':
            b = strip(e.c[0])
            nm = b.a.get('name')
            if nm in DENSE:
                r = self.row_of_lsub(e.c[1])
                if r is None:
                    return None
                return self.mk_elem(r)
            base, off = self.vec_base(b)
            if base is not None and base in self.vecrow:
                i = self.iv(e.c[1])
                if i is not None:
                    return self.mk_elem(padd(padd(self.vecrow[base], off), i))
        return None

    def vec_base(self, b):
        """(region, offset inside the region): a pointer into the middle of a scratch vector (tempv1 = &tempv[segsze], MatvecTmp = &TriTmp[maxsuper])
        names a region of its own"""
        nm = b.a.get('name') if b.k == 'Ref' else None
        if nm in self.ptr:
            base, off = self.ptr[nm]
            return (base if not off else '%s@%s' % (base, pshow(off))), {}
        if nm in VECS:
            return nm, {}
        return None, None

    def mk_elem(self, row):
        kr = self.krow()
        off = pconst(padd(kr, row, -1)) if kr is not None else None
        return Elem(row, off)

    def final_needed(self, off):
        """offsets (from krep) of the rows of the segment that precede the row at offset off"""
        if self.case == 'big' or off is None:
            return None
        return set(range(off + 1, self.case))

    def products(self, e, sign=1):
        """[(sign, Y expr, lusup expr)] for the product terms of a sum; other terms are returned as ('other', expr)"""
        e = strip(e)
        if e.k == 'Binary' and e.a['op'] in ('+', '-'):
            return self.products(e.c[0], sign) + self.products(e.c[1], sign if e.a['op'] == '+' else -sign)
        if e.k == 'Binary' and e.a['op'] == '*':
            a, b = strip(e.c[0]), strip(e.c[1])
            for y, l in ((a, b), (b, a)):
                if l.k == 'Index' and strip(l.c[0]).a.get('name') == 'lusup':
                    return [(sign, y, l)]
        return [('other', e, None)]

    def update(self, target_elem, rhs, node, sub_assign):
        """target (Elem) op= rhs, where rhs is a sum of products Y*lusup[P] (and possibly the target itself)"""
        terms = self.products(rhs)
        for (sg, y, l) in terms:
            if sg == 'other':
                continue
            ye = self.elem_of(y)
            co = self.lusup_coords(l)
            if ye is None or co is None:
                self.unknown.append(pretty(node)[:60])
                continue
            col, row = co
            eff = -sg if sub_assign else sg
            self.need(eff == -1, node, 'an update must subtract the product `%s * %s`' % (pretty(y)[:12], pretty(l)[:24]))
            self.need(self.peq(col, ye.row), node,
                      '`%s` multiplies the entry of row %s by a value taken from column offset %s of the supernode; the multiplier of row r is in column r (L(x, r))'
                      % (pretty(node)[:60], pshow(ye.row), pshow(col)))
            self.need(self.peq(row, target_elem.row), node,
                      '`%s` updates the entry of stored row %s with a value of L from stored row %s' % (pretty(node)[:60], pshow(target_elem.row), pshow(row)))
            need = self.final_needed(ye.off)
            if need is not None:
                self.need(ye.applied >= need, node,
                          '`%s` uses the entry %d row(s) above krep as a multiplier before the contributions of the earlier rows of the segment (offsets %s) '
                          'were subtracted from it' % (pretty(node)[:60], ye.off, sorted(need - ye.applied)))
            if ye.off is not None:
                target_elem.applied.add(ye.off)
        if getattr(target_elem, 'is_temp', False):
            target_elem.dirty = node

    # ---- statements
    def assign_float(self, s):
        lv = strip(s.c[0])
        op = s.a['op']
        rhs = s.c[1]
        # loads:  t = dense[lsub[Q]]
        if lv.k == 'Ref' and op == '=':
            src = self.elem_of(rhs)
            if src is not None and strip(rhs).k == 'Index':
                src.is_temp = True
                self.env[lv.a['name']] = src
                return
            cur = self.env.get(lv.a['name'])
            if isinstance(cur, Elem) and any(t[0] != 'other' for t in self.products(rhs)):
                self.update(cur, rhs, s, False)
                return
            self.env.pop(lv.a['name'], None)
            return
        if lv.k == 'Ref' and op in ('-=', '+='):
            cur = self.env.get(lv.a['name'])
            if isinstance(cur, Elem):
                self.update(cur, rhs, s, op == '-=')
            return
        if lv.k == 'Index':
            b = strip(lv.c[0])
            nm = b.a.get('name')
            if nm in DENSE:
                tgt = self.elem_of(lv)
                if tgt is None:
                    return
                if op == '=':
                    src = self.elem_of(rhs)
                    r0 = strip(rhs)
                    if src is None and r0.k == 'Index' and strip(r0.c[0]).k == 'Ref' and self.vec_base(strip(r0.c[0]))[0] is not None:
                        self.need(False, s, '`%s` copies from a scratch vector that was not filled for this segment size: the entry is overwritten with '
                                  'whatever the vector holds (zeros)' % pretty(s)[:50])
                        return
                    if src is None:
                        return
                    if strip(rhs).k == 'Ref':
                        src.dirty = None
                        # store back a solved temporary
                        self.need(self.peq(src.row, tgt.row), s, '`%s` stores the entry of stored row %s into row %s' % (pretty(s)[:50], pshow(src.row), pshow(tgt.row)))
                        need = self.final_needed(src.off)
                        if need is not None:
                            self.need(src.applied >= need, s, '`%s` stores an entry that still lacks the contributions of segment rows at offsets %s'
                                      % (pretty(s)[:50], sorted(need - src.applied)))
                    else:
                        # scatter from a vector: dense[irow] = tempv[i]
                        self.need(self.peq(src.row, tgt.row), s,
                                  '`%s` puts the solved entry of stored row %s back into stored row %s' % (pretty(s)[:50], pshow(src.row), pshow(tgt.row)))
                    return
                if op == '-=':
                    src = self.elem_of(rhs)
                    if src is not None and strip(rhs).k == 'Index' and not any(t[0] != 'other' for t in self.products(rhs)):
                        self.need(self.peq(src.row, tgt.row), s,
                                  '`%s` subtracts the product computed for stored row %s from stored row %s' % (pretty(s)[:50], pshow(src.row), pshow(tgt.row)))
                        return
                    self.update(tgt, rhs, s, True)
                    if self.case != 'big' and tgt.off is not None and tgt.off < 0:
                        self.need(tgt.applied >= set(range(0, self.case)), s,
                                  '`%s`: a row below the supernode must receive the contribution of every row of the segment; offsets %s are missing'
                                  % (pretty(s)[:50], sorted(set(range(0, self.case)) - tgt.applied)))
                    elif self.case != 'big' and tgt.off is None:
                        self.rows_below_applied = set(tgt.applied)
                    return
                return
            base, off = self.vec_base(b)
            if base is not None and op == '=':
                src = self.elem_of(rhs)
                i = self.iv(lv.c[1])
                if src is not None and i is not None and strip(rhs).k == 'Index' and strip(strip(rhs).c[0]).a.get('name') in DENSE:
                    # gather: defines (or must agree with) the row of element 0 of the vector
                    r0 = padd(padd(src.row, i, -1), off, -1)
                    if base in self.vecrow and self.vecdef.get(base) is not s:
                        self.need(self.peq(self.vecrow[base], r0), s, '`%s` gathers stored row %s into a vector whose element 0 stands for row %s'
                                  % (pretty(s)[:50], pshow(src.row), pshow(self.vecrow[base])))
                    self.vecrow[base] = r0
                    self.vecdef = getattr(self, 'vecdef', {})
                    self.vecdef[base] = s
            return

    vecdef = {}

    def call(self, c, node):
        name = callee_name(c) or ''
        a = c.c[1:]
        kr = self.krow()
        if name.endswith(('trsv_', 'lsolve')) and len(a) in (8, 4):
            if len(a) == 8:
                n_, A_, lda_, x_ = a[3], a[4], a[5], a[6]
            else:
                lda_, n_, A_, x_ = a[0], a[1], a[2], a[3]
            n = self.iv(strip(n_).c[0] if strip(n_).k == 'Unary' else n_)
            lda = self.iv(strip(lda_).c[0] if strip(lda_).k == 'Unary' else lda_)
            co = self.lusup_coords(A_)
            base, off = self.vec_base(strip(x_))
            if co is None or base is None or base not in self.vecrow or kr is None:
                self.unknown.append(pretty(c)[:60])
                return
            r0 = padd(self.vecrow[base], off)
            self.need(self.peq(co[0], r0) and self.peq(co[1], r0), node,
                      'the triangular solve must start at the diagonal entry of the column of the first gathered row (column offset = stored row = %s); '
                      '`%s` starts at column offset %s, stored row %s' % (pshow(r0), pretty(A_)[:30], pshow(co[0]), pshow(co[1])))
            self.need(self.peq(lda, ps(NS)), node, 'the leading dimension of the supernode block is nsupr; `%s` passes %s' % (pretty(c)[:40], pshow(lda)))
            self.need(self.peq(padd(r0, n), padd(kr, pc(1))), node,
                      'the order of the triangular solve must reach exactly to row krep: first row %s + order %s' % (pshow(r0), pshow(n)))
            self.solved = (base, r0, n)
            return
        if name.endswith(('gemv_', 'matvec')) and len(a) in (11, 6):
            if len(a) == 11:
                m_, n_, A_, lda_, x_, y_ = a[1], a[2], a[4], a[5], a[6], a[9]
            else:
                lda_, m_, n_, A_, x_, y_ = a
            d = lambda z: strip(z).c[0] if strip(z).k == 'Unary' and strip(z).a['op'] == '&' else z
            m, n, lda = self.iv(d(m_)), self.iv(d(n_)), self.iv(d(lda_))
            co = self.lusup_coords(A_)
            xb, xo = self.vec_base(strip(x_))
            yb, yo = self.vec_base(strip(y_))
            if co is None or xb is None or xb not in self.vecrow or kr is None or yb is None:
                self.unknown.append(pretty(c)[:60])
                return
            r0 = padd(self.vecrow[xb], xo)
            self.need(self.peq(co[0], r0), node, 'the block product must use the columns of the gathered rows (first column offset %s); `%s` starts at column offset %s'
                      % (pshow(r0), pretty(A_)[:30], pshow(co[0])))
            self.need(self.peq(padd(r0, n), padd(kr, pc(1))), node, 'the block product must use the columns up to krep: first %s + count %s' % (pshow(r0), pshow(n)))
            self.need(self.peq(lda, ps(NS)), node, 'the leading dimension of the supernode block is nsupr; the call passes %s' % pshow(lda))
            below = padd(kr, pc(1))
            rel = padd(co[1], below, -1)
            # first row of the product: the first row below krep (plus the block-row offset in the 2-D update)
            ok_row = rel is not None and all(NS not in mm for mm in rel) and XLU not in str(rel)
            self.need(ok_row and (not rel or self.is_blockrow(rel)), node,
                      'the block product must start at the first stored row below krep (%s) or at a block-row offset from it; it starts at stored row %s'
                      % (pshow(below), pshow(co[1])))
            if not rel:
                self.need(self.peq(padd(co[1], m), ps(NS)), node, 'the block product must cover all rows below krep: first row %s + count %s = nsupr' % (pshow(co[1]), pshow(m)))
            # the result vector stands for the rows of the product
            self.vecrow[yb] = padd(co[1], yo, -1)
            self.vecdef[yb] = node
            return
        if name.endswith('LUMemXpand'):
            return

    def is_blockrow(self, rel):
        return all(any(s.startswith('T') or s == 'rowblk' or s == 'r_ind' for s in m) for m in rel if m != ())and pconst({(): rel.get((), 0)}) in (0, None)

    def decide(self, cond):
        c = strip(cond)
        if c.k == 'Binary' and c.a['op'] in ('&&', '||'):
            a, b = self.decide(c.c[0]), self.decide(c.c[1])
            if c.a['op'] == '&&':
                if a is False or b is False:
                    return False
                return True if (a and b) else None
            if a is True or b is True:
                return True
            return False if (a is False and b is False) else None
        if c.k == 'Binary' and c.a['op'] in ('==', '!=', '<', '<=', '>', '>='):
            txt = canon(c, ids=False)
            if 'colblk' in txt or 'rowblk' in txt:
                return None
            l, r = strip(c.c[0]), strip(c.c[1])
            if l.k == 'Ref' and l.a.get('name') == 'segsze' and const_value(r) is not None:
                k = const_value(r)
                v = self.case if self.case != 'big' else 9
                return {'==': v == k, '!=': v != k, '<': v < k, '<=': v <= k, '>': v > k, '>=': v >= k}[c.a['op']]
            if 'jsupno' in txt and 'ksupno' in txt:
                return c.a['op'] == '!='
        return None

    def exec_list(self, stmts):
        for s in stmts:
            self.exec(s)

    def exec(self, s):
        if s.k == 'Block':
            return self.exec_list(s.c)
        if s.k == 'Decl':
            for v in s.c:
                if v.k == 'Var' and v.c:
                    self.assign_int_name(v.a.get('name'), v.c[0], v.t)
            return
        if s.k == 'If':
            d = self.decide(s.c[0])
            txt = canon(s.c[0], ids=False)
            only_continue = strip(s.c[1]).k == 'Continue' or (s.c[1].k == 'Block' and len(s.c[1].c) == 1 and strip(s.c[1].c[0]).k == 'Continue')
            if d is None and ('colblk' in txt or 'rowblk' in txt):
                d = self.branch2d
            if d is None and only_continue:
                return          # e.g. `if (kfnz == EMPTY) continue;`: the zero segment is not the case under study
            if d is None:
                d = True
            if d:
                self.exec(s.c[1])
            elif len(s.c) > 2:
                self.exec(s.c[2])
            return
        if s.k == 'For':
            return self.loop(s)
        if s.k in ('Continue',):
            raise Stop()
        if s.k in ('Return', 'Break'):
            raise Stop()
        if s.k == 'While':
            return
        e = strip(s)
        if e.k == 'Binary' and e.a.get('op') == ',':
            for c in e.c:
                self.exec(c)
            return
        if e.k == 'Call':
            return self.call(e, s)
        if e.k == 'Unary' and e.a['op'] in ('++', '--', 'post++', 'post--'):
            t = strip(e.c[0])
            if t.k == 'Ref' and isinstance(self.env.get(t.a.get('name')), dict):
                self.env[t.a['name']] = padd(self.env[t.a['name']], pc(1 if '+' in e.a['op'] else -1))
            return
        if e.k == 'Assign':
            lv = strip(e.c[0])
            t = (lv.t or '')
            isfloat = ('double' in t or 'float' in t) and not t.strip().endswith('*')
            if isfloat:
                return self.assign_float(e)
            if lv.k == 'Ref':
                if t.strip().endswith('*'):
                    return self.assign_ptr(lv.a.get('name'), e.c[1], e.a['op'])
                if e.a['op'] == '=':
                    return self.assign_int_name(lv.a.get('name'), e.c[1], t)
                cur = self.env.get(lv.a.get('name'))
                v = self.iv(e.c[1])
                if isinstance(cur, dict) and v is not None and e.a['op'] in ('+=', '-='):
                    self.env[lv.a['name']] = padd(cur, v, 1 if e.a['op'] == '+=' else -1)
                else:
                    self.env.pop(lv.a.get('name'), None)
            return

    def assign_ptr(self, name, rhs, op):
        r = strip(rhs)
        if op != '=':
            return      # dense_col += m, TriTmp += ldaTmp: the next panel column; rows keep their meaning
        if r.k == 'Unary' and r.a['op'] == '&' and strip(r.c[0]).k == 'Index':
            b = strip(strip(r.c[0]).c[0])
            base, off = self.vec_base(b)
            i = self.iv(strip(r.c[0]).c[1])
            if base is not None and i is not None:
                self.ptr[name] = (base, padd(off, i))
                return
        if r.k == 'Ref' and r.a.get('name') in VECS | set(self.ptr):
            base, off = self.vec_base(r)
            if name in VECS and name != base:
                self.ptr[name] = (base, off)
            return
        self.ptr.pop(name, None)

    def assign_int_name(self, name, rhs, t):
        r = strip(rhs)
        if r.k == 'Index' and strip(r.c[0]).a.get('name') == 'lsub':
            row = self.row_of_lsub(r)
            self.env[name] = ('row', row) if row is not None else None
            return
        v = self.iv(rhs)
        if v is None:
            v = self.fresh(rhs) if name not in ('kfnz',) or True else None
            if name == 'kfnz':
                v = ps('kfnz')
            if name == 'fst_col':
                v = ps('fst_col')
        self.env[name] = v
        if name == 'nsupr':
            self.env[name] = ps(NS)
        if name == 'segsze' and self.case != 'big' and isinstance(self.env.get('krep'), dict):
            # the case under study fixes the first row of the segment:  kfnz = krep + 1 - segsze
            q = padd(self.env['krep'], pc(1 - self.case))
            for k2, v2 in list(self.env.items()):
                if isinstance(v2, dict):
                    self.env[k2] = psubst(v2, 'kfnz', q)
            self.env['segsze'] = pc(self.case)

    def loop(self, lp):
        init, cond, inc, body = lp.c[0], strip(lp.c[1]), lp.c[2], lp.c[3]
        if init is not None and init.k != 'Empty':
            self.exec(init)
        hv = strip(cond.c[0]).a.get('name') if cond.k == 'Binary' and strip(cond.c[0]).k == 'Ref' else None
        bound = self.iv(cond.c[1]) if cond.k == 'Binary' else None
        start = dict(self.env)
        # pass 1 (no obligations): per-iteration deltas
        saved = (dict(self.env), dict(self.vecrow), dict(self.ptr), self.nobl)
        q = self.quiet
        self.quiet = True
        try:
            self.exec(body)
        except Stop:
            pass
        if inc is not None and inc.k != 'Empty':
            self.exec(inc)
        self.quiet = q
        after = self.env
        deltas = {}
        for k, v in after.items():
            b = saved[0].get(k)
            if isinstance(v, dict) and isinstance(b, dict):
                d = padd(v, b, -1)
                if d:
                    deltas[k] = d
        self.env, self.vecrow, self.ptr, self.nobl = dict(saved[0]), dict(saved[1]), dict(saved[2]), saved[3]
        self.nT += 1
        T = 'T%d' % self.nT
        for k, d in deltas.items():
            td = pmul(ps(T), d)
            self.env[k] = padd(self.env[k], td) if td is not None else None
        try:
            self.exec(body)
        except Stop:
            pass
        # after the loop
        n = None
        if hv and bound is not None and isinstance(saved[0].get(hv), dict) and hv in deltas and cond.a['op'] == '<':
            n = padd(bound, saved[0][hv], -1)
            dv = pconst(deltas[hv])
            if dv not in (1,):
                n = None
        for k, d in deltas.items():
            if n is not None and isinstance(saved[0].get(k), dict):
                nd = pmul(n, d)
                self.env[k] = padd(saved[0][k], nd) if nd is not None else None
            else:
                self.env[k] = None
        # coverage of the rows-below loops of the unrolled cases
        if hv == 'i' and isinstance(saved[0].get('i'), dict) and bound is not None and getattr(self, 'rows_below_applied', None) is not None and self.case != 'big':
            kr = self.krow()
            first = padd(saved[0]['i'], ps(XLS), -1)
            last = padd(bound, ps(XLS), -1)
            self.need(self.peq(first, padd(kr, pc(1))) and self.peq(last, ps(NS)), lp,
                      'the loop over the rows below the supernode must run from stored row krep - fsupc + 1 to nsupr; it runs from %s to %s' % (pshow(first), pshow(last)))
            self.need(self.rows_below_applied >= set(range(0, self.case)), lp,
                      'every row below the supernode must receive the contribution of all %d rows of the segment; offsets %s are missing'
                      % (self.case, sorted(set(range(0, self.case)) - self.rows_below_applied)))
            self.rows_below_applied = None

    rows_below_applied = None


def find_update_loop(f):
    """the loop over updating supernodes: the For whose body assigns krep"""
    for x in f.body.walk():
        if x.k == 'For' and any(y.k == 'Assign' and strip(y.c[0]).k == 'Ref' and strip(y.c[0]).a.get('name') == 'krep' for y in x.c[3].walk()):
            return x
    return None


def run(chk, cid, prog, p, cfgname):
    """p in 's', 'd'"""
    n = 0
    for fname in (p + 'column_bmod', p + 'panel_bmod'):
        f = prog.func(fname)
        if f is None:
            from ..run import AnalysisBroken
            raise AnalysisBroken('%s not found' % fname)
        chk.saw(unit=f.unit, func=f.unit + ':' + f.name)
        lp = find_update_loop(f)
        if lp is None:
            from ..run import AnalysisBroken
            raise AnalysisBroken('%s: loop over the updating supernodes not found' % fname)
        branches = (False, True) if fname.endswith('panel_bmod') else (False,)
        for b2 in branches:
            for case in (1, 2, 3, 'big'):
                reps = {}

                def report(node, what, reps=reps):
                    reps.setdefault((node.line, what[:60]), (node, what))
                m = Machine(f, case, b2, report)
                # locals that are set before the loop and matter: none numerically; fpanelc / jcol stay symbols
                for (nm, i, t) in f.params:
                    if (t or '').strip() in ('int', 'const int', 'int_t'):
                        m.env[nm] = ps(nm)
                try:
                    m.exec(lp.c[3])
                except Stop:
                    pass
                for nm, v in m.env.items():
                    if isinstance(v, Elem) and v.dirty is not None:
                        m.need(False, v.dirty, '`%s` changes the solved entry held in `%s`, which is never stored back into the column' % (pretty(v.dirty)[:50], nm))
                n += 1
                inst = '%s:%s:segsze%s' % (fname, '2-D' if b2 else '1-D', '>=4' if case == 'big' else '=%d' % case)
                if m.unknown and not reps:
                    from ..run import AnalysisBroken
                    raise AnalysisBroken('%s:%s: cannot interpret %s (names of the supernode arrays / scratch vectors changed?)' % (fname, case, m.unknown[:2]))
                if m.nobl < (2 if case == 1 else 4):
                    from ..run import AnalysisBroken
                    raise AnalysisBroken('%s: only %d obligations generated (the kernel was not recognised)' % (inst, m.nobl))
                if not reps:
                    chk.ok(cid, inst, sample='%d index identities hold' % m.nobl)
                else:
                    for (node, what) in list(reps.values())[:3]:
                        chk.violate(cid, '%s:%s' % (inst, re.sub(r'\W+', '_', what[:40])), loc(f, node), fname, what, cfgname=cfgname)
    return n


def run_snode(chk, cid, prog, p, cfgname):
    """?snode_bmod updates column jcol of its own supernode [fsupc..]: x = L[0..nsupc) block solve on the first nsupc = jcol - fsupc entries of the column,
    then the rows below:  trsv A = (column 0, row 0), order nsupc, x = (column jcol - fsupc, row 0);  gemv A = (column 0, row nsupc), nsupr - nsupc rows,
    nsupc columns, x as before, y = (column jcol - fsupc, row nsupc), all with leading dimension nsupr."""
    f = prog.func(p + 'snode_bmod')
    if f is None:
        from ..run import AnalysisBroken
        raise AnalysisBroken('%ssnode_bmod not found' % p)
    chk.saw(unit=f.unit, func=f.unit + ':' + f.name)
    reps = {}

    def report(node, what):
        reps.setdefault((node.line, what[:60]), (node, what))
    m = Machine(f, 'big', False, report)
    for (nm, i, t) in f.params:
        if (t or '').replace('const', '').strip() in ('int', 'int_t'):
            m.env[nm] = ps(nm)
    calls = []
    orig_call = m.call

    def call(c, node):
        name = callee_name(c) or ''
        a = c.c[1:]
        d = lambda z: strip(z).c[0] if strip(z).k == 'Unary' and strip(z).a['op'] == '&' else z
        jc = padd(m.env.get('jcol'), m.env.get('fsupc'), -1)
        if name.endswith(('trsv_', 'lsolve')):
            if len(a) == 8:
                n_, A_, lda_, x_ = a[3], a[4], a[5], a[6]
            else:
                lda_, n_, A_, x_ = a[0], a[1], a[2], a[3]
            n, lda, A, x = m.iv(d(n_)), m.iv(d(lda_)), m.lusup_coords(A_), m.lusup_coords(x_)
            calls.append('trsv')
            if A is None or x is None:
                m.unknown.append(pretty(c)[:60])
                return
            m.need(not A[0] and not A[1], node, 'the block solve must start at the first entry of the supernode (column 0, row 0); `%s` is at column offset %s, row %s'
                   % (pretty(A_)[:30], pshow(A[0]), pshow(A[1])))
            m.need(m.peq(n, jc) and m.peq(lda, ps(NS)), node, 'order must be jcol - fsupc and the leading dimension nsupr; got %s, %s' % (pshow(n), pshow(lda)))
            m.need(m.peq(x[0], jc) and not x[1], node, 'the vector is column jcol of the supernode from its first row; `%s` is at column offset %s, row %s'
                   % (pretty(x_)[:30], pshow(x[0]), pshow(x[1])))
            return
        if name.endswith(('gemv_', 'matvec')):
            if len(a) == 11:
                m_, n_, A_, lda_, x_, y_ = a[1], a[2], a[4], a[5], a[6], a[9]
            else:
                lda_, m_, n_, A_, x_, y_ = a
            mm, n, lda, A, x = m.iv(d(m_)), m.iv(d(n_)), m.iv(d(lda_)), m.lusup_coords(A_), m.lusup_coords(x_)
            y = m.lusup_coords(y_)
            calls.append('gemv')
            if A is None or x is None:
                m.unknown.append(pretty(c)[:60])
                return
            m.need(not A[0] and m.peq(A[1], jc), node, 'the block product uses the rows below the first jcol - fsupc ones of columns 0..; `%s` is at column offset %s, row %s'
                   % (pretty(A_)[:30], pshow(A[0]), pshow(A[1])))
            m.need(m.peq(n, jc) and m.peq(padd(mm, n), ps(NS)) and m.peq(lda, ps(NS)), node,
                   'the block product has nsupr - nsupc rows, nsupc = jcol - fsupc columns and leading dimension nsupr; got %s rows, %s columns, lda %s' % (pshow(mm), pshow(n), pshow(lda)))
            m.need(m.peq(x[0], jc) and not x[1], node, 'x is column jcol from its first row; it is at column offset %s, row %s' % (pshow(x[0]), pshow(x[1])))
            if y is not None:
                m.need(m.peq(y[0], jc) and m.peq(y[1], jc), node, 'y is column jcol from row jcol - fsupc on; it is at column offset %s, row %s' % (pshow(y[0]), pshow(y[1])))
            return
    m.call = call
    try:
        m.exec(f.body)
    except Stop:
        pass
    inst = '%s:block-operands' % f.name
    if m.unknown and not reps:
        from ..run import AnalysisBroken
        raise AnalysisBroken('%s: cannot interpret %s' % (f.name, m.unknown[:2]))
    if sorted(calls) != ['gemv', 'trsv']:
        from ..run import AnalysisBroken
        raise AnalysisBroken('%s: expected one triangular solve and one block product, saw %s' % (f.name, calls))
    if not reps:
        chk.ok(cid, inst, sample='%d index identities hold' % m.nobl)
    for (node, what) in list(reps.values())[:3]:
        chk.violate(cid, '%s:%s' % (inst, re.sub(r'\W+', '_', what[:40])), loc(f, node), f.name, what, cfgname=cfgname)
    return 1


def run_solve(chk, cid, prog, fname, cfgname):
    """?gstrs / sp_?trsv sweep the supernodes of the finished factors (macros L_FST_SUPC, L_SUB_START, L_NZ_START).  For every dense kernel called on
    a supernode block: the triangular operand is the first entry of the block (column 0, row 0) with order = width of the supernode and leading
    dimension = its row count; the rectangular operand starts `order` rows below it in column 0 and has row count - order rows."""
    f = prog.func(fname)
    if f is None:
        from ..run import AnalysisBroken
        raise AnalysisBroken('%s not found' % fname)
    chk.saw(unit=f.unit, func=f.unit + ':' + f.name)
    reps = {}
    nsite = [0]

    def report(node, what):
        reps.setdefault((node.line, what[:60]), (node, what))
    loops = [x for x in f.body.walk() if x.k == 'For' and any(y.k == 'Assign' and strip(y.c[0]).k == 'Ref' and strip(y.c[0]).a.get('name') == 'fsupc' for y in x.c[3].walk())
             and 'nsuper' in (canon(x.c[0], ids=False) + canon(x.c[1], ids=False))]
    unknown = []
    for lp in loops:
        m = Machine(f, 'big', False, report)
        d = lambda z: strip(z).c[0] if strip(z).k == 'Unary' and strip(z).a['op'] == '&' else z

        def call(c, node, m=m):
            name = callee_name(c) or ''
            a = c.c[1:]
            width = m.env.get('nsupc')
            tri = rect = None
            if name.endswith('trsm_') and len(a) == 11:
                tri = (a[4], a[7], a[8])
            elif name.endswith('trsv_') and len(a) == 8:
                tri = (a[3], a[4], a[5])
            elif name.endswith(('lsolve', 'usolve')) and len(a) == 4:
                tri = (a[1], a[2], a[0])
            elif name.endswith('gemm_') and len(a) == 13:
                rect = (a[2], a[4], a[6], a[7])         # m, k, A, lda
            elif name.endswith('gemv_') and len(a) == 11:
                rect = (a[1], a[2], a[4], a[5])
            elif name.endswith('matvec') and len(a) == 6:
                rect = (a[1], a[2], a[3], a[0])
            if tri is not None:
                n, A, lda = m.iv(d(tri[0])), m.lusup_coords(tri[1]), m.iv(d(tri[2]))
                if A is None or n is None:
                    return
                nsite[0] += 1
                m.need(not A[0] and not A[1], node, 'the triangular operand must be the first entry of the supernode block; `%s` is at column offset %s, row %s'
                       % (pretty(tri[1])[:30], pshow(A[0]), pshow(A[1])))
                m.need(m.peq(n, width) and m.peq(lda, ps(NS)), node, 'order = width of the supernode (%s), leading dimension = its row count; got %s, %s'
                       % (pshow(width), pshow(n), pshow(lda)))
            if rect is not None:
                mm, k, A, lda = m.iv(d(rect[0])), m.iv(d(rect[1])), m.lusup_coords(rect[2]), m.iv(d(rect[3]))
                if A is None or mm is None or k is None:
                    return
                nsite[0] += 1
                m.need(not A[0] and m.peq(A[1], width), node, 'the rectangular operand must start below the triangle, at column 0, row = width of the supernode; `%s` is at '
                       'column offset %s, row %s' % (pretty(rect[2])[:30], pshow(A[0]), pshow(A[1])))
                m.need(m.peq(padd(mm, k), ps(NS)) and m.peq(k, width) and m.peq(lda, ps(NS)), node,
                       'rows = row count - width, columns = width, leading dimension = row count; got %s, %s, %s' % (pshow(mm), pshow(k), pshow(lda)))
        m.call = call
        m.decide_orig = m.decide

        def decide(cond, m=m):
            c = strip(cond)
            if c.k == 'Binary' and 'nsupc' in canon(c, ids=False) and c.a['op'] in ('==', '>'):
                return c.a['op'] == '>'        # the multi-column branch is the one with dense kernels
            return m.decide_orig(cond)
        m.decide = decide
        try:
            m.exec(lp.c[3])
        except Stop:
            pass
    inst = '%s:dense-kernel-operands' % fname
    if nsite[0] < 2:
        from ..run import AnalysisBroken
        raise AnalysisBroken('%s: only %d dense kernel calls on supernode blocks recognised' % (fname, nsite[0]))
    if not reps:
        chk.ok(cid, inst, sample='%d dense kernel call(s) on supernode blocks' % nsite[0])
    for (node, what) in list(reps.values())[:3]:
        chk.violate(cid, '%s:%s' % (inst, re.sub(r'\W+', '_', what[:40])), loc(f, node), fname, what, cfgname=cfgname)
    return nsite[0]
