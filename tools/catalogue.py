"""Mutant / benign-edit catalogue (DESIGN.md appendix A): acceptance tests of the engines.
Each entry: id, edits [(file, old, new)] (exact unique replacement), expect = properties whose
check must fire (mutants) or [] with `silent` = properties that must stay silent (benign)."""

M = {}


def add(id, edits, expect=(), silent=(), note=''):
    M[id] = {'id': id, 'edits': list(edits), 'expect': list(expect), 'silent': list(silent), 'note': note}


def get(id):
    return M[id]


# ---------------------------------------------------------------- C09
add('M18', [('SRC/dlacon2.c', "    int jlast;\n    double altsgn, estold;", "    static int jlast;\n    double altsgn, estold;")], ['C09'],
    note='dlacon2: jlast becomes a static local again')
add('M19', [('SRC/sp_ienv.c', "    switch (ispec) {\n\tcase 1: return (20);",
             "    if (ispec == 2 && getenv(\"SLU_RELAX\")) return atoi(getenv(\"SLU_RELAX\"));\n    switch (ispec) {\n\tcase 1: return (20);")], ['C09'],
    note='sp_ienv reads a tuning value from the environment')
add('M18b', [('SRC/memory.c', "void *superlu_malloc(size_t size)\n{\n    void *buf;", "size_t slu_total_bytes;\nvoid *superlu_malloc(size_t size)\n{\n    void *buf;\n    slu_total_bytes += size;")],
    ['C09'], note='allocation counter at file scope')
add('M18c', [('SRC/sp_coletree.c', "static \nint *mxCallocInt(int n)\n{\n    register int i;\n    int *buf;\n", "static int *mx_cache; static\nint *mxCallocInt(int n)\n{\n    register int i;\n    int *buf;\n    if (mx_cache) { int *t = mx_cache; mx_cache = 0; return t; }")],
    ['C09'], note='cached buffer in sp_coletree')

# ---------------------------------------------------------------- C18
add('M34', [('SRC/dgsrfs.c', "        *info = -10;", "        *info = -9;")], ['C18'], note='dgsrfs reports B with the position of C')
add('M35', [('SRC/cgssvx.c', "A->Dtype != SLU_C || A->Mtype != SLU_GE", "A->Dtype != SLU_Z || A->Mtype != SLU_GE")], ['C18'], note='wrong precision tag')
add('M36', [('SRC/dgstrs.c', "    nrhs = B->ncol;\n    if ( trans != NOTRANS", "    nrhs = B->ncol;\n    work = doubleCalloc((size_t) L->nrow * (size_t) nrhs);\n    if ( trans != NOTRANS")],
    ['C18'], note='allocation before the screening: leaked on the error return')
add('M36b', [('SRC/zgssv.c', "A->Dtype != SLU_Z || A->Mtype != SLU_GE )", "A->Dtype != SLU_Z )")], ['C18'], note='Mtype check dropped')
add('M36c', [('SRC/sgssvx.c', "if ( lwork < -1 ) *info = -12;", "if ( lwork < 0 ) *info = -12;")], ['C18'], note='rejects the documented lwork = -1 query')
add("M36d", [("SRC/dgsisx.c", "if ( X->ncol < 0 ) *info = -14;", "if ( X->ncol < 0 ) *info = -13;")], ['C18'], note='X error reported as B')
add('M36e', [('SRC/zsp_blas2.c', "    else if ( L->nrow != L->ncol || L->nrow < 0 ) *info = -4;\n    else if ( U->nrow != U->ncol || U->nrow < 0 ) *info = -5;",
              "    else if ( U->nrow != U->ncol || U->nrow < 0 ) *info = -5;\n    else if ( L->nrow != L->ncol || L->nrow < 0 ) *info = -4;")], ['C18'],
    note='order of checks swapped: later argument reported first')
add('B1', [('SRC/dgssvx.c', "rowequ", "row_scaled", 'all'), ('SRC/sgssvx.c', "rowequ", "row_scaled", 'all')], [], ['C18', 'C05'], note='rename a local in dgssvx/sgssvx')
add('B4', [('SRC/dgsrfs.c', "    notran = (trans == NOTRANS);\n    if ( !notran", "    notran = (trans == NOTRANS);\n    nz = A->nrow;\n    if ( !notran"),
           ('SRC/dgsrfs.c', "    else if ( A->nrow != A->ncol || A->nrow < 0 ||", "    else if ( nz != A->ncol || nz < 0 ||")], [], ['C18'], note='hoist A->nrow into a local (d only: sibling rule will see it)')


def x4(relpat, old, new):
    """the same edit in all four arithmetic variants ('?' in the file name and in old/new is the precision letter)"""
    out = []
    for p in 'sdcz':
        out.append((relpat.replace('?', p), old.replace('?', p), new.replace('?', p)))
    return out


# ---------------------------------------------------------------- C01 (applied to all four variants so that only the oracle can see them)
add('M01', x4('SRC/?gssv.c', "\ttrans = TRANS;\n", "\n"), ['C01'], note='row storage solved with NOTRANS')
add('M01b', x4('SRC/?gssv.c', "Astore->nzval, Astore->colind, Astore->rowptr,", "Astore->nzval, Astore->rowptr, Astore->colind,"), ['C01'],
    note='row-storage view built with index arrays swapped')
add('M01c', x4('SRC/?gssv.c', "    if ( *info == 0 ) {\n        /* Solve the system A*X=B, overwriting B with X. */", "    if ( *info <= A->ncol ) {\n        /* Solve the system A*X=B, overwriting B with X. */"),
    ['C01'], note='solve attempted on a singular factorization')
add('M01d', x4('SRC/?gssv.c', "      get_perm_c(permc_spec, AA, perm_c);", "      get_perm_c(permc_spec, A, perm_c);"), ['C01'], note='ordering computed on A instead of the column view')
add('M02', [('SRC/zgstrs.c', "	    for (k = 0; k < n; k++) soln[k] = rhs_work[perm_r[k]];", "	    for (k = 0; k < n; k++) soln[k] = rhs_work[perm_c[k]];"),
            ('SRC/cgstrs.c', "	    for (k = 0; k < n; k++) soln[k] = rhs_work[perm_r[k]];", "	    for (k = 0; k < n; k++) soln[k] = rhs_work[perm_c[k]];")], ['C01'],
    note='transposed solve gathers by perm_c')
add('M02b', x4('SRC/?gstrs.c', "	    for (k = 0; k < n; k++) soln[perm_r[k]] = rhs_work[k];", "	    for (k = 0; k < n; k++) soln[k] = rhs_work[perm_r[k]];"), ['C01'],
    note='NOTRANS: gather instead of scatter by perm_r (inverse permutation)')
add('M02c', [(f, 'sp_%strsv("U", "T", "N", L, U, &Bmat[(size_t)k * (size_t)ldb], stat, info);' % p, 'sp_%strsv("L", "T", "U", L, U, &Bmat[(size_t)k * (size_t)ldb], stat, info); /*swapped*/' % p)
             for (f, p) in (('SRC/dgstrs.c', 'd'), ('SRC/sgstrs.c', 's'))]
            + [(f, 'sp_%strsv("L", "T", "U", L, U, &Bmat[(size_t)k * (size_t)ldb], stat, info);\n' % p, 'sp_%strsv("U", "T", "N", L, U, &Bmat[(size_t)k * (size_t)ldb], stat, info);\n' % p)
               for (f, p) in (('SRC/dgstrs.c', 'd'), ('SRC/sgstrs.c', 's'))], ['C01'], note='transposed solve applies L^T before U^T (real variants)')

# ---------------------------------------------------------------- C05 / C04 / C12 / C13 (expert driver; all four variants unless noted)
add('M09', x4('SRC/?gssvx.c', "	    if ( colequ ) {\n	        for (j = 0; j < nrhs; ++j)\n		    for (i = 0; i < A->nrow; ++i)\n", "	    if ( rowequ ) {\n	        for (j = 0; j < nrhs; ++j)\n		    for (i = 0; i < A->nrow; ++i)\n"),
    ['C05'], note='X unscaled under the wrong flag in the no-transpose arm')
add('M09b', x4('SRC/?gssvx.c', "	    trant = TRANS;\n	    notran = 0;", "	    trant = TRANS;"), ['C05'], note='row storage: notran not reversed (scales with the wrong factor)')
add('M09c', x4('SRC/?gssvx.c', "    if ( nofact && equil ) {", "    if ( equil ) {"), ['C05'], note='equilibrates again although factors are supplied')
add('M08', x4('SRC/?gssvx.c', "	if ( info1 == 0 ) {\n	    /* Equilibrate matrix A. */", "	if ( info1 >= 0 ) {\n	    /* Equilibrate matrix A. */"), ['C05'],
    note='laqgs applied although gsequ reported a zero row/column')
add('M09d', [('SRC/dgssvx.c', "	            Xmat[i + j*ldx] *= R[i];", "	            Xmat[i + j*ldb] *= R[i];"), ('SRC/sgssvx.c', "	            Xmat[i + j*ldx] *= R[i];", "	            Xmat[i + j*ldb] *= R[i];")],
    ['C05'], note='X unscaled with the leading dimension of B (d and s, so that the sibling rule is blind)')

# ---------------------------------------------------------------- C11
add('M11', x4('SRC/?laqgs.c', "	*(unsigned char *)equed = 'R';", "	*(unsigned char *)equed = 'C';"), ['C11'], note='row-scaling branch stores the letter C')
add('M11b', x4('SRC/?laqgs.c', "    } else if (colcnd >= THRESH) {", "    } else if (colcnd > THRESH) {"), ['C11'], note='strict comparison against THRESH')
add('M11c', x4('SRC/?laqgs.c', "#define THRESH    (0.1)", "#define THRESH    (0.01)"), ['C11'], note='threshold value changed')
add('M22', x4('SRC/?gsequ.c', "	    r[i] = 1. / SUPERLU_MIN( SUPERLU_MAX( r[i], smlnum ), bignum );", "	    r[i] = 1. / r[i];"), ['C11'], note='clamp dropped from the row factors')
add('M22b', x4('SRC/?gsequ.c', "		*info = A->nrow + j + 1;", "		*info = A->ncol + j + 1;"), ['C11'], note='empty column reported relative to ncol')
add('M22c', [('SRC/dmach.c', "	rmach = DBL_EPSILON * 0.5 * FLT_RADIX;", "	rmach = DBL_EPSILON * 0.5;"), ('SRC/smach.c', "	rmach = FLT_EPSILON * 0.5 * FLT_RADIX;", "	rmach = FLT_EPSILON * 0.5;")],
    ['C11'], note='Precision returns eps instead of eps*base')

# ---------------------------------------------------------------- C02 / C03 / C04 / C06 (factor routine; all four variants)
add('M03', [('SRC/dpivotL.c', "	    if ( rtemp != 0.0 && rtemp >= thresh ) pivptr = diag;", "	    if ( rtemp >= thresh ) pivptr = diag;"),
            ('SRC/spivotL.c', "	    if ( rtemp != 0.0 && rtemp >= thresh ) pivptr = diag;", "	    if ( rtemp >= thresh ) pivptr = diag;")], ['C04', 'C02'],
    note='zero diagonal accepted when u = 0 (d and s)')
add('M03b', [('SRC/dpivotL.c', "	if ( rtemp != 0.0 && rtemp >= thresh )\n	    pivptr = old_pivptr;", "	if ( rtemp != 0.0 && rtemp >= u )\n	    pivptr = old_pivptr;"),
             ('SRC/spivotL.c', "	if ( rtemp != 0.0 && rtemp >= thresh )\n	    pivptr = old_pivptr;", "	if ( rtemp != 0.0 && rtemp >= u )\n	    pivptr = old_pivptr;")], ['C02'],
    note='remembered pivot tested against u instead of u*max (d and s)')
add('M04', [('SRC/dpivotL.c', "	    pivptr = old_pivptr;\n	else\n	    *usepr = 0;", "	    pivptr = old_pivptr;"), ('SRC/spivotL.c', "	    pivptr = old_pivptr;\n	else\n	    *usepr = 0;", "	    pivptr = old_pivptr;")],
    ['C02'], note='failed reuse does not fall back')
add('M07', x4('SRC/?gstrf.c', "				      iperm_r, iperm_c, &pivrow, Glu, stat)) )\n		    if ( iinfo == 0 ) iinfo = *info;\n		\n#if ( DEBUGlevel>=2 )\n		?print_lu_col(\"[1]: \"",
              "				      iperm_r, iperm_c, &pivrow, Glu, stat)) )\n		    iinfo = *info;\n		\n#if ( DEBUGlevel>=2 )\n		?print_lu_col(\"[1]: \""), ['C04'],
    note='last instead of first singular column reported')
add('M05', x4('SRC/?gstrf.c', "	((SCformat *)L->Store)->rowind = Glu->lsub;\n", ""), ['C03', 'C06'], note='reuse branch forgets L rowind')
add('M05b', x4('SRC/?gstrf.c', "        ((SCformat *)L->Store)->nnz = nnzL;\n", ""), ['C03', 'C06'], note='reuse branch forgets nnz(L)')
add('M08b', x4('SRC/?gssvx.c', "    if ( *info > 0 ) { \n", "    if ( *info > A->ncol ) { \n"), ['C04'], note='singular factorization falls through to the solve')
add('M12', [('SRC/sp_preorder.c', "    if ( options->Fact == DOFACT ) {\n#undef ETREE_ATplusA", "    if ( options->Fact != FACTORED ) {\n#undef ETREE_ATplusA")], ['C06'],
    note='etree recomputed and perm_c post-ordered again when the caller reuses them')
add('M13', x4('SRC/?gstrs.c', "    solve_ops = 0;\n    \n    if ( trans == NOTRANS ) {", "    solve_ops = 0;\n    Lval[0] = Lval[0];\n    if ( trans == NOTRANS ) {"), ['C06'],
    note='solve writes into the L values')
add('M12b', x4('SRC/?gssvx.c', "	if ( permc_spec != MY_PERMC && options->Fact == DOFACT )", "	if ( permc_spec != MY_PERMC )"), ['C06'], note='ordering recomputed on SamePattern')

# ---------------------------------------------------------------- C12 / C13 / C14
add('M23', x4('SRC/?gssvx.c', "        if ( notran ) {\n	    *(unsigned char *)norm = '1';", "        if ( options->Trans == NOTRANS ) {\n	    *(unsigned char *)norm = '1';"), ['C12'],
    note='norm follows the caller flag, not the effective transpose (row storage)')
add('M24', x4('SRC/?gscon.c', "    if ( onenrm ) kase1 = 1;\n    else kase1 = 2;", "    if ( onenrm ) kase1 = 2;\n    else kase1 = 1;"), ['C12'], note='kase1 swapped')
add('M24b', x4('SRC/?pivotgrowth.c', "	for (j = fsupc; j < L_FST_SUPC(k+1) && j < ncols; ++j) {", "	for (j = fsupc; j < L_FST_SUPC(k+1); ++j) {"), ['C12'],
    note='growth scan runs past the leading ncols columns inside a supernode')
add('M24c', x4('SRC/?gssvx.c', "	    *recip_pivot_growth = ?PivotGrowth(*info, AA, perm_c, L, U);", "	    *recip_pivot_growth = ?PivotGrowth(A->ncol, AA, perm_c, L, U);"), ['C12'],
    note='singular case: growth over all columns instead of the leading *info')
add('M25', x4('SRC/?gsrfs.c', "<= lstres && count < ITMAX) {", "<= lstres && count <= 50) {"), ['C13'], note='up to 51 refinement steps')
add('M25b', x4('SRC/?gsrfs.c', "		lstres = berr[j];\n		++count;\n	    } else {\n		break;\n	    }", "		lstres = berr[j];\n		if (++count == ITMAX) break;\n	    } else {\n		break;\n	    }"),
    ['C13'], note='loop leaves right after the fifth update: BERR is stale')
add('M26', [('SRC/zgsrfs.c', "	*(unsigned char *)transc = 'C';", "	*(unsigned char *)transc = 'T';"), ('SRC/cgsrfs.c', "	*(unsigned char *)transc = 'C';", "	*(unsigned char *)transc = 'T';")], ['C13'],
    note='CONJ residual formed with A^T (complex)')
add('M26b', x4('SRC/?gsrfs.c', "		?gstrs (transt, L, U, perm_c, perm_r, &Bjcol, stat, info);", "		?gstrs (trans, L, U, perm_c, perm_r, &Bjcol, stat, info);"), ['C13'],
    note='estimator kase 1 solves with the same sense')
add('M26c', x4('SRC/?gssvx.c', "            for (j = 0; j < nrhs; ++j) ferr[j] = berr[j] = 1.0;", "            for (j = 0; j < nrhs; ++j) ferr[j] = berr[j] = 0.0;"), ['C13'], note='NOREFINE reports zero errors')
add('M27', x4('SRC/?sp_blas2.c', "    solve_ops = 0;\n\n    if ( !(work = ", "    solve_ops = 0;\n    Uval[0] = Uval[0];\n    if ( !(work = "), ['C14'], note='sp_?trsv writes into U')
add('M28', [('SRC/dsp_blas2.c', "	    for (k = Lstore->nsuper; k >= 0; k--) {\n	    	fsupc = L_FST_SUPC(k);\n	    	nsupr = L_SUB_START(fsupc+1) - L_SUB_START(fsupc);\n	    	nsupc = L_FST_SUPC(k+1) - fsupc;\n	    	luptr = L_NZ_START(fsupc);\n		\n    	        solve_ops += nsupc * (nsupc + 1);",
             "	    for (k = 0; k <= Lstore->nsuper; k++) {\n	    	fsupc = L_FST_SUPC(k);\n	    	nsupr = L_SUB_START(fsupc+1) - L_SUB_START(fsupc);\n	    	nsupc = L_FST_SUPC(k+1) - fsupc;\n	    	luptr = L_NZ_START(fsupc);\n		\n    	        solve_ops += nsupc * (nsupc + 1);")],
    ['C14'], note='back substitution sweeps supernodes forward (d)')
add('M28b', [('SRC/zsp_blas2.c', "    else ky =  - (leny - 1) * incy;", "    else ky =  - (lenx - 1) * incy;"), ('SRC/csp_blas2.c', "    else ky =  - (leny - 1) * incy;", "    else ky =  - (lenx - 1) * incy;")], ['C14'],
    note='start of y computed from the length of x (complex)')

# ---------------------------------------------------------------- C07 / C08 / C19 (storage)
add('M14', x4('SRC/?column_dfs.c', "		mem_error = ?LUMemXpand(jcol, nextl, LSUB, &nzlmax, Glu);\n		if ( mem_error ) return (mem_error);\n		lsub = Glu->lsub;\n	    }\n            if ( kmark",
              "		mem_error = ?LUMemXpand(jcol, nextl, LSUB, &nzlmax, Glu);\n		if ( mem_error ) return (mem_error);\n	    }\n            if ( kmark"), ['C07'],
    note='lsub not re-read after LSUB expansion')
add('M15', [('SRC/dcolumn_bmod.c', "	lusup = (double *) Glu->lusup;\n	lsub = Glu->lsub;\n    }\n\n    for (isub", "	lusup = (double *) Glu->lusup;\n    }\n\n    for (isub")], ['C07'],
    note='lsub kept stale after LUSUP expansion (moves in a workspace)')
add('M16', x4('SRC/?memory.c', "#define StackFull(x)         ( x + Glu->stack.used >= Glu->stack.size )", "#define StackFull(x)         ( x + Glu->stack.top1 >= Glu->stack.size )"), ['C08'],
    note='fullness test ignores the tail end')
add('M16b', x4('SRC/?memory.c', "	Glu->stack.top2 -= bytes;\n	buf = (char*) Glu->stack.array + Glu->stack.top2;\n    }\n    \n    Glu->stack.used += bytes;", "	Glu->stack.top2 -= bytes;\n	buf = (char*) Glu->stack.array + Glu->stack.top2;\n	return buf;\n    }\n    \n    Glu->stack.used += bytes;"), ['C08'],
    note='tail allocations are not counted in used')
add('M17', x4('SRC/?memory.c', "    	return (?memory_usage(nzlmax, nzumax, nzlumax, Glu->n) + Glu->n);\n    }\n\n    switch", "    	return 0;\n    }\n\n    switch"), ['C08'],
    note='expansion failure reported as success')
add('M17b', x4('SRC/?gstrf.c', "	    while ( new_next > nzlumax ) {", "	    if ( new_next > nzlumax ) {"), ['C08', 'C19'], note='single expansion attempt for a whole relaxed supernode')
add('M39', x4('SRC/?snode_dfs.c', "		if ( nextl >= nzlmax ) {", "		if ( nextl > nzlmax ) {"), ['C19', 'C08'], note='post-check off by one')
add('M39b', [('SRC/memory.c', "    for (; d_ptr >= dest; --s_ptr, --d_ptr ) *d_ptr = *s_ptr;", "    for (; d_ptr > dest; --s_ptr, --d_ptr ) *d_ptr = *s_ptr;")], ['C07'], note='in-place shift drops byte 0')
add('M39c', x4('SRC/?memory.c', "		if ( type < LSUB ) {\n		    Glu->lsub = expanders[LSUB].mem =", "		if ( type < UCOL ) {\n		    Glu->lsub = expanders[LSUB].mem ="), ['C07'],
    note='growing UCOL does not advance lsub')

# ---------------------------------------------------------------- C10
add('M20', [('SRC/get_perm_c.c', "	for (i = 0; i < n; ++i) --perm_c[i];\n", "")], ['C10'], note='perm_c left 1-based after genmmd_')
add('M20b', [('SRC/get_perm_c.c', "	for (i = 0; i <= n; ++i) ++b_colptr[i];", "	for (i = 0; i < n; ++i) ++b_colptr[i];")], ['C10'], note='last column pointer not shifted to 1-based')
add('M21', [('SRC/sp_preorder.c', "	    for (i = 0; i < n; ++i) iwork[post[i]] = ACstore->colend[i];", "	    for (i = 0; i < n; ++i) iwork[perm_c[i]] = ACstore->colend[i];")], ['C10'],
    note='colend relabelled by perm_c instead of post')
add('M21b', [('SRC/sp_preorder.c', "	if ( options->SymmetricMode == NO ) {", "	if ( options->SymmetricMode == NO || n > 0 ) {")], ['C10'], note='post-order also in symmetric mode')
add('M21c', [('SRC/get_perm_c.c', "	at_plus_a(n, Astore->nnz, Astore->colptr, Astore->rowind,\n		  &bnz, &b_colptr, &b_rowind);\n#if ( PRNTlevel>=1 )\n	printf(\"Use minimum degree ordering on A'+A.\\n\");",
              "	getata(m, n, Astore->nnz, Astore->colptr, Astore->rowind,\n		  &bnz, &b_colptr, &b_rowind);\n#if ( PRNTlevel>=1 )\n	printf(\"Use minimum degree ordering on A'+A.\\n\");")], ['C10'],
    note='MMD_AT_PLUS_A orders A\'A')

# ---------------------------------------------------------------- C15 / C17
add('M29', x4('SRC/?gsisx.c', "	    /* Restore A's original row indices. */\n	    for (i = 0; i < nnz; ++i) rowind[i] = iperm[rowind[i]];\n", "	    /* Restore A's original row indices. */\n	    if ( *info == 0 ) for (i = 0; i < nnz; ++i) rowind[i] = iperm[rowind[i]];\n"), ['C15'],
    note='row indices of A not restored when pivots were replaced (info > 0)')
add('M29b', x4('SRC/?gsisx.c', "		        C[i] = exp(C[i]);\n", ""), ['C15'], note='column duals of MC64 used as logarithms')
add('M29c', x4('SRC/?gsisx.c', "	    for (i = 0; i < n; ++i) perm_tmp[i] = perm_r[perm[i]];", "	    for (i = 0; i < n; ++i) perm_tmp[i] = perm[perm_r[i]];"), ['C15'], note='fold composes in the wrong order')
add('M33', x4('SRC/?gsisx.c', "	    if (info1 != 0) { /* MC64 fails, call ?gsequ() later */", "	    if (info1 < 0) { /* MC64 fails, call ?gsequ() later */"), ['C15', 'C17'], note='structural singularity from MC64 ignored')
add('M29d', [('SRC/mark_relax.c', "	for (j = jcol; j <= kcol; j++)", "	for (j = jcol; j < kcol; j++)")], ['C15'], note='last column of each relaxed supernode not marked')
add('M32', x4('SRC/?ldperm.c', "    for (i = 0; i < nnz; ++i) --adjncy[i];\n", ""), ['C17'], note='adjncy left 1-based')
add('M32b', x4('SRC/?ldperm.c', "    if ( info[0] == 1 ) { /* Structurally singular */\n        printf(\".. The last %d permutations:\\n\", (int)(n-num));\n	slu_PrintInt10(\"perm\", n-num, &perm[num]);\n    }",
               "    if ( info[0] == 1 ) { /* Structurally singular */\n        printf(\".. The last %d permutations:\\n\", (int)(n-num));\n	slu_PrintInt10(\"perm\", n-num, &perm[num]);\n	SUPERLU_FREE(iw);\n	SUPERLU_FREE(dw);\n	return info[0];\n    }"), ['C17'],
    note='early return on structural singularity leaves the caller arrays 1-based')
add('M32c', x4('SRC/?ldperm.c', "    return info[0];\n}", "    return 0;\n}"), ['C17'], note='singularity not reported')

# ---------------------------------------------------------------- C20
add('M40', x4('FORTRAN/c_fortran_?gssv.c', "	for (i = 0; i < *nnz; ++i) rowind0[i] = rowind[i] - 1;", "	for (i = 0; i < *nnz; ++i) rowind0[i] = --rowind[i];"), ['C20'], note='caller rowind shifted in place')
add('M41', x4('FORTRAN/c_fortran_?gssv.c', "        SUPERLU_FREE (LUfactors->U);\n", ""), ['C20'], note='U header leaked on free request')
add('M41b', x4('FORTRAN/c_fortran_?gssv.c', "Create_Dense_Matrix(&B, *n, *nrhs, b, *ldb,", "Create_Dense_Matrix(&B, *n, *nrhs, b, *n,"), ['C20'], note='leading dimension of b ignored')
add('M41c', x4('FORTRAN/c_fortran_?gssv.c', "	LUfactors->perm_c = perm_c;\n	LUfactors->perm_r = perm_r;", "	LUfactors->perm_c = perm_r;\n	LUfactors->perm_r = perm_c;"), ['C20'], note='permutations swapped in the handle')
add('M37', [('SRC/util.c', "    SUPERLU_FREE ( ((SCformat *)A->Store)->col_to_sup );\n", "")], ['C20', 'C19'], note='Destroy_SuperNode_Matrix forgets col_to_sup')

# ---------------------------------------------------------------- C16
add('M30', x4('SRC/?readhb.c', "	    where[i++] = item - 1;", "	    where[i++] = item;"), ['C16'], note='HB indices stored 1-based')
add('M31', x4('SRC/?readMM.c', "	    --row[nz];\n	    --col[nz];", "	    --row[nz];"), ['C16'], note='column indices of a 1-based Matrix Market file not converted')
add('M31b', x4('SRC/?readhb.c', "    fscanf(fp, \"%20c\", buf);\n    ?ParseFloatFormat", "    fscanf(fp, \"%120c\", buf);\n    ?ParseFloatFormat"), ['C16'], note='field wider than the line buffer')
add('M31c', [('SRC/dreadMM.c', "	fscanf(fp, \"%d%d%lf\\n\", &row[nz], &col[nz], &val[nz]);", "	fscanf(fp, \"%d%d%f\\n\", &row[nz], &col[nz], &val[nz]);"),
             ('SRC/sreadMM.c', "	fscanf(fp, \"%d%d%f\\n\", &row[nz], &col[nz], &val[nz]);", "	fscanf(fp, \"%d%d%lf\\n\", &row[nz], &col[nz], &val[nz]);")], ['C16'],
    note='%f / %lf swapped between the real precisions (the sibling rule normalises the length modifier)')
add('M31d', x4('SRC/?readMM.c', "    if ( !(col = int32Malloc(new_nonz)) )", "    if ( !(col = int32Malloc(*nonz)) )"), ['C16'], note='col[] too small for the symmetric expansion')

# ---------------------------------------------------------------- benign edits: every check must stay silent
ALL = ['C%02d' % i for i in range(1, 21)]
add('B2', [('SRC/dgstrf.c', "    int       *iperm_r = NULL; /* inverse of perm_r; used when \n                                  options->Fact == SamePattern_SameRowPerm */\n    int       *iperm_c; /* inverse of perm_c */",
            "    int       *iperm_c; /* inverse of perm_c */\n    int       *iperm_r = NULL; /* inverse of perm_r; used when \n                                  options->Fact == SamePattern_SameRowPerm */")], [], ALL,
    note='reorder two local declarations in dgstrf')
add('B3', x4('SRC/?gssv.c', "    t = SuperLU_timer_();\n    sp_preorder(options, AA, perm_c, etree, &AC);", "    t = SuperLU_timer_();\n    if (options->PrintStat == YES) { printf(\"preorder...\\n\"); fflush(stdout); }\n    sp_preorder(options, AA, perm_c, etree, &AC);"),
    [], ALL, note='add a trace print to all four ?gssv')
add('B5', [('SRC/dgstrs.c', "	    for (k = 0; k < n; k++) soln[perm_r[k]] = rhs_work[k];", "	    for (k = 0; k < n; ++k) soln[perm_r[k]] = rhs_work[k];")], [], ALL, note='k++ -> ++k in one loop of dgstrs')
add('B6', x4('SRC/?gssvx.c', "	if ( info1 == 0 ) {\n	    /* Equilibrate matrix A. */\n	    ?laqgs(AA, R, C, rowcnd, colcnd, amax, equed);", "	if ( info1 == 0 ) {{\n	    /* Equilibrate matrix A. */\n	    ?laqgs(AA, R, C, rowcnd, colcnd, amax, equed);"),
    [], [], note='(not used: unbalanced)')
add('B7', [('SRC/util.c', "void\nDestroy_SuperMatrix_Store(SuperMatrix *A)\n{", "int slu_unused_helper(int a) { return a + 1; }\n\nvoid\nDestroy_SuperMatrix_Store(SuperMatrix *A)\n{")], [], ALL,
    note='a new helper that nothing calls')
add('B9', [('SRC/dgssvx.c', "    /* Test the input parameters */\n    if ( (options->Fact != DOFACT && options->Fact != SamePattern &&", "    /* Check   the    input arguments. */\n\n    if (   (options->Fact != DOFACT   &&  options->Fact != SamePattern &&"),
           ('SRC/sp_preorder.c', "    n = A->ncol;\n", "    n = A->ncol;   /* number of columns */\n\n\n")], [], ALL, note='comments and whitespace')
add('B10', x4('SRC/?gstrs.c', "    n = L->nrow;\n    work = ", "    n = L->nrow;\n    if ( !Bstore ) ABORT(\"B has no storage.\");\n    work = "), [], ALL, note='defensive ABORT after the screening, all four variants')
add('B11', [('SRC/dgssvx.c', "rowequ", "row_scaled", 'all'), ('SRC/dgssvx.c', "colequ", "col_scaled", 'all')], [], ALL, note='rename two locals in dgssvx only')
add('B12', x4('SRC/?gsrfs.c', "	    if (berr[j] > eps && berr[j] * 2. <= lstres && count < ITMAX) {", "	    if (count < ITMAX && berr[j] > eps && berr[j] * 2. <= lstres) {"), [], ALL,
    note='reorder the conjuncts of the stopping test (all four)')
add('B13', [('SRC/dgstrs.c', "    Lstore = L->Store;\n    Lval = Lstore->nzval;\n    Ustore = U->Store;\n    Uval = Ustore->nzval;", "    Ustore = U->Store;\n    Lstore = L->Store;\n    Uval = Ustore->nzval;\n    Lval = Lstore->nzval;")], [], ALL,
    note='reorder independent local assignments in dgstrs only')
add('B4b', [('SRC/dgsrfs.c', "    notran = (trans == NOTRANS);\n    if ( !notran", "    notran = (trans == NOTRANS);\n    int nrowA = A->nrow;\n    if ( !notran"),
            ('SRC/dgsrfs.c', "    else if ( A->nrow != A->ncol || A->nrow < 0 ||", "    else if ( nrowA != A->ncol || nrowA < 0 ||")], [], ALL, note='hoist A->nrow into a fresh local in dgsrfs only')

# ---------------------------------------------------------------- benign edits aimed at the rules of DESIGN 12.9 / 12.10
add('B14', [('SRC/dgssvx.c', "		if ( X->ncol < 0 ||\n		     (B->ncol != 0 && B->ncol != X->ncol) ) *info = -14;",
             "		if ( (B->ncol != 0 && X->ncol != B->ncol) || X->ncol < 0 ) *info = -14;"),
            ('SRC/sgssvx.c', "		if ( X->ncol < 0 ||\n		     (B->ncol != 0 && B->ncol != X->ncol) ) *info = -14;",
             "		if ( (B->ncol != 0 && X->ncol != B->ncol) || X->ncol < 0 ) *info = -14;")], [], ['C18'],
    note='reorder the disjuncts / operands of the X test of d,s gssvx')
add('B15', x4('SRC/?memory.c', "	    if ( nzlumax < annz || nzlumax == 0 ) { /* cannot shrink any further */", "	    if ( nzlumax == 0 || nzlumax < annz ) {"), [], ['C08', 'C07', 'C19'],
    note='reorder the give-up test of the ?LUMemInit retry loop')
add('B16', [('SRC/relax_snode.c', "	while ( j < n && descendants[j] != 0 ) j++;", "	while ( j < n && descendants[j] ) j++;")], [], ['C19', 'C02', 'C06'],
    note='drop the explicit != 0 in the leaf search (twin differs textually only)')
add('B17', [('SRC/mc64ad.c', "	    posk = pos << 1;\n	    if (posk > *qlen) {\n		goto L20;\n	    }\n	    dk = d__[q[posk]];\n	    if (posk < *qlen) {\n		dr = d__[q[posk + 1]];\n		if (dk < dr) {",
             "	    posk = pos * 2;\n	    if (*qlen < posk) {\n		goto L20;\n	    }\n	    dk = d__[q[posk]];\n	    if (*qlen > posk) {\n		dr = d__[q[posk + 1]];\n		if (dr > dk) {"),
            ('SRC/mc64ad.c', "	    posk = pos << 1;\n	    if (posk > *qlen) {\n		goto L20;\n	    }\n	    dk = d__[q[posk]];\n	    if (posk < *qlen) {\n		dr = d__[q[posk + 1]];\n		if (dk > dr) {",
             "	    posk = pos * 2;\n	    if (*qlen < posk) {\n		goto L20;\n	    }\n	    dk = d__[q[posk]];\n	    if (*qlen > posk) {\n		dr = d__[q[posk + 1]];\n		if (dr < dk) {")], [], ['C17'],
    note='mc64ed_: same sift-down tests with swapped operands, 2*pos for pos << 1, in both branches')
add('B18', [('SRC/qselect.c', "	    if (A[i] < val) { A[p] = A[i]; p = i; }\n	    for (; A[j] <= val && j > p; j--);\n	    if (A[j] > val) { A[p] = A[j]; p = j; }\n	}\n	A[p] = val;\n	if (p == k) return val;\n	else if (p > k) n = p;\n	else\n	{\n	    p++;\n	    n -= p; A += p; k -= p;\n	}\n    }\n\n    return A[0];\n}\n\nfloat",
             "	    if (!(A[i] >= val)) { A[p] = A[i]; p = i; }\n	    for (; A[j] <= val && j > p; j--);\n	    if (val < A[j]) { A[p] = A[j]; p = j; }\n	}\n	A[p] = val;\n	if (p == k) return val;\n	else if (p > k) n = p;\n	else\n	{\n	    p++;\n	    n -= p; A += p; k -= p;\n	}\n    }\n\n    return A[0];\n}\n\nfloat")], [], ['C15'],
    note='dqselect: the move tests written as a negation / with swapped operands')
add('B19', x4('SRC/ilu_?copy_to_ucol.c', "		ucol[i] = ucol[m0];\n		usub[i] = usub[m0];\n		m0--;\n		m--;", "		usub[i] = usub[m0];\n		ucol[i] = ucol[m0];\n		m--;\n		m0--;"), [], ['C03', 'C15'],
    note='swap the two independent copies and the two independent decrements of the secondary dropping')
add('B20', [('SRC/dgsrfs.c', "(safe1 + fabs(work[i])) / (rwork[i] + safe1)", "(fabs(work[i]) + safe1) / (safe1 + rwork[i])")], [], ['C13'], note='commute the addends of the guarded BERR ratio (d only)')
add('B21', x4('SRC/?readMM.c', 'sscanf(line,"%63s",banner);', 'sscanf(line,"%60s",banner);'), [], ['C16'], note='a narrower field width')
add('B22', x4('SRC/?memory.c', "		return (SUPERLU_MAX(1, ?memory_usage(nzlmax, nzumax, nzlumax, n)) + n); /* > n also when n = 0 */\n	    }\n	}",
              "		return (?memory_usage(nzlmax, nzumax, nzlumax, n) + n + 1);\n	    }\n	}"), [], ['C08'], note='another way to make the failure status exceed n')
add('B23', [('SRC/mc64ad.c', "	    dw[(*n << 1) + j] = fact;\n	    if (fact != 0.) {\n		fact = log(fact);", "	    dw[(*n << 1) + j] = fact;\n	    if (fact > 0.) {\n		fact = log(fact);")], [], ['C17'],
    note='job 5: positivity test instead of != 0 on the (linear) column maximum')
add('B24', x4('SRC/?gstrf.c', "    descendants = (int *) int32Malloc(n + 1);", "    descendants = (int *) int32Calloc(n + 2);"), [], ['C19', 'C02'], note='scratch array allocated zeroed and one longer')

# ---------------------------------------------------------------- benign edits aimed at the rules of DESIGN 12.11 (round 4)
add('B25', x4('SRC/?gstrs.c', "work_col = &work[(size_t)j * (size_t)n];", "work_col = work + (size_t)j * (size_t)n;"), [], ['C05', 'C01'], note='column address of work[] by pointer arithmetic')
add('B26', x4('SRC/?gsequ.c', "*rowcnd = SUPERLU_MAX( rcmin, smlnum ) / SUPERLU_MIN( rcmax, bignum );", "*rowcnd = SUPERLU_MAX( smlnum, rcmin ) / SUPERLU_MIN( bignum, rcmax );"), [], ['C11'],
    note='operands of the clamps swapped')
add('B27', x4('SRC/?gstrf.c', "new_next = nextlu + (xlsub[fsupc+1]-xlsub[fsupc])*(kcol-jcol+1);", "new_next = nextlu + (kcol + 1 - jcol) * (xlsub[fsupc+1]-xlsub[fsupc]);"), [], ['C07', 'C19'],
    note='demand of a relaxed supernode written with commuted factors / terms')
add('B28', x4('SRC/ilu_?column_dfs.c', "	if ( nextl == jptr ) jsuper = SLU_EMPTY;", "	if ( jptr >= nextl ) jsuper = SLU_EMPTY;"), [], ['C15', 'C03'], note='emptiness test written the other way round')
add('B29', x4('SRC/?gssvx.c', "	if (colequ && *info == 0) {", "	if (*info == 0 && colequ) {"), [], ['C18'], note='conjuncts of the guard of the C[] check swapped')
add('B30', [('SRC/sp_coletree.c', "	for (row = 0; row < nr; firstcol[row++] = nc);", "	for (row = 0; row < nr; row++) { firstcol[row] = nc; }")], [], ['C10'], note='priming loop with an explicit body')
add('B31', [('SRC/colamd.c', "	    Col [c].shared2.order = --n_col2 ;\n	    KILL_PRINCIPAL_COL (c) ;\n	}\n    }\n    DEBUG1 ((\"colamd: null columns killed",
             "	    --n_col2 ;\n	    Col [c].shared2.order = n_col2 ;\n	    KILL_PRINCIPAL_COL (c) ;\n	}\n    }\n    DEBUG1 ((\"colamd: null columns killed")], [], ['C10'],
    note='pre-decrement as a statement of its own')
add('B32', [('SRC/dzsum1.c', "	stemp += z_abs(&CX(i));\n/* L10: */", "	stemp = stemp + z_abs(&CX(i));\n/* L10: */")], [], ['C12'], note='accumulation written as s = s + term')
add('B33', [('SRC/mc64ad.c', "		    if (di <= dnew) {\n			goto L155;\n		    }\n		    if (l[i__] >= low) {\n			goto L155;\n		    }",
             "		    if (l[i__] >= low) {\n			goto L155;\n		    }\n		    if (di <= dnew) {\n			goto L155;\n		    }")], [], ['C17'], note='mc64wd_: the two exclusion tests in the other order')
add('B34', [('SRC/mc64ad.c', "	    fact = 0.;\n	    i__2 = ip[j + 1] - 1;\n	    for (k = ip[j]; k <= i__2; ++k) {\n		dw[*n * 3 + k] = (d__1 = a[k], abs(d__1));",
             "	    fact = 0.;\n	    d__2 = rinf / *n;\n	    i__2 = ip[j + 1] - 1;\n	    for (k = ip[j]; k <= i__2; ++k) {\n		dw[*n * 3 + k] = (d__1 = a[k], abs(d__1));"),
            ('SRC/mc64ad.c', "		    dw[*n * 3 + k] = rinf / *n;", "		    dw[*n * 3 + k] = d__2;")], [], ['C17'], note='job 5: the infinite cost hoisted into a local')
add('B35', [('SRC/dgsrfs.c', "			irow = Astore->rowind[i];\n			s += fabs(Aval[i]) * fabs(Xptr[irow]);", "			s += fabs(Aval[i]) * fabs(Xptr[Astore->rowind[i]]);"),
            ('SRC/sgsrfs.c', "			irow = Astore->rowind[i];\n			s += fabs(Aval[i]) * fabs(Xptr[irow]);", "			s += fabs(Aval[i]) * fabs(Xptr[Astore->rowind[i]]);"),
            ('SRC/cgsrfs.c', "			irow = Astore->rowind[i];\n			s += c_abs1(&Aval[i]) * c_abs1(&Xptr[irow]);", "			s += c_abs1(&Aval[i]) * c_abs1(&Xptr[Astore->rowind[i]]);"),
            ('SRC/zgsrfs.c', "			irow = Astore->rowind[i];\n			s += z_abs1(&Aval[i]) * z_abs1(&Xptr[irow]);", "			s += z_abs1(&Aval[i]) * z_abs1(&Xptr[Astore->rowind[i]]);")], [], ['C13'],
    note='row index used inline in the transposed |A||x| sum (all four variants; a one-sided version of this edit is reported by the d~z skeleton rule, by design)')

# ---------------------------------------------------------------- benign edits aimed at the rules of DESIGN 12.12 (round 5)
add('B36', x4('SRC/?column_dfs.c', "				if ( chmark != jcolm1 ) jsuper = SLU_EMPTY;", "				if ( jcolm1 != chmark ) jsuper = SLU_EMPTY;"), [], ['C01', 'C02', 'C03', 'C04'],
    note='operands of the membership test of the DFS copy swapped (the direct copy keeps its order)')
add('B37', x4('SRC/?pivotL.c', "	*pivrow = lsub_ptr[pivptr];\n    }\n    \n    /* Record pivot row */", "	*pivrow = lsub_ptr[pivptr];\n    }\n    itemp = pivptr; pivptr = itemp; *pivrow = lsub_ptr[pivptr];\n\n    /* Record pivot row */"),
    [], ['C02', 'C03', 'C04'], note='a redundant re-synchronisation of *pivrow and pivptr before the record')
add('B38', x4('SRC/?gsrfs.c', "	Bptr = &Bmat[j*ldb];", "	Bptr = Bmat + j*ldb;"), [], ['C13', 'C05'], note='column of B by pointer arithmetic')
add('B39', x4('SRC/?gscon.c', "    /* Quick return if possible */\n    *rcond = 0.;", "    /* Quick return if possible (after the screening) */\n    *rcond = 0.0;"), [], ['C18', 'C12'], note='comment / literal spelling near the quick return')
add('B40', x4('SRC/ilu_?pivotL.c', "	    if ( rtemp != 0.0 && rtemp >= thresh ) pivptr = old_pivptr;", "	    if ( rtemp >= thresh && rtemp != 0.0 ) pivptr = old_pivptr;"), [], ['C15'],
    note='conjuncts of the remembered-pivot guard swapped')
add('B41', x4('SRC/?gsequ.c', "    for (i = 0; i < A->nrow; ++i) r[i] = 0.;", "    for (i = A->nrow - 1; i >= 0; --i) r[i] = 0.;"), [], ['C19', 'C11'], note='r[] cleared back to front')
add('B42', x4('SRC/?gsequ.c', "    rcmin = bignum;\n    rcmax = 0.;\n    for (j = 0; j < A->ncol; ++j) {", "    rcmax = 0.;\n    rcmin = bignum;\n    for (j = 0; j < A->ncol; ++j) {"), [], ['C11'],
    note='the two re-initialisations before the column pass swapped')
add('B43', [('SRC/zreadhb.c', "    register double realpart;", "    double realpart;")], [], ['C16'], note='storage class dropped')
add('B44', x4('SRC/?sp_blas2.c', "			irow = L_SUB(iptr);\n			++luptr;", "			++luptr;\n			irow = L_SUB(iptr);"), [], ['C12', 'C14'],
    note='sp_?trsv single-column loop: the two independent cursor statements swapped')
add('B45', x4('SRC/?gsitrf.c', "		    xlusup[jj + 1]++;\n", "		    xlusup[jj + 1] += 1;\n"), [], ['C09', 'C15'], note='reservation written as += 1')
add('B46', x4('SRC/ilu_?drop_row.c', "    for (i = first + 1; i <= last + 1; i++)", "    for (i = first + 1; i < last + 2; i++)"), [], ['C03'], note='pointer fix-up loop with an exclusive bound')
add('B47', x4('SRC/?lacon2.c', "*n - 1) + 1.);", "*n - 1) + 1.0);"), [], ['C12', 'C13'], note='literal spelling in the alternating vector')

# ---------------------------------------------------------------- benign edits aimed at the rules of DESIGN 12.13 (round 6)
add('B48d', [('SRC/dmemory.c', "	lusup = (double *) dexpand( &nzlumax, LUSUP, 0, 0, Glu );\n	ucol  = (double *) dexpand( &nzumax, UCOL, 0, 0, Glu );\n	lsub  = (int_t *) dexpand( &nzlmax, LSUB, 0, 0, Glu );\n	usub  = (int_t *) dexpand( &nzumax, USUB, 0, 1, Glu );\n\n	while",
              "	lusup = (double *) dexpand( &nzlumax, LUSUP, 0, 0, Glu );\n	ucol  = (double *) dexpand( &nzumax, UCOL, 0, 0, Glu );\n	/* index arrays */\n	lsub  = (int_t *) dexpand( &nzlmax, LSUB, 0, 0, Glu );\n	usub  = (int_t *) dexpand( &nzumax, USUB, 0, 1, Glu );\n\n	while")], [], ['C07', 'C08'],
    note='comment between the value arrays and the index arrays of the first allocation group (d only: s differs textually only)')
add('B49', [('SRC/util.c', "	for (k = fsupc+1; k < xsup[i+1]; k++) \n	    	xlsub[k] = nextl;	/* Other columns in supernode i */", "	for (k = xsup[i+1] - 1; k > fsupc; k--) \n	    	xlsub[k] = nextl;	/* Other columns in supernode i */")], [], ['C03', 'C05'],
    note='fixupL: the other columns visited from the last to the first')
add('B50', x4('SRC/?gsequ.c', "    rcmin = bignum;\n    rcmax = 0.;\n    for (i = 0; i < A->nrow; ++i) {", "    rcmax = 0.0;\n    rcmin = bignum;\n    for (i = 0; i < A->nrow; ++i) {"), [], ['C11'], note='initialisations of the row pass swapped, 0. spelt 0.0')
add('B51', x4('SRC/ilu_?pivotL.c', "	    case SMILU_3:\n                /* In this case, drop_sum contains the sum of the abs. value */", "	    case SMILU_3:\n                /* drop_sum holds the sum of the absolute values here */"), [], ['C15'], note='comment in the scan switch')
add('B52', x4('SRC/?ldperm.c', "    if ( job == 5 )\n        for (i = 0; i < n; ++i) {", "    if ( 5 == job )\n        for (i = 0; i < n; ++i) {"), [], ['C17'], note='operands of the job test swapped')
add('B53', [('SRC/get_perm_c.c', "    COLAMD_set_defaults(knobs);", "    COLAMD_set_defaults(knobs);\n    knobs[0] = knobs[0];")], [], ['C09', 'C10'], note='a no-op on the knobs after the defaults')
add('B54', x4('SRC/?gstrs.c', "		    rhs_work += ldb;", "		    rhs_work = rhs_work + ldb;"), [], ['C20', 'C01', 'C05'], note='column step of the walking pointer written as an assignment')
add('B55', x4('SRC/?readrb.c', "    for (i=0; i<4; i++) {", "    for (i = 0; i < 4; ++i) {"), [], ['C16'], note='header loop of record 2 restyled')
add('B56', [('SRC/ilu_zcopy_to_ucol.c', "for (i = 0; i < m; ++i, ++i_1) work[i]", "for (i = 0; i < m; i++, i_1++) work[i]"), ('SRC/ilu_ccopy_to_ucol.c', "for (i = 0; i < m; ++i, ++i_1) work[i]", "for (i = 0; i < m; i++, i_1++) work[i]")], [], ['C09', 'C15'], note='post-increments in the fill loop of the quick-select scratch')
add('B57', [('SRC/scomplex.c', "    return (real + imag);", "    return (imag + real);"), ('SRC/dcomplex.c', "    return (real + imag);", "    return (imag + real);")], [], ['C04', 'C11', 'C15'], note='operands of the 1-norm magnitude swapped')
add('B58', [('SRC/mmd.c', "\tqsize[node] = 0;\n\tmarker[node] = *maxint;", "\tmarker[node] = *maxint;\n\tqsize[node] = 0;")], [], ['C10', 'C09'], note='weight of the merged node zeroed one statement later')
add('B59', [('SRC/sp_preorder.c', "    AC->nrow        = A->nrow;\n    AC->ncol        = A->ncol;", "    AC->ncol        = n;\n    AC->nrow        = A->nrow;")], [], ['C10', 'C01'], note='view header filled in another order, ncol through the local n')
add('B60', x4('SRC/?gsequ.c', "\tfor (j = 0; j < A->ncol; ++j)\n\t    if ( c[j] == 0. ) {", "\tfor (j = 0; j < A->ncol; j++)\n\t    if ( c[j] == 0. ) {"), [], ['C11'], note='post-increment in the search for the first zero column factor')
