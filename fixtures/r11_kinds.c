/* Positive control for R11 (index kinds): expected count on a healthy tree is zero, so the engine must report all four conflict classes here on
 * every run.  Parsed with -I<repo>/SRC, never compiled into anything. */
#include "slu_ddefs.h"
int fx_pivot(const int jcol, int *perm_r, int *iperm_c, int *pivrow) { *pivrow = iperm_c[jcol]; return perm_r[*pivrow]; }

/* getata is in the table of rectangular-capable routines, so row-count / column-count inference is active under this name */
void getata(const int m, const int n, int *perm_r, int *perm_c, int *iperm_c, int *swap, int *iswap, int_t *xlsub, int_t *lsub)
{
    int i, t, pivrow, jcol = 0;
    int_t k;
    int *marker = (int *) SUPERLU_MALLOC((n + 1) * sizeof(int));
    for (i = 0; i < n; ++i) perm_r[i] = SLU_EMPTY;       /* K1: perm_r[] is indexed by rows, i runs below the column count */
    for (i = 0; i < m; ++i) marker[i] = 0;               /* K4: marker[] has n+1 entries, i runs below the row count */
    k = xlsub[jcol];
    pivrow = lsub[k];                                    /* a row index */
    t = swap[pivrow];                                    /* K1: swap[] maps positions to rows */
    iswap[t] = pivrow;                                   /* K2: iswap[] holds positions, a row is stored  (t is a row here: second K1) */
    fx_pivot(jcol, perm_r, perm_c, &pivrow);             /* K3: perm_c passed for parameter iperm_c */
    SUPERLU_FREE(marker);
}
