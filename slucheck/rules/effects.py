"""R10 (light): which pointer parameters a function may write through.

Flow-insensitive, root-based: a local that is ever assigned (or initialised
with) an expression rooted at parameter p - directly, through ->, [], casts or
pointer arithmetic - is an alias of p ("derived from p"); a store whose l-value
is rooted at such a name and goes through at least one dereference writes
memory reachable from p.  Callee effects are substituted through argument
binding, bottom-up over the (acyclic) call graph.  External functions use the
table EXTERNAL_WRITES (argument positions written, 0-based).  Sound as an
over-approximation under the documented contract that distinct pointer
parameters do not alias.
"""
from ..facts import strip, root_ref, callee_name

# external functions: positions of pointer arguments they may write through
EXTERNAL_WRITES = {
    # BLAS level 1/2/3 (Fortran interface, trailing underscore), s/d/c/z
    'swap_': (1, 3), 'scal_': (2,), 'copy_': (3,), 'axpy_': (4,),
    'trsv_': (6,), 'gemv_': (9,), 'ger_': (7,), 'trsm_': (9,), 'gemm_': (11,),
    'symv_': (8,), 'hemv_': (8,), 'syr2_': (7,), 'her2_': (7,), 'gerc_': (7,), 'geru_': (7,),
    'rot_': (1, 3),
    'memcpy': (0,), 'memset': (0,), 'memmove': (0,), 'strcpy': (0,), 'strncpy': (0,), 'strcat': (0,),
    'sprintf': (0,), 'snprintf': (0,), 'fgets': (0,), 'fread': (0,),
    'gettimeofday': (0, 1), 'free': (), 'malloc': (), 'calloc': (), 'realloc': (),
    'printf': (), 'fprintf': (), 'fputs': (), 'fflush': (), 'fopen': (), 'fclose': (), 'fgetc': (), 'puts': (), 'putchar': (),
    'strcmp': (), 'strncmp': (), 'strlen': (), 'tolower': (), 'toupper': (), 'atoi': (), 'atof': (), 'exit': (), 'abort': (),
    'fabs': (), 'fabsf': (), 'sqrt': (), 'sqrtf': (), 'pow': (), 'powf': (), 'exp': (), 'log': (), 'log10': (), 'ceil': (), 'floor': (),
    'sin': (), 'cos': (), '__builtin_flt_rounds': (), '__assert_fail': (), 'abs': (), 'labs': (),
    'dnrm2_': (), 'snrm2_': (), 'scnrm2_': (), 'dznrm2_': (), 'dasum_': (), 'sasum_': (), 'scasum_': (), 'dzasum_': (),
    'idamax_': (), 'isamax_': (), 'icamax_': (), 'izamax_': (), 'ddot_': (), 'sdot_': (),
    'lsame_': (), 'xerbla_': (),
}
# scanf family writes through every argument after the format
SCANF = {'fscanf': 2, 'sscanf': 2, 'scanf': 1}


def external_writes(name, nargs):
    if name in SCANF:
        return tuple(range(SCANF[name], nargs))
    if name in EXTERNAL_WRITES:
        return EXTERNAL_WRITES[name]
    if len(name) > 1 and name[0] in 'sdcz' and name[1:] in EXTERNAL_WRITES:
        return EXTERNAL_WRITES[name[1:]]
    return None


def is_pointer_type(t):
    return bool(t) and ('*' in t or '[' in t)


class Effects(object):
    def __init__(self, prog):
        self.prog = prog
        self.summary = {}   # (unit, name) -> set of param indices written through
        self.unknown_ext = set()
        for f in prog.topo_bottom_up():
            self.summary[(f.unit, f.name)] = self.analyse(f)

    def derived(self, f):
        """map var id -> set of param indices it may be derived from"""
        pidx = {pid: i for i, (_, pid, _) in enumerate(f.params)}
        der = {pid: {i} for pid, i in pidx.items()}
        changed = True
        assigns = []
        for n in f.body.walk():
            if n.k == 'Var' and n.c:
                assigns.append((n.a['id'], n.c[0], n.t))
            elif n.k == 'Assign' and n.a['op'] == '=':
                l = strip(n.c[0])
                if l.k == 'Ref':
                    assigns.append((l.a['id'], n.c[1], l.t))
        while changed:
            changed = False
            for (vid, rhs, t) in assigns:
                if not is_pointer_type(t):
                    continue
                r = root_ref(rhs)
                if r is None:
                    continue
                src = der.get(r.a.get('id'))
                if src:
                    cur = der.setdefault(vid, set())
                    if not src <= cur:
                        cur |= src
                        changed = True
        return der

    def analyse(self, f):
        der = self.derived(f)
        written = set()

        def roots_of(e):
            r = root_ref(e)
            if r is None:
                return set()
            return der.get(r.a.get('id'), set())

        def through_deref(lv):
            """does l-value lv go through a dereference of its root (not just assign the local itself)?"""
            lv = strip(lv)
            return lv.k != 'Ref'

        for n in f.body.walk():
            if n.k == 'Assign':
                if through_deref(n.c[0]):
                    written |= roots_of(n.c[0])
            elif n.k == 'Unary' and n.a['op'] in ('++', '--'):
                if through_deref(n.c[0]):
                    written |= roots_of(n.c[0])
            elif n.k == 'Call':
                name = callee_name(n)
                args = n.c[1:]
                tgt = self.prog.resolve(name, f.unit) if name else None
                if tgt is not None:
                    cw = self.summary.get((tgt.unit, tgt.name), set())
                    for i in cw:
                        if i < len(args):
                            written |= roots_of(args[i])
                elif name is not None:
                    ew = external_writes(name, len(args))
                    if ew is None:
                        self.unknown_ext.add(name)
                        ew = range(len(args))
                    for i in ew:
                        if i < len(args):
                            written |= roots_of(args[i])
                else:
                    for a in args:   # indirect call: assume it writes through everything
                        written |= roots_of(a)
        return written


# ---------------------------------------------------------------- R10: field-sensitive access paths
class PathEffects(object):
    """For every function: which access paths, rooted at its pointer parameters, it may write / read.

    A path is a suffix string over the parameter:  '[]' (element or *p), '->f' (field through the pointer), e.g.
    '->Store->nzval[]'.  Flow-insensitive points-to of locals into parameter memory; callee summaries substituted
    through argument binding (bottom-up over the acyclic direct call graph); external functions from EXTERNAL_WRITES.
    '?' means "somewhere below this prefix" (used when an unknown callee or an unresolved cast is involved)."""

    def __init__(self, prog):
        self.prog = prog
        self.writes = {}
        self.reads = {}
        for f in prog.topo_bottom_up():
            w, r = self.analyse(f)
            self.writes[(f.unit, f.name)] = w
            self.reads[(f.unit, f.name)] = r

    def analyse(self, f):
        pidx = {pid: i for i, (_, pid, t) in enumerate(f.params)}
        pts = {}       # local var id -> set of (param, suffix)
        assigns = []
        for n in f.body.walk():
            if n.k == 'Var' and n.c:
                assigns.append((n.a['id'], n.c[0]))
            elif n.k == 'Assign' and n.a['op'] == '=':
                l = strip(n.c[0])
                if l.k == 'Ref' and l.a.get('dk') == 'VarDecl':
                    assigns.append((l.a['id'], n.c[1]))
                elif l.k == 'Ref' and l.a.get('id') in pidx:
                    assigns.append((l.a['id'], n.c[1]))

        def pval(e, depth=0):
            """set of (param, suffix) the pointer VALUE of e may equal"""
            e = strip(e)
            k = e.k
            if k == 'Ref':
                vid = e.a.get('id')
                out = set(pts.get(vid, ()))
                if vid in pidx:
                    out.add((pidx[vid], ''))
                return out
            if k == 'Member':
                if e.a['arrow']:
                    return {(p, s + '->' + e.a['name']) for (p, s) in pval(e.c[0])}
                return {(p, s + '.' + e.a['name']) for (p, s) in lloc(e.c[0])}
            if k == 'Index':
                return {(p, s + '[]') for (p, s) in pval(e.c[0])}
            if k == 'Unary':
                op = e.a['op']
                if op == '&':
                    inner = strip(e.c[0])
                    return {(p, s + '@') for (p, s) in lloc(inner)}
                if op == '*':
                    return {(p, s + '[]') for (p, s) in pval(e.c[0])}
                if op in ('++', '--'):
                    return pval(e.c[0])
                return set()
            if k == 'Binary' and e.a['op'] in ('+', '-'):
                return pval(e.c[0]) | pval(e.c[1])
            if k == 'Assign':
                return pval(e.c[1])
            if k == 'Cond':
                return pval(e.c[1]) | pval(e.c[2])
            return set()

        def lloc(e):
            """set of (param, suffix) LOCATIONS denoted by l-value e"""
            e = strip(e)
            k = e.k
            if k == 'Index':
                return {(p, deat(s) + '[]') for (p, s) in pval(e.c[0])}
            if k == 'Unary' and e.a['op'] == '*':
                return {(p, deat(s) + '[]') if not s.endswith('@') else (p, s[:-1]) for (p, s) in pval(e.c[0])}
            if k == 'Member':
                if e.a['arrow']:
                    return {(p, deat(s) + '->' + e.a['name']) if not s.endswith('@') else (p, s[:-1] + '.' + e.a['name']) for (p, s) in pval(e.c[0])}
                return {(p, s + '.' + e.a['name']) for (p, s) in lloc(e.c[0])}
            return set()

        def deat(s):
            return s[:-1] if s.endswith('@') else s

        changed = True
        rounds = 0
        while changed and rounds < 20:
            changed = False
            rounds += 1
            for vid, rhs in assigns:
                v = {(p, s) for (p, s) in pval(rhs) if len(s) < 80}
                cur = pts.setdefault(vid, set())
                if not v <= cur:
                    cur |= v
                    changed = True
        W = {}
        R = {}

        def addw(locs):
            for (p, s) in locs:
                W.setdefault(p, set()).add(s)

        def addr(locs):
            for (p, s) in locs:
                R.setdefault(p, set()).add(s)

        for n in f.body.walk():
            if n.k == 'Assign':
                lv = strip(n.c[0])
                if lv.k != 'Ref':
                    addw(lloc(lv))
            elif n.k == 'Unary' and n.a['op'] in ('++', '--'):
                lv = strip(n.c[0])
                if lv.k != 'Ref':
                    addw(lloc(lv))
            elif n.k == 'Call':
                name = callee_name(n)
                args = n.c[1:]
                tgt = self.prog.resolve(name, f.unit) if name else None
                if tgt is not None:
                    cw = self.writes.get((tgt.unit, tgt.name), {})
                    cr = self.reads.get((tgt.unit, tgt.name), {})
                    for i, a in enumerate(args):
                        pv = pval(a)
                        for t in cw.get(i, ()):
                            addw({(p, join(s, t)) for (p, s) in pv})
                        for t in cr.get(i, ()):
                            addr({(p, join(s, t)) for (p, s) in pv})
                else:
                    ew = external_writes(name, len(args)) if name else None
                    for i, a in enumerate(args):
                        pv = pval(a)
                        if not pv:
                            continue
                        if ew is None or i in ew:
                            addw({(p, join(s, '[]')) for (p, s) in pv})
                        addr({(p, join(s, '[]')) for (p, s) in pv})
            if n.k in ('Index', 'Member') or (n.k == 'Unary' and n.a['op'] == '*'):
                if n.k == 'Member' and not n.a['arrow']:
                    continue
                addr(lloc(n))
        return W, R


def join(s, t):
    """location suffix s of the actual argument (a pointer value) extended by the callee's path t"""
    if s.endswith('@'):
        s = s[:-1]
        if t.startswith('[]'):
            return s + t[2:]
        if t.startswith('->'):
            return s + '.' + t[2:]
    return s + t
