#!/usr/bin/env python3
"""Regenerates MANIFEST.json from the table below (keeps it schema-valid)."""
import json, os, sys
VERIF = os.path.dirname(os.path.dirname(os.path.abspath(__file__)))
sys.path.insert(0, VERIF)
from tools.claims import CLAIMS, NOT_APPLICABLE

props = [json.loads(l) for l in open(os.path.join(VERIF, 'properties.jsonl'))]
ids = [p['id'] for p in props]
checks = []
for pid in ids:
    if pid in CLAIMS:
        c = CLAIMS[pid]
        checks.append({
            'property_id': pid,
            'quick_cmd': './check %s --tier quick' % pid,
            'thorough_cmd': './check %s --tier thorough' % pid,
            'evidence_file': 'evidence/%s.json' % pid,
            'replay_cmd_template': './check %s --replay {path}' % pid,
            'engine': 'slucheck',
            'level_claimed': {'category': c['level'], 'text': c['text'], 'design_ref': c['design_ref']},
            'level_note': c['note'],
            'technique': c['technique'],
        })
na = [{'property_id': pid, 'reason': NOT_APPLICABLE.get(pid, 'check not built yet (see DESIGN.md section 8 build order)')}
      for pid in ids if pid not in CLAIMS]
m = {
    'version': 1,
    'setup_cmd': 'python3 tools/warm.py',
    'hooks': {'guard': 'SUPERLU_VERIF',
              'enable': 'none: checks parse /repo sources with clang -fsyntax-only; no hook is compiled into the library',
              'baseline_off_cmd': 'cmake --build /repo/_build -j16 && ctest --test-dir /repo/_build -j8 --timeout 900',
              'source_commits': [], 'add_only': True},
    'engines': [{'name': 'slucheck', 'path': 'slucheck/', 'serves_properties': sorted(CLAIMS),
                 'kind_free_text': 'custom static analyser: clang 14 JSON AST -> compact IR -> own CFG, dataflow, '
                                   'call-graph and effect summaries; repository-specific rule engines R1-R11 (DESIGN.md section 4)'}],
    'checks': checks,
    'notes': 'Static analysis only. Every claimed check decides named structural clauses that are necessary conditions of the '
             'property (listed in level_claimed.text / level_note and in the evidence file); the numerical clauses are not decided '
             'by this family and are named as such. exit 2 = analysis broken (never a pass).',
    'not_applicable': na,
}
json.dump(m, open(os.path.join(VERIF, 'MANIFEST.json'), 'w'), indent=1)
try:
    import jsonschema
    jsonschema.validate(m, json.load(open('/root/.vp/MANIFEST.schema.json')))
    print('MANIFEST.json valid: %d checks, %d not_applicable' % (len(checks), len(na)))
except ImportError:
    print('written (jsonschema not available to validate)')
