"""R10 (light): which pointer parameters a function may write through.

Flow-insensitive, root-based: a local that is ever assigned (or initialised
with) an expression rooted at parameter p - directly, through ->, [], casts or
pointer arithmetic - is an alias of p ("derived from p"); a store whose l-value
is rooted at such a name and goes through at least one dereference writes
memory reachable from p.  Callee effects are substituted through argument
binding, bottom-up over the (acyclic) call graph.  External functions use the
table EXTERNAL_WRITES (argument positions written, 0-based).  Sound as an
over-approximation under the documented contract that distinct pointer
parameters do not alias.
"""
from ..facts import strip, root_ref, callee_name

# external functions: positions of pointer arguments they may write through
EXTERNAL_WRITES = {
    # BLAS level 1/2/3 (Fortran interface, trailing underscore), s/d/c/z
    'swap_': (1, 3), 'scal_': (2,), 'copy_': (3,), 'axpy_': (4,),
    'trsv_': (6,), 'gemv_': (9,), 'ger_': (7,), 'trsm_': (9,), 'gemm_': (11,),
    'symv_': (8,), 'hemv_': (8,), 'syr2_': (7,), 'her2_': (7,), 'gerc_': (7,), 'geru_': (7,),
    'rot_': (1, 3),
    'memcpy': (0,), 'memset': (0,), 'memmove': (0,), 'strcpy': (0,), 'strncpy': (0,), 'strcat': (0,),
    'sprintf': (0,), 'snprintf': (0,), 'fgets': (0,), 'fread': (0,),
    'gettimeofday': (0, 1), 'free': (), 'malloc': (), 'calloc': (), 'realloc': (),
    'printf': (), 'fprintf': (), 'fputs': (), 'fflush': (), 'fopen': (), 'fclose': (), 'fgetc': (), 'puts': (), 'putchar': (),
    'strcmp': (), 'strncmp': (), 'strlen': (), 'tolower': (), 'toupper': (), 'atoi': (), 'atof': (), 'exit': (), 'abort': (),
    'fabs': (), 'fabsf': (), 'sqrt': (), 'sqrtf': (), 'pow': (), 'powf': (), 'exp': (), 'log': (), 'log10': (), 'ceil': (), 'floor': (),
    'sin': (), 'cos': (), '__builtin_flt_rounds': (), '__assert_fail': (), 'abs': (), 'labs': (),
    'dnrm2_': (), 'snrm2_': (), 'scnrm2_': (), 'dznrm2_': (), 'dasum_': (), 'sasum_': (), 'scasum_': (), 'dzasum_': (),
    'idamax_': (), 'isamax_': (), 'icamax_': (), 'izamax_': (), 'ddot_': (), 'sdot_': (),
    'lsame_': (), 'xerbla_': (),
}
# scanf family writes through every argument after the format
SCANF = {'fscanf': 2, 'sscanf': 2, 'scanf': 1}


def external_writes(name, nargs):
    if name in SCANF:
        return tuple(range(SCANF[name], nargs))
    if name in EXTERNAL_WRITES:
        return EXTERNAL_WRITES[name]
    if len(name) > 1 and name[0] in 'sdcz' and name[1:] in EXTERNAL_WRITES:
        return EXTERNAL_WRITES[name[1:]]
    return None


def is_pointer_type(t):
    return bool(t) and ('*' in t or '[' in t)


class Effects(object):
    def __init__(self, prog):
        self.prog = prog
        self.summary = {}   # (unit, name) -> set of param indices written through
        self.unknown_ext = set()
        for f in prog.topo_bottom_up():
            self.summary[(f.unit, f.name)] = self.analyse(f)

    def derived(self, f):
        """map var id -> set of param indices it may be derived from"""
        pidx = {pid: i for i, (_, pid, _) in enumerate(f.params)}
        der = {pid: {i} for pid, i in pidx.items()}
        changed = True
        assigns = []
        for n in f.body.walk():
            if n.k == 'Var' and n.c:
                assigns.append((n.a['id'], n.c[0], n.t))
            elif n.k == 'Assign' and n.a['op'] == '=':
                l = strip(n.c[0])
                if l.k == 'Ref':
                    assigns.append((l.a['id'], n.c[1], l.t))
        while changed:
            changed = False
            for (vid, rhs, t) in assigns:
                if not is_pointer_type(t):
                    continue
                r = root_ref(rhs)
                if r is None:
                    continue
                src = der.get(r.a.get('id'))
                if src:
                    cur = der.setdefault(vid, set())
                    if not src <= cur:
                        cur |= src
                        changed = True
        return der

    def analyse(self, f):
        der = self.derived(f)
        written = set()

        def roots_of(e):
            r = root_ref(e)
            if r is None:
                return set()
            return der.get(r.a.get('id'), set())

        def through_deref(lv):
            """does l-value lv go through a dereference of its root (not just assign the local itself)?"""
            lv = strip(lv)
            return lv.k != 'Ref'

        for n in f.body.walk():
            if n.k == 'Assign':
                if through_deref(n.c[0]):
                    written |= roots_of(n.c[0])
            elif n.k == 'Unary' and n.a['op'] in ('++', '--'):
                if through_deref(n.c[0]):
                    written |= roots_of(n.c[0])
            elif n.k == 'Call':
                name = callee_name(n)
                args = n.c[1:]
                tgt = self.prog.resolve(name, f.unit) if name else None
                if tgt is not None:
                    cw = self.summary.get((tgt.unit, tgt.name), set())
                    for i in cw:
                        if i < len(args):
                            written |= roots_of(args[i])
                elif name is not None:
                    ew = external_writes(name, len(args))
                    if ew is None:
                        self.unknown_ext.add(name)
                        ew = range(len(args))
                    for i in ew:
                        if i < len(args):
                            written |= roots_of(args[i])
                else:
                    for a in args:   # indirect call: assume it writes through everything
                        written |= roots_of(a)
        return written
