#!/usr/bin/env python3
"""Writes seeded/<id>/meta.json from the table below and (optionally) a detection matrix produced by tools/seedmatrix.py --json."""
import json, os, sys
VERIF = os.path.dirname(os.path.dirname(os.path.abspath(__file__)))
T = {
 'C01-1': ('SRC/heap_relax_snode.c', 'contiguity test of a relaxed supernode uses the first leaf instead of the minimum column', 'SymmetricMode = YES and an etree that is heap-ordered but not post-ordered'),
 'C01-2': ('SRC/dpanel_bmod.c', 'store of the solved U(krep-1,j) dropped in the 2-D blocked, 3-column case', 'a supernode of >= 100 columns with > 200 rows below it and a U-segment of length 3 (default sp_ienv)'),
 'C02-1': ('SRC/dpivotL.c', 'remembered pivot tested against u instead of u*max', 'refactor with SamePattern_SameRowPerm after the values changed so that an old pivot is small'),
 'C02-2': ('SRC/heap_relax_snode.c', 'descendants[] indexed in the wrong numbering for a non-contiguous relaxed supernode', 'SymmetricMode = YES, non-postordered etree with a small non-contiguous subtree'),
 'C03-1': ('SRC/dgstrf.c', 'reuse branch no longer refreshes L->nnz / U->nnz', 'DOFACT then SamePattern_SameRowPerm with values that make a remembered pivot fail'),
 'C03-2': ('SRC/util.c', 'fixupL returns early for a single supernode', 'matrix that factors into exactly one supernode with a non-identity perm_r'),
 'C04-1': ('SRC/dpivotL.c', 'diagonal accepted without the non-zero test', 'DiagPivotThresh = 0 and a zero diagonal at elimination time'),
 'C04-2': ('SRC/zgssvx.c', 'B scaled right after equilibration, before the factorization and the singular return', 'Equil = YES, badly scaled exactly singular matrix without a zero row/column'),
 'C05-1': ('SRC/zsp_blas2.c', 'CONJ upper solve divides by the unconjugated diagonal for single-column supernodes', 'Trans = CONJ, complex pivot in a single-column supernode'),
 'C05-2': ('SRC/dgssvx.c', 'X unscaled with the leading dimension of B in the transposed branch', 'nrhs >= 2, ldb != ldx, row equilibration in force, transposed solve'),
 'C06-1': ('SRC/heap_relax_snode.c', 'et_save taken after et[] was overwritten: the original etree is not restored', 'SymmetricMode = YES, DOFACT followed by SamePattern on a bushy etree'),
 'C06-2': ('SRC/dgstrf.c', 'reuse branch no longer refreshes U->nzval', 'SamePattern_SameRowPerm with abandoned pivots and enough fill to expand UCOL'),
 'C07-1': ('SRC/scopy_to_ucol.c', 'lsub not re-read after UCOL/USUB expansion', 'single precision, caller workspace, fill estimate below nnz(U)'),
 'C07-2': ('SRC/memory.c', 'user_bcopy stops one byte short (d_ptr > dest)', 'caller workspace and at least one expansion'),
 'C08-1': ('SRC/zmemory.c', 'StackFull tests top1 instead of used', 'complex double, lwork > 0 slightly too small'),
 'C08-2': ('SRC/dgstrf.c', 'LUSUP pre-check for a relaxed supernode is an if instead of a while', 'workspace of almost exactly the required length and a large late relaxed supernode'),
 'C09-1': ('SRC/sp_coletree.c', 'disjoint-set parent pointer becomes a file-scope static', 'two threads inside sp_coletree at the same time'),
 'C09-2': ('SRC/dmemory.c', 'dSetRWork no longer zeroes dense[] / tempv[] (calloc only under malloc)', 'lwork > 0 with a buffer that was used before or is not zeroed'),
 'C10-1': ('SRC/sp_coletree.c', 'firstcol[] initialised over nc instead of nr entries', 'tall matrix (m > n) with entries in rows >= n'),
 'C10-2': ('SRC/colamd.c', 'post- instead of pre-decrement when a newly null column is ordered', 'COLAMD on n > 100 with a dense row and a column living only in dense rows'),
 'C11-1': ('SRC/dmach.c', 'dmach("P") returns eps instead of eps*base', 'amax within a factor of two of the small/large thresholds'),
 'C11-2': ('SRC/cgsequ.c', 'empty column reported as ncol + j + 1', 'rectangular matrix with an empty column, single complex'),
 'C12-1': ('SRC/zgssvx.c', 'norm chosen from options->Trans instead of the effective transpose', 'row storage with ConditionNumber = YES'),
 'C12-2': ('SRC/dpivotgrowth.c', 'ncols bound moved from the column loop to the supernode loop', 'singular factorization whose zero pivot lies inside a multi-column supernode'),
 'C13-1': ('SRC/zgsrfs.c', 'residual for CONJ formed with A^T', 'Trans = CONJ with refinement, complex entries'),
 'C13-2': ('SRC/dgsrfs.c', 'loop leaves right after the fifth update', 'five refinement steps actually needed (slow convergence)'),
 'C14-1': ('SRC/dgstrs.c', 'work matrix addressed with ldb instead of n', 'nrhs >= 2 and ldb > n, vendor BLAS path'),
 'C14-2': ('SRC/zsp_blas2.c', 'start of y for a negative stride computed from lenx', 'sp_zgemv with T/C, incy < 0, rectangular A'),
 'C15-1': ('SRC/dgsisx.c', 'B pre-scaling for the transposed solve tests rowequ instead of colequ', 'transposed solve, Equil = YES with one-sided equilibration, RowPerm = NOROWPERM'),
 'C15-2': ('SRC/mark_relax.c', 'last column of each relaxed supernode not marked (j < kcol)', 'ILU with NOROWPERM, zero diagonals and a later singleton relaxed supernode'),
 'C16-1': ('SRC/dreadhb.c', 'header line 2 parsed for 4 instead of 5 fields: RHSCRD lost', 'Harwell-Boeing file with a right-hand-side block'),
 'C16-2': ('SRC/dreadMM.c', 'col[] allocated with nonz instead of new_nonz', 'symmetric Matrix Market file with off-diagonal entries'),
 'C17-1': ('SRC/mc64ad.c', 'reset loop after a shortest-path search starts at up instead of low', 'rare tie patterns in MC64 job 5'),
 'C17-2': ('SRC/zldperm.c', 'early return on structural singularity before the index arrays are shifted back', 'double complex, structurally singular matrix'),
 'C18-1': ('SRC/zgssvx.c', 'screening of C reads R[j]', 'Fact = FACTORED, equed C or B, C with a non-positive entry'),
 'C18-2': ('SRC/sgstrs.c', 'work arrays allocated above the argument screening and not freed on the error return', 'any rejected call of sgstrs'),
 'C19-1': ('SRC/dgstrf.c', 'LUSUP capacity check for a relaxed supernode misses its last column', 'lusup exactly full inside the last column of a relaxed supernode'),
 'C19-2': ('SRC/get_perm_c.c', 'free of b_colptr moved into the bnz != 0 branch', 'MMD ordering of a matrix with empty adjacency structure (diagonal)'),
 'C20-1': ('FORTRAN/c_fortran_zgssv.c', 'dense B created with leading dimension *n instead of *ldb', 'nrhs >= 2 and ldb > n through the z bridge'),
 'C20-2': ('SRC/util.c', 'Destroy_SuperNode_Matrix no longer frees col_to_sup', 'any factor / free cycle, visible only to a leak checker'),
}
mx = {}
if len(sys.argv) > 1 and os.path.exists(sys.argv[1]):
    mx = json.load(open(sys.argv[1]))
for sid, (file, what, needs) in sorted(T.items()):
    d = os.path.join(VERIF, 'seeded', sid)
    if not os.path.isdir(d):
        print('missing', sid)
        continue
    hits = sorted(p for p, v in mx.get(sid, {}).items() if isinstance(v, list) and v and v[0] == 1)
    first = {p: mx[sid][p][1] for p in hits[:3]} if sid in mx else {}
    meta = {
        'id': sid, 'breaks_property': sid.split('-')[0], 'file': file, 'change': what, 'needs_to_manifest': needs,
        'origin': 'written by an independent sub-agent that saw only the property text and its own scratch worktree of /repo',
        'confirmed': 'tools/confirm_seed.sh %s %s in the scratch worktree at the pinned commit: run.sh passes on the original build; patch applies; library builds; '
                     'ctest 24/24 pass with the patch; run.sh fails with the patch; worktree removed afterwards' % tuple(sid.split('-')),
        'detected_by_checks': hits,
        'first_report': first,
        'how_checked': 'tools/seedmatrix.py applies patch.diff to a scratch copy of the sources (never /repo), runs ./check <Cnn> with SLU_REPO pointing at the copy, removes the copy',
    }
    json.dump(meta, open(os.path.join(d, 'meta.json'), 'w'), indent=1)
print('wrote', len(T))
