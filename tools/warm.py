#!/usr/bin/env python3
"""setup_cmd: warm the IR cache for the tested configuration (pure speed-up; every check re-parses whatever changed)."""
import sys, os
sys.path.insert(0, os.path.dirname(os.path.dirname(os.path.abspath(__file__))))
from slucheck import front
us = front.load_units(front.library_units(('SRC', 'CBLAS', 'FORTRAN', 'EXAMPLE')))
print('parsed %d units, %d function definitions' % (len(us), sum(len(u.funcs) for u in us)))
