"""C08 A caller workspace is never overrun; shortage is reported  —  R6 (allocator), R5 (failure propagation), R3 size-query group, R9."""
import os
from ..facts import Program
from ..run import Check, AnalysisBroken, VERIF
from ..rules import r5_grow, r6_wspace, expand, r9_sibling
from ..rules.effects import PathEffects
from . import _drv, _gssvx, _expert

R9_UNITS = ['memory.c', 'gstrf.c', 'gsitrf.c', 'gssvx.c', 'gsisx.c']


def run(tier):
    chk = Check('C08', tier, level='other')
    chk.explanation = (
        'R6 on the two-ended stack allocator over work[]: (a) only ?SetupSpace ?user_malloc ?user_free ?expand ?LUWorkInit ?LUWorkFree '
        '?StackCompress ?LUMemInit store into stack.{used,top1,top2,size,array}; (b) linear-form dataflow over each of them shows '
        'I = used - top1 - size + top2 preserved on every path (or established as 0), incl. mark/release and alignment fix-ups, so the '
        'fullness test is exact; (c) every comparison against stack.size is (x + stack.used) >= stack.size; (d) pointers from ?user_malloc / '
        '?expand are NULL-tested before use; (e) ?user_free never releases acquisitions that may have failed. R5.a/c: every expansion is '
        'guarded and its failure is returned at once up to info (must-return form), ?LUMemXpand turns a NULL into bytes-in-use + n. R3 '
        'size-query group on ?gssvx / ?gsisx: what is written and which phases run before an lwork = -1 query returns. R9 siblings. Not '
        'decided: that every numerical kernel writes inside the arrays it was given (subscript ranges are values).')
    cfgs = ['tested'] if tier == 'quick' else ['tested', 'idx64']
    chk.configs = cfgs
    # positive control for the rules whose expected count on the repaired tree is zero
    fx = Program.load(paths=[os.path.join(VERIF, 'fixtures', 'r6_release.c')])
    probe = Check('C08', tier)
    r6_wspace.run(probe, 'R6', fx, 'fixture')
    keys = sorted(v['key'].split(':')[1] for v in probe.violations)
    if 'release-amount' not in keys or 'null-honoured' not in keys:
        raise AnalysisBroken('R6 positive control: fixtures/r6_release.c must be reported for release-amount and null-honoured; engine saw %s' % keys)
    chk.samples.append('positive control fixtures/r6_release.c -> reported: %s (expected)' % keys)
    for cfgname in cfgs:
        prog = Program.load(which=('SRC',), cfg=cfgname)
        eff = PathEffects(prog)
        n = r6_wspace.run(chk, 'R6', prog, cfgname)
        if n < 32:
            raise AnalysisBroken('C08: %d allocator routines found, floor 32' % n)
        ns, nc = r5_grow.run(chk, 'R5', prog, cfgname)
        if ns < 56:
            raise AnalysisBroken('C08: %d expansion call sites, floor 56' % ns)
        chk.clause('C08.xpand', '?LUMemXpand / ?expand failure and binding structure')
        for p in _drv.PRECS:
            expand.run(chk, 'C08.xpand', prog, p, cfgname)
            expand.moved_block_extent_rule(chk, 'C08.xpand', prog, p, cfgname)
            expand.usable_size_rule(chk, 'C08.xpand', prog, p, cfgname)
            expand.growth_progress_rule(chk, 'C08.xpand', prog, p, cfgname)
            expand.rollback_mark_rule(chk, 'C08.xpand', prog, p, cfgname)
            expand.failure_status_rule(chk, 'C08.xpand', prog, p, cfgname)
            expand.retry_termination_rule(chk, 'C08.xpand', prog, p, cfgname)
            expand.reuse_keeps_stack_rule(chk, 'C08.xpand', prog, p, cfgname)
            expand.relaxed_capacity_rule(chk, 'C08.xpand', prog, p, cfgname)
        chk.clause('C08.query', 'R3 oracle group `query` (lwork = -1) of ?gssvx / ?gsisx (D3)')
        nl = 0
        for p in _drv.PRECS:
            for ilu in (False, True):
                f, fl, leaves = _gssvx.leaves_for(prog, eff, p, ilu=ilu, tier=tier, split=('Fact', 'Equil', 'A.Stype', 'RowPerm'), lwork_values=(-1,))
                if f is None:
                    raise AnalysisBroken('C08: expert driver of type %s not found' % p)
                ctx = _expert.Ctx(prog, f, fl, p, ilu)
                _expert.run_leaf_groups(chk, 'C08', ctx, [lf for lf in leaves if lf.val.get('lwork') == -1], ('query',), cfgname)
                nl += len(leaves)
        if nl < 8 * 10:
            raise AnalysisBroken('C08: %d driver leaves, floor 80' % nl)
        if cfgname == 'tested':
            r9_sibling.run(chk, prog, 'C08.D4', {p + u for p in 'dz' for u in R9_UNITS}, cfgname)
    return chk.finish()
