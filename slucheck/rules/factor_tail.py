"""Rules on the driver loop and tail of ?gstrf / ?gsitrf:
 - first failing column is kept (C04.D2): every ?pivotL result reaches iinfo only under iinfo == 0, *info = iinfo after the loop;
 - perm_r is initialised to SLU_EMPTY and completed after the loop (C02.D2);
 - countnz / fixupL run after the loop and before L, U are wrapped (C03.D1);
 - the SamePattern_SameRowPerm branch refreshes every field of L and U that the creators bind to a growable array or a count
   (branch twin of ?Create_SuperNode_Matrix / ?Create_CompCol_Matrix; C03.D1, C06.D2)."""
from ..facts import strip, callee_name, const_value, loc, root_ref, canon
from ..ir import pretty

NOT_GROWABLE = {'col_to_sup': 'supno[] has fixed size n+1 and is updated in place',
                'sup_to_col': 'xsup[] has fixed size n+1 and is updated in place'}


def top_index(f, pred):
    for i, s in enumerate(f.body.c):
        for n in s.walk():
            if pred(n):
                return i
    return None


def creator_binding(prog, name):
    """field -> parameter index whose value the creator stores into Store-><field> (directly or as an array base)"""
    f = prog.func(name)
    if f is None:
        return None, None
    pidx = {pid: i for i, (_, pid, t) in enumerate(f.params)}
    out = {}
    for n in f.body.walk():
        if n.k == 'Assign' and n.a['op'] == '=':
            lv = strip(n.c[0])
            if lv.k == 'Member' and lv.a['arrow'] and strip(lv.c[0]).k == 'Ref' and strip(lv.c[0]).a.get('dk') == 'VarDecl':
                r = root_ref(n.c[1])
                if r is not None and r.a.get('id') in pidx:
                    out[lv.a['name']] = pidx[r.a['id']]
    return f, out


def root_path(e):
    """canonical text of the object an expression is rooted at: casts, subscripts and & dropped (Glu->lusup, nnzL)"""
    e = strip(e)
    while True:
        if e.k == 'Index':
            e = strip(e.c[0])
        elif e.k == 'Unary' and e.a['op'] in ('&', '*'):
            e = strip(e.c[0])
        else:
            break
    return canon(e, ids=False)


def run(chk, cid, prog, p, cfgname, ilu=False):
    name = p + ('gsitrf' if ilu else 'gstrf')
    f = prog.func(name)
    if f is None:
        from ..run import AnalysisBroken
        raise AnalysisBroken('%s not found' % name)
    chk.saw(unit=f.unit, func=f.unit + ':' + f.name)
    piv = ('ilu_' if ilu else '') + p + 'pivotL'
    ids = {n: i for (n, i, t) in f.params}
    info, perm_r, L, U = ids.get('info'), ids.get('perm_r'), ids.get('L'), ids.get('U')
    cnt = 0

    def V(key, node, what):
        chk.violate(cid, '%s:%s' % (f.name, key), loc(f, node), f.name, what, cfgname=cfgname)

    def OK(key, sample=''):
        chk.ok(cid, '%s:%s' % (f.name, key), sample=sample)

    def is_info_lv(lv):
        lv = strip(lv)
        return lv.k == 'Unary' and lv.a['op'] == '*' and strip(lv.c[0]).k == 'Ref' and strip(lv.c[0]).a.get('id') == info

    # ---- (1) first failing column kept
    I = None
    sites = 0
    bad = []
    if not ilu:
        def visit(n):
            nonlocal I, sites
            if n.k == 'If':
                calls = [x for x in n.c[0].walk() if x.k == 'Call' and callee_name(x) == piv]
                if calls:
                    sites += 1
                    asg = [x for x in n.c[0].walk() if x.k == 'Assign' and is_info_lv(x.c[0])]
                    body = n.c[1]
                    inner = body if body.k == 'If' else (body.c[0] if body.k == 'Block' and len(body.c) == 1 and body.c[0].k == 'If' else None)
                    ok = bool(asg) and inner is not None
                    if ok:
                        c = strip(inner.c[0])
                        ok = c.k == 'Binary' and c.a['op'] == '==' and strip(c.c[0]).k == 'Ref' and const_value(c.c[1]) == 0
                        if ok:
                            var = strip(c.c[0]).a['id']
                            st = [x for x in inner.c[1].walk() if x.k == 'Assign' and strip(x.c[0]).k == 'Ref' and strip(x.c[0]).a['id'] == var
                                  and is_info_lv(x.c[1])]
                            ok = bool(st) and (I is None or I == var)
                            if ok:
                                I = var
                    if not ok:
                        bad.append(n)
            for c in n.c:
                visit(c)
        visit(f.body)
        cnt += 1
        if sites < 2 or bad:
            V('first-failing-column-kept', (bad or [f.body])[0],
              'every call of %s must be of the form `if ((*info = %s(...))) if (iinfo == 0) iinfo = *info;` so that the first singular column is the one reported '
              '(%d call sites, %d deviate)' % (piv, piv, sites, len(bad)))
        else:
            OK('first-failing-column-kept', '%d call sites' % sites)
        # calls to pivotL outside an if-condition (result dropped)
        allcalls = [x for x in f.body.walk() if x.k == 'Call' and callee_name(x) == piv]
        cnt += 1
        if len(allcalls) != sites:
            V('pivot-result-used', allcalls[0], 'a call of %s does not feed its result into *info' % piv)
        else:
            OK('pivot-result-used')
    # ---- (2) *info = iinfo after the loop, before countnz
    loop_i = None
    for i, s in enumerate(f.body.c):
        if s.k in ('For', 'While') and any(x.k == 'Call' and callee_name(x) == piv for x in s.walk()):
            loop_i = i
    cn_i = top_index(f, lambda n: n.k == 'Call' and callee_name(n) in ('countnz', 'ilu_countnz'))
    fx_i = top_index(f, lambda n: n.k == 'Call' and callee_name(n) == 'fixupL')
    wrap_i = top_index(f, lambda n: n.k == 'Call' and callee_name(n) == p + 'Create_SuperNode_Matrix')
    cnt += 1
    if loop_i is None or cn_i is None or fx_i is None or wrap_i is None or not (loop_i < cn_i < wrap_i and loop_i < fx_i < wrap_i):
        V('count-and-fixup-before-wrap', f.body, 'countnz and fixupL must run after the factorization loop and before L and U are wrapped '
          '(loop %s, countnz %s, fixupL %s, wrap %s)' % (loop_i, cn_i, fx_i, wrap_i))
        return cnt
    OK('count-and-fixup-before-wrap')
    if not ilu:
        cnt += 1
        st = [i for i, s in enumerate(f.body.c) if s.k == 'Assign' and is_info_lv(s.c[0]) and strip(s.c[1]).k == 'Ref' and strip(s.c[1]).a.get('id') == I]
        if I is None or not st or not (loop_i < st[0] < cn_i):
            V('info-is-first-failure', f.body, '`*info = iinfo` must follow the factorization loop')
        else:
            OK('info-is-first-failure')
    # ---- (3) perm_r initialised and completed
    cnt += 1
    init = top_index(f, lambda n: n.k == 'Call' and callee_name(n) == 'ifill' and len(n.c) > 3 and strip(n.c[1]).k == 'Ref' and strip(n.c[1]).a.get('id') == perm_r
                     and (const_value(n.c[3], prog.enums) == -1))
    comp = None
    for i, s in enumerate(f.body.c):
        if loop_i < i < cn_i:
            for x in s.walk():
                if x.k == 'If':
                    c = strip(x.c[0])
                    if c.k == 'Binary' and c.a['op'] == '==' and root_ref(c.c[0]) is not None and root_ref(c.c[0]).a.get('id') == perm_r \
                            and const_value(c.c[1], prog.enums) == -1:
                        st = [y for y in x.c[1].walk() if y.k == 'Assign' and root_ref(y.c[0]) is not None and root_ref(y.c[0]).a.get('id') == perm_r]
                        if st:
                            comp = i
    if init is None or init > loop_i or (comp is None and not ilu):
        V('perm_r-initialised-and-completed', f.body, 'perm_r must be filled with SLU_EMPTY before the loop and every still-empty row must receive a position after it')
    else:
        OK('perm_r-initialised-and-completed')
    # ---- (4) reuse branch = creators' binding
    reuse = None
    for s in f.body.c[cn_i:]:
        if s.k == 'If' and len(s.c) > 2:
            c = strip(s.c[0])
            if c.k == 'Binary' and c.a['op'] == '==' and 'SamePattern_SameRowPerm' in canon(c, ids=False) and \
                    any(x.k == 'Call' and callee_name(x) == p + 'Create_SuperNode_Matrix' for x in s.c[2].walk()):
                reuse = s
    cnt += 1
    if reuse is None:
        V('reuse-branch-present', f.body, 'expected `if (fact == SamePattern_SameRowPerm) { refresh L, U } else { create L, U }` after fixupL')
        return cnt
    OK('reuse-branch-present')
    for (creator, objid, objname) in ((p + 'Create_SuperNode_Matrix', L, 'L'), (p + 'Create_CompCol_Matrix', U, 'U')):
        cf, bind = creator_binding(prog, creator)
        call = [x for x in reuse.c[2].walk() if x.k == 'Call' and callee_name(x) == creator]
        if cf is None or not bind or len(call) != 1:
            V('creator-binding:%s' % objname, reuse, 'cannot read the field binding of %s' % creator)
            continue
        args = call[0].c[1:]
        # what the reuse branch assigns:  ((XXformat *) obj->Store)->field = rhs
        got = {}
        for x in reuse.c[1].walk():
            if x.k == 'Assign' and x.a['op'] == '=':
                lv = strip(x.c[0])
                if lv.k == 'Member' and lv.a['arrow']:
                    base = strip(lv.c[0])
                    if base.k == 'Member' and base.a['name'] == 'Store' and strip(base.c[0]).k == 'Ref' and strip(base.c[0]).a.get('id') == objid:
                        got[lv.a['name']] = root_path(x.c[1])
        for field, k in sorted(bind.items()):
            if field in NOT_GROWABLE or k == 0 or k >= len(args) + 0:
                continue
            if field in ('nrow', 'ncol', 'Stype', 'Dtype', 'Mtype'):
                continue
            cnt += 1
            want = root_path(args[k])
            if field == 'nsuper':
                want = root_path(args[k])
            inst = 'reuse-refreshes:%s.%s' % (objname, field)
            if field not in got:
                V(inst, reuse.c[1], 'reuse of L/U (SamePattern_SameRowPerm): %s->Store->%s is bound to `%s` by %s but is not refreshed in the reuse branch; '
                  'pivoting may differ and the arrays may have been expanded or moved' % (objname, field, pretty(args[k])[:60], creator))
            elif got[field] != want:
                V(inst, reuse.c[1], 'reuse branch sets %s->Store->%s from `%s`, the creator binds it to `%s`' % (objname, field, got[field], want))
            else:
                OK(inst, '%s <- %s' % (field, want))
    return cnt
