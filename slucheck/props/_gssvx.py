"""Leaves of the expert drivers ?gssvx / ?gsisx under the R3 engine (shared by C04 C05 C06 C08 C12 C13 C15)."""
from ..rules import r3_dispatch as r3
from . import _drv
from ._drv import Flags, ppos


ALL_SPLIT = ('Fact', 'Trans', 'Equil', 'ColPerm', 'IterRefine', 'PivotGrowth', 'ConditionNumber', 'RowPerm', 'A.Stype', 'B.ncol', 'equed', 'lwork', 'info')


def flags_for(prog, f, p, ilu=False, tier='quick', split=ALL_SPLIT, lwork_values=None, fact_values=None):
    E = prog.enums
    fl = Flags(prog, f, p)
    # flags not in `split` stay undeclared: branches on them are explored both ways (their events are alternatives)
    fl.enum('Fact', '$1->Fact', list(fact_values) if fact_values else ['DOFACT', 'SamePattern', 'SamePattern_SameRowPerm', 'FACTORED'])
    fl.enum('Trans', '$1->Trans', ['NOTRANS', 'TRANS', 'CONJ'])
    fl.enum('Equil', '$1->Equil', ['NO', 'YES'])
    if 'ColPerm' in split:
        fl.enum('ColPerm', '$1->ColPerm', ['COLAMD', 'MY_PERMC'] if tier == 'quick' else ['NATURAL', 'MMD_ATA', 'MMD_AT_PLUS_A', 'COLAMD', 'MY_PERMC'])
    if 'IterRefine' in split:
        fl.enum('IterRefine', '$1->IterRefine', ['NOREFINE', 'SLU_DOUBLE'] if tier == 'quick' else ['NOREFINE', 'SLU_SINGLE', 'SLU_DOUBLE', 'SLU_EXTRA'])
    if 'PivotGrowth' in split:
        fl.enum('PivotGrowth', '$1->PivotGrowth', ['NO', 'YES'])
    if 'ConditionNumber' in split:
        fl.enum('ConditionNumber', '$1->ConditionNumber', ['NO', 'YES'])
    if ilu:
        if 'RowPerm' in split:
            fl.enum('RowPerm', '$1->RowPerm', ['NOROWPERM', 'LargeDiag_MC64'])
        fl.add('info_ldperm', None, [0, 1], ['0', 'fails'])
    fl.matrix('A', ['SLU_NC', 'SLU_NR'], 'SLU_GE')
    fl.dense('B', ncols=(0, 2) if 'B.ncol' in split else (2,), lda=1013)
    fl.dense('X', ncols=(2,), lda=1217)
    k = ppos(f, 'equed')
    fl.add('equed_in', '*$%d' % k, [ord(c) for c in 'NRCB'], list('NRCB'))
    fl.add('equed_laqgs', None, [ord(c) for c in 'NRCB'], list('NRCB'))
    fl.add('info_gsequ', None, [0, 1], ['0', 'zero-row/col'])
    if lwork_values is not None:
        fl.add('lwork', '$%d' % ppos(f, 'lwork'), list(lwork_values), [{-1: '-1(query)', 0: '0(malloc)'}.get(x, '>0(workspace)') for x in lwork_values])
    elif 'lwork' in split:
        fl.add('lwork', '$%d' % ppos(f, 'lwork'), [-1, 0, 4096], ['-1(query)', '0(malloc)', '>0(workspace)'])
    else:
        fl.add('lwork', '$%d' % ppos(f, 'lwork'), [0], ['0(malloc)'])
    fl.add('info', None, [0, 3, 15], ['0', 'singular(1..n)', 'memory(>n)'])
    return fl


def leaves_for(prog, eff, p, ilu=False, tier='quick', split=ALL_SPLIT, lwork_values=None, fact_values=None):
    name = p + ('gsisx' if ilu else 'gssvx')
    f = prog.func(name)
    if f is None:
        return None, None, None
    fl = flags_for(prog, f, p, ilu, tier, split, lwork_values, fact_values)
    fac = p + ('gsitrf' if ilu else 'gstrf')
    kequed = ppos(f, 'equed')

    def after_laqgs(eng, call, vals, env):
        env['*$%d' % kequed] = r3.FlagRef('equed_laqgs')

    def after_gsequ(eng, call, vals, env):
        _drv.set_through(env, vals[-1], 'info_gsequ')
    hav = [(lambda n: n == fac, _drv.havoc_last_arg('info')),
           (lambda n: n == p + 'laqgs', after_laqgs),
           (lambda n: n == p + 'gsequ', after_gsequ)]
    if ilu:
        def after_ldperm(eng, call, vals, env):
            pass
        hav.append((lambda n: n == p + 'ldperm', after_ldperm))
    eng = r3.Engine(prog, f, fl.flags, havoc=hav, callees=lambda n: True, eff=eff, max_leaves=60000)
    if ilu:
        # the return value of ?ldperm is a flag
        eng.retflags = {p + 'ldperm': 'info_ldperm'}
    leaves = eng.run()
    return f, fl, leaves
