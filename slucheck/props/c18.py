"""C18 Illegal arguments are rejected with the documented negative info  —  rule R2."""
import os, re
from ..facts import Program, strip, callee_name, root_ref, const_value, loc
from ..run import Check, AnalysisBroken
from ..rules import r2_argcheck as r2, r9_sibling
from ..rules.effects import Effects, external_writes
from ..ir import N, pretty

FAMILIES = ['gssv', 'gssvx', 'gsisx', 'gstrs', 'gsrfs', 'gscon', 'gsequ', 'sp_trsv', 'sp_gemv']
PREC = {'s': 'SLU_S', 'd': 'SLU_D', 'c': 'SLU_C', 'z': 'SLU_Z'}


def family_of(name):
    for p in 'sdcz':
        for fam in FAMILIES:
            if fam.startswith('sp_'):
                if name == 'sp_' + p + fam[3:]:
                    return fam, p
            elif name == p + fam:
                return fam, p
    return None, None


# ---------------------------------------------------------------- oracle (written from the header comment of each routine)
# Each requirement: (position k, [atoms]) = "when all atoms hold, the routine must report -k".
# Atoms are in the normal form of r2.norm with parameters written $<position>, locals written
# local{positions they derive from}, SLU_T the routine's own precision tag.
def square(p, stypes, mtype, nonneg_only=False):
    out = []
    if nonneg_only:
        out += [(p, ['($%d->nrow < 0)' % p]), (p, ['($%d->ncol < 0)' % p])]
    else:
        out += [(p, ['($%d->nrow != $%d->ncol)' % (p, p)]), (p, ['($%d->nrow < 0)' % p])]
    out.append((p, ['($%d->Stype != %s)' % (p, s) for s in stypes]))
    out.append((p, ['($%d->Dtype != SLU_@)' % p]))
    out.append((p, ['($%d->Mtype != %s)' % (p, mtype)]))
    return out


def dense(p, ref, refdim='nrow', ncol=True):
    out = []
    if ncol:
        out.append((p, ['($%d->ncol < 0)' % p]))
    out.append((p, ['($%d->Store->lda < max($%d->%s, 0))' % (p, ref, refdim)]))
    out += [(p, ['($%d->Stype != SLU_DN)' % p]), (p, ['($%d->Dtype != SLU_@)' % p]), (p, ['($%d->Mtype != SLU_GE)' % p])]
    return out


def enum_range(p, path, values):
    return [(p, ['(%s != %s)' % (path, v) for v in values])]


def flag(p, letters):
    return [(p, ['(strncmp($%d, "%s", 1) != 0)' % (p, l) for l in letters])]


# a ColPerm value above the last enumerator: every one of these atoms holds, so a range test or an exhaustive != list both qualify
COLPERM = [(1, ['($1->ColPerm > MY_PERMC)'] + ['($1->ColPerm != %s)' % v for v in
                ('NATURAL', 'MMD_ATA', 'MMD_AT_PLUS_A', 'COLAMD', 'METIS_AT_PLUS_A', 'PARMETIS', 'METIS_ATA', 'ZOLTAN', 'MY_PERMC')])]
EXPERT = (
    enum_range(1, '$1->Fact', ['DOFACT', 'SamePattern', 'SamePattern_SameRowPerm', 'FACTORED'])
    + COLPERM
    + enum_range(1, '$1->Trans', ['NOTRANS', 'TRANS', 'CONJ'])
    + enum_range(1, '$1->Equil', ['NO', 'YES'])
    + square(2, ['SLU_NC', 'SLU_NR'], 'SLU_GE')
    + [(6, ['($1->Fact == FACTORED)', '!local{6}', '(strncmp($6, "N", 1) != 0)']),
       (7, ['(min{7} <= 0.0)']), (8, ['(min{8} <= 0.0)']),
       (12, ['($12 < -1)'])]
    + dense(13, 2) + dense(14, 2)
    + [(14, ['($13->ncol != 0)', '($13->ncol != $14->ncol)'])]
)
ORACLE = {
    'gssv': enum_range(1, '$1->Fact', ['DOFACT']) + COLPERM + square(2, ['SLU_NC', 'SLU_NR'], 'SLU_GE') + dense(7, 2),
    'gssvx': EXPERT,
    'gsisx': EXPERT,
    'gstrs': enum_range(1, '$1', ['NOTRANS', 'TRANS', 'CONJ']) + square(2, ['SLU_SC'], 'SLU_TRLU') + square(3, ['SLU_NC'], 'SLU_TRU')
             + dense(6, 2),
    'gsrfs': enum_range(1, '$1', ['NOTRANS', 'TRANS', 'CONJ']) + square(2, ['SLU_NC'], 'SLU_GE') + square(3, ['SLU_SC'], 'SLU_TRLU')
             + square(4, ['SLU_NC'], 'SLU_TRU') + dense(10, 2) + dense(11, 2, ncol=False) + [(11, ['($10->ncol != $11->ncol)'])],
    'gscon': [(1, ['(*$1 != \'1\')', '(strncmp($1, "O", 1) != 0)', '(strncmp($1, "I", 1) != 0)'])]
             + square(2, ['SLU_SC'], 'SLU_TRLU') + square(3, ['SLU_NC'], 'SLU_TRU'),
    'gsequ': square(1, ['SLU_NC'], 'SLU_GE', nonneg_only=True),
    'sp_trsv': flag(1, 'LlUu') + flag(2, 'NnTtCc') + flag(3, 'UuNn')
               + [(4, ['($4->nrow != $4->ncol)']), (4, ['($4->nrow < 0)']), (5, ['($5->nrow != $5->ncol)']), (5, ['($5->nrow < 0)'])],
    'sp_gemv': [(1, ['(strncmp($1, "N", 1) != 0)', '(strncmp($1, "n", 1) != 0)', '(strncmp($1, "T", 1) != 0)', '(strncmp($1, "t", 1) != 0)',
                     '(strncmp($1, "C", 1) != 0)', '(strncmp($1, "c", 1) != 0)']),
                (3, ['($3->nrow < 0)']), (3, ['($3->ncol < 0)']), (5, ['($5 == 0)']), (8, ['($8 == 0)'])],
}
# documented protected arguments: must not be written on the error exit (by position name)
PROTECTED = {'A', 'B', 'X', 'perm_c', 'perm_r', 'R', 'C', 'L', 'U', 'etree', 'x', 'y', 'r', 'c', 'ferr', 'berr'}


# ---------------------------------------------------------------- atom rendering with positions
class Namer(object):
    def __init__(self, f, table):
        self.f = f
        self.pos = {pid: i + 1 for i, (_, pid, _) in enumerate(f.params)}
        self.region_der = r2.derive_params(f, table.region)
        self.table = table

    def block_der(self, row):
        """derivation restricted to the innermost guarded block that (re)assigns the locals used in the row's condition"""
        # statements of the innermost enclosing If-branch of the store: find via guard nodes
        der = dict(self.region_der)
        guards = [c for (c, p) in row['guard'] if p is not None]
        # find, in the region, the innermost Block that contains the store node and assigns locals
        target = row['node']
        best = None

        def find(n, blocks):
            nonlocal best
            if n is target:
                best = list(blocks)
                return True
            nb = blocks + [n] if n.k == 'Block' else blocks
            for c in n.c:
                if find(c, nb):
                    return True
            return False
        for s in self.table.region:
            if find(s, []):
                break
        if best:
            for blk in reversed(best):
                local = r2.derive_params(self.f, [blk])
                if local:
                    for vid, s in local.items():
                        der[vid] = s
                    break
        # fold kind of the locals assigned in that block: running minimum / maximum of an argument array
        self.fold = {}
        if best:
            for blk in reversed(best):
                kinds = {}
                for n in blk.walk():
                    if n.k == 'Assign' and n.a['op'] == '=' and strip(n.c[0]).k == 'Ref':
                        t = r2.norm(n.c[1])
                        kinds.setdefault(strip(n.c[0]).a['id'], set()).add('min' if t.startswith('min(') else ('max' if t.startswith('max(') else 'other'))
                for vid, ks in kinds.items():
                    ks = ks - {'other'} if len(ks) > 1 else ks      # the initialisation (rcmin = bignum) does not count
                    if ks == {'min'}:
                        self.fold[vid] = 'min'
                    elif ks == {'max'}:
                        self.fold[vid] = 'max'
                if kinds:
                    break
        return der

    def text(self, e, der):
        pos = self.pos
        fold = getattr(self, 'fold', {})

        def ren(n):
            n = strip(n)
            if n.k == 'Ref':
                vid = n.a.get('id')
                if vid in pos:
                    return N('Ref', n.t, [], dict(n.a, name='$%d' % pos[vid]), n.line, n.mac)
                if n.a.get('dk') == 'VarDecl':
                    s = sorted(der.get(vid, ()))
                    return N('Ref', n.t, [], dict(n.a, name='%s{%s}' % (fold.get(vid, 'local'), ','.join(map(str, s)))), n.line, n.mac)
                return n
            if not n.c:
                return n
            return N(n.k, n.t, [ren(c) for c in n.c], n.a, n.line, n.mac)
        return ren(e)


def const_right(text):
    return text


def norm_atom(node, pol):
    return r2.norm(node) if pol else r2.neg(node)


_CONST = re.compile(r"^(-?\d+(\.\d+)?|'.'|\"[^\"]*\"|[A-Z][A-Za-z_0-9]*|SLU_[A-Z_]+)$")


def canon_atom(s):
    """order operands of == / != / < so that the constant is on the right:  (0 != strncmp(..)) -> (strncmp(..) != 0)"""
    m = re.match(r'^\((.*) (==|!=) (.*)\)$', s)
    if m and _CONST.match(m.group(1)) and not _CONST.match(m.group(3)):
        return '(%s %s %s)' % (m.group(3), m.group(2), m.group(1))
    if m and _CONST.match(m.group(1)) == None and _CONST.match(m.group(3)) == None:
        a, b = m.group(1), m.group(3)
        # nrow before ncol etc.: order by a fixed field preference to be stable
        pref = lambda x: (0 if x.endswith('nrow') else 1, x)
        a, b = sorted((a, b), key=pref)
        return '(%s %s %s)' % (a, m.group(2), b)
    m = re.match(r'^\((.*) (<=|<) (.*)\)$', s)
    if m and _CONST.match(m.group(1)) and not _CONST.match(m.group(3)):
        op = {'<': '>', '<=': '>='}[m.group(2)]
        return '(%s %s %s)' % (m.group(3), op, m.group(1))
    return s


def run(tier):
    chk = Check('C18', tier, level='proof')
    chk.explanation = (
        'Rule R2: for each of the 36 screening routines (?gssv ?gssvx ?gsisx ?gstrs ?gsrfs ?gscon ?gsequ sp_?trsv sp_?gemv) the '
        'statements from entry to the first `if (info != 0) { input_error; return }` are extracted from the AST as a decision table '
        '(guard -> code), local aliases substituted by their single definition and parameters written by position. Obligations: '
        '(a) every disjunct that yields -k mentions parameter k; (b) codes are non-decreasing along each else-if chain; (c) every '
        'documented precondition of the oracle table (written from the routine headers) is implied by a disjunct that yields exactly '
        'its position; the Dtype tag is the one of the routine\'s arithmetic; (e) the error exit is inert: before the error return '
        'there is no allocation, no call that writes through a protected argument and no store through one; (f) s=d and c=z tables '
        'agree (R9). Decides, for all inputs, that every single-argument corruption listed in the oracle yields -(position) with '
        'nothing modified or retained. Does NOT decide preconditions the header does not state.')
    chk.assumptions = ['the oracle table in slucheck/props/c18.py transcribes the documented preconditions faithfully',
                       'no-alias contract between distinct pointer arguments']
    cfgs = ['tested'] if tier == 'quick' else ['tested', 'idx64', 'cblas']
    chk.configs = cfgs
    for cfgname in cfgs:
        prog = Program.load(which=('SRC',), cfg=cfgname)
        eff = Effects(prog)
        ca = chk.clause('R2.a', 'code -k mentions argument k')
        cb = chk.clause('R2.b', 'codes ordered along else-if chain')
        cc = chk.clause('R2.c', 'documented precondition -> -(position)')
        ce = chk.clause('R2.e', 'error exit is inert')
        cg = chk.clause('R2.g', 'routine has a screening table')
        cp = chk.clause('R2.p', 'first illegal argument wins: no code store is reachable while info already holds a code')
        seen = set()
        for f in prog.all_funcs():
            fam, prec = family_of(f.name)
            if fam is None:
                continue
            chk.saw(unit=f.unit, func=f.unit + ':' + f.name)
            t = r2.extract(f)
            if t is None or not [r for r in t.rows if r['k']]:
                chk.violate('R2.g', '%s:no-screening' % f.name, loc(f, f.body), f.name,
                            'routine no longer has an argument-screening block ending in input_error + return', cfgname=cfgname)
                continue
            chk.ok('R2.g', f.name)
            seen.add(f.name)
            nm = Namer(f, t)
            sign = -1 if any((r['k'] or 0) < 0 for r in t.rows) else 1   # sp_?gemv stores positive codes into a local
            table = []   # (k, set(atom texts), ctx texts, row)
            for row in t.rows:
                if not row['k']:
                    continue
                k = row['k'] * sign
                der = nm.block_der(row)
                disj, ctx = r2.row_disjuncts(t, row)
                ctx_txt = [canon_atom(norm_atom(nm.text(c, der), p)) for (c, p) in ctx if p]
                # else-sides of conditions that are not screening rows: the row is reached only when such a condition is false
                for (c, p) in ctx:
                    if p is False and id(c) not in t.rowconds:
                        atoms_ = [canon_atom(norm_atom(nm.text(a_, der), True)) for dd in r2.dnf(r2.subst(c, t.defs), True) for (a_, pp) in dd]
                        atoms_ = [a_ for a_ in atoms_ if not INFO_TEST.match(a_) and not INFO_NZ.match(a_)]
                        if atoms_:
                            ctx_txt.append('not(' + ' && '.join(sorted(set(atoms_))) + ')')
                for d in disj:
                    atoms = [canon_atom(norm_atom(nm.text(a, der), p)) for (a, p) in d]
                    table.append((k, atoms, ctx_txt, row))
                    # (a) position
                    ment = set()
                    for (a, p) in d:
                        ment |= r2.params_mentioned(f, r2.subst(a, t.defs), der)
                    inst = '%s:%d:%s' % (f.name, k, ' && '.join(atoms))
                    if k in ment:
                        chk.ok('R2.a', inst, sample='mentions %s' % sorted(ment))
                    else:
                        chk.violate('R2.a', '%s:code%d:%s' % (f.name, k, '&&'.join(atoms)), loc(f, row['node']), f.name,
                                    'condition `%s` sets info to -%d but does not involve argument %d (%s); it involves argument(s) %s'
                                    % (' && '.join(atoms), k, k, f.params[k - 1][0] if 0 < k <= len(f.params) else '?', sorted(ment)),
                                    cfgname=cfgname)
            # (b) order along chains
            chains = {}
            for row in t.rows:
                if row['k'] and row['chain'] is not None:
                    chains.setdefault(row['chain'], []).append(abs(row['k']))
            for cid, ks in chains.items():
                if ks == sorted(ks):
                    chk.ok('R2.b', '%s:chain%d:%s' % (f.name, cid, ks), nontrivial=len(ks) > 1)
                else:
                    chk.violate('R2.b', '%s:chain-order:%s' % (f.name, ks), loc(f, t.region[0] if t.region else f.body), f.name,
                                'argument codes along one else-if chain are %s: a later argument is reported before an earlier one' % ks,
                                cfgname=cfgname)
            # (c) oracle coverage
            for (k, req) in ORACLE[fam]:
                req = [a.replace('SLU_@', PREC[prec]) for a in req]
                reqset = set(req)
                hit = None
                wrongcode = None
                narrowed = None
                for (kk, atoms, ctx, row) in table:
                    if set(atoms) <= reqset | set(ctx_implied(reqset)):
                        if kk == k:
                            # an enclosing positive guard that constrains a quantity of the precondition itself (and is not one of
                            # its atoms) screens the precondition on part of its domain only
                            nar = [c for c in ctx if c not in reqset and c not in INFO_CLEAR and not INFO_TEST.match(c)
                                   and ((len(req) > 1 and terms(c) & set().union(*[terms(a) for a in req])) or c.startswith('not('))]
                            if nar:
                                narrowed = (row, nar)
                                continue
                            hit = row
                            break
                        wrongcode = (kk, row)
                if hit is None and narrowed is not None:
                    chk.violate('R2.c', '%s:narrowed:%d:%s' % (f.name, k, '&&'.join(req)), loc(f, narrowed[0]['node']), f.name,
                                'documented precondition `%s` (-> info = -%d) is only screened under the enclosing guard %s, which restricts a '
                                'quantity the precondition itself ranges over: outside that guard the illegal combination is accepted'
                                % (' && '.join(req), k, ' && '.join(narrowed[1])), cfgname=cfgname)
                    continue
                inst = '%s:%d:%s' % (f.name, k, ' && '.join(req))
                if hit is not None:
                    chk.ok('R2.c', inst, sample='-> info = -%d' % k)
                elif wrongcode is not None:
                    chk.violate('R2.c', '%s:wrong-code:%d:%s' % (f.name, k, '&&'.join(req)), loc(f, wrongcode[1]['node']), f.name,
                                'documented precondition violated by `%s` must yield info = -%d (argument %s) but yields -%d'
                                % (' && '.join(req), k, f.params[k - 1][0], wrongcode[0]), cfgname=cfgname)
                else:
                    chk.violate('R2.c', '%s:unchecked:%d:%s' % (f.name, k, '&&'.join(req)), loc(f, t.errblock), f.name,
                                'documented precondition is not screened: `%s` should yield info = -%d (argument %s)'
                                % (' && '.join(req), k, f.params[k - 1][0]), cfgname=cfgname)
            # (r) nothing leaves the routine before the screening has run
            early = [x for st_ in t.region for x in st_.walk() if x.k == 'Return']
            if early:
                chk.violate('R2.g', '%s:return-before-the-screening' % f.name, loc(f, early[0]), f.name,
                            'a `return` (line %d) precedes the argument tests: for the inputs that take it (a quick return on an empty dimension) no argument is '
                            'screened and an illegal one is answered with info = 0' % early[0].line, cfgname=cfgname)
            # (p) precedence
            nst, over = r2.precedence(prog, f, t)
            if nst == 0:
                raise AnalysisBroken('C18: no code store found on the CFG of %s' % f.name)
            if not over:
                chk.ok('R2.p', f.name, sample='%d code stores, each reached only with info still 0' % nst)
            for (st, first) in over[:2]:
                chk.violate('R2.p', '%s:overwrite:%s' % (f.name, pretty(st)[:40].replace(' ', '')), loc(f, st), f.name,
                            '`%s` (line %d) is reachable after `%s` (line %d) has already recorded an illegal argument: the later test '
                            'overwrites the code of the first illegal argument' % (pretty(st), st.line, pretty(first), first.line), cfgname=cfgname)
            # (e) inert error exit
            inert(chk, prog, eff, f, t, cfgname)
        if len(seen) < 36:
            raise AnalysisBroken('C18: %d screening routines found, floor 36 (missing: %s)' % (
                len(seen), sorted({p + fam if not fam.startswith('sp_') else 'sp_' + p + fam[3:] for p in 'sdcz' for fam in FAMILIES} - seen)))
        chk.floor('R2.c', 150 * (cfgs.index(cfgname) + 1), '(oracle rows)')
        # (f) siblings
        dunits = set()
        for p in 'dz':
            dunits |= {p + 'gssv.c', p + 'gssvx.c', p + 'gsisx.c', p + 'gstrs.c', p + 'gsrfs.c', p + 'gscon.c', p + 'gsequ.c', p + 'sp_blas2.c'}
        if cfgname == 'tested':
            r9_sibling.run(chk, prog, 'R9', dunits, cfgname)
    return chk.finish()


INFO_CLEAR = {'(*$info == 0)', '(*info == 0)', '(info == 0)'}


INFO_NZ = re.compile(r'^\(\*?(\$\d+|info) != 0\)$')
INFO_TEST = re.compile(r'^\(\*?(\$\d+|info) == 0\)$')


def terms(atom):
    return set(re.findall(r'\$\d+(?:->\w+)*', atom))


def ctx_implied(reqset):
    return ()


def inert(chk, prog, eff, f, t, cfgname):
    pnames = {pid: name for (name, pid, _) in f.params}
    prot = {pid for (name, pid, _) in f.params if name in PROTECTED}
    der = eff.derived(f)   # var id -> param indices
    pidx = {pid: i for i, (_, pid, _) in enumerate(f.params)}
    protidx = {pidx[p] for p in prot}
    stmts = list(t.region) + [t.errblock]
    bad = []
    nobl = 0
    for s in stmts:
        for n in s.walk():
            if n.k == 'Assign' or (n.k == 'Unary' and n.a['op'] in ('++', '--')):
                lv = strip(n.c[0])
                if lv.k == 'Ref':
                    continue
                nobl += 1
                r = root_ref(lv)
                roots = der.get(r.a.get('id'), set()) if r is not None else set()
                hit = roots & protidx
                if hit:
                    bad.append((n, 'store `%s` through protected argument %s' % (pretty(n)[:80], [f.params[i][0] for i in sorted(hit)])))
            elif n.k == 'Call':
                name = callee_name(n)
                nobl += 1
                if name in r2.ALLOCATORS:
                    bad.append((n, 'allocation `%s` before the argument screening has returned' % name))
                    continue
                tgt = prog.resolve(name, f.unit) if name else None
                args = n.c[1:]
                if tgt is not None:
                    wr = eff.summary.get((tgt.unit, tgt.name), set())
                elif name is not None:
                    wr = external_writes(name, len(args))
                    wr = range(len(args)) if wr is None else wr
                else:
                    wr = range(len(args))
                for i in wr:
                    if i < len(args):
                        r = root_ref(args[i])
                        roots = der.get(r.a.get('id'), set()) if r is not None else set()
                        hit = roots & protidx
                        if hit:
                            bad.append((n, 'call `%s` may write through protected argument %s' % (name, [f.params[j][0] for j in sorted(hit)])))
                # transitively allocating callees
                if tgt is not None and allocates(prog, tgt):
                    bad.append((n, 'call to `%s`, which allocates, before the argument screening has returned' % name))
    if not bad:
        chk.ok('R2.e', f.name, sample='%d stores/calls before the error return, none touches a protected argument or allocates' % nobl)
    for (n, what) in bad[:3]:
        chk.violate('R2.e', '%s:%s' % (f.name, re.sub(r'\s+', '_', what)[:90]), loc(f, n), f.name, 'error exit not inert: ' + what, cfgname=cfgname)


_alloc_memo = {}


def allocates(prog, f, depth=0):
    key = (f.unit, f.name)
    if key in _alloc_memo:
        return _alloc_memo[key]
    _alloc_memo[key] = False
    res = False
    for (name, n, tgt, direct) in prog.callees(f):
        if name in r2.ALLOCATORS or name in ('superlu_malloc', 'malloc'):
            res = True
            break
        if tgt is not None and depth < 8 and allocates(prog, tgt, depth + 1):
            res = True
            break
    _alloc_memo[key] = res
    return res
