"""In-place list consumption hazard (MC64).

MC64's matching routines keep three things in one integer work array q[1..n]: a binary heap growing up from q[1], the set Q2 growing down from
q[n], and - in the first pass over an unmatched column - a temporary list of entry positions.  A loop that *consumes* q as a list
(reads q[v] with v its own counter) while the same loop also stores into q at some other index, or hands q to the heap routines, can
overwrite entries it has not read yet: nothing bounds |heap| + |Q2| + unread entries by n.  (On the pinned tree this happened in mc64wd_ for
columns with several rows tying at the minimum; fixed in ec00b50.)  The rule: no counting loop over v both reads ARR[v] and writes ARR
(directly at an index other than v, or through a callee that may write it), for the work arrays of the MC64 kernels."""
from ..facts import strip, callee_name, loc, root_ref
from ..ir import pretty

HEAP_ROUTINES = {'mc64dd_', 'mc64ed_', 'mc64fd_'}


def run(chk, cid, prog, cfgname, unit='SRC/mc64ad.c', arrays=('q',)):
    chk.clause(cid, 'a loop that consumes a work array as a list does not write that array')
    n = 0
    for f in prog.all_funcs():
        if f.unit != unit:
            continue
        ids = {nm: i for (nm, i, t) in f.params}
        for arr in arrays:
            if arr not in ids:
                continue
            aid = ids[arr]
            chk.saw(unit=f.unit, func=f.unit + ':' + f.name)
            for lp in f.body.walk():
                if lp.k != 'For':
                    continue
                init = strip(lp.c[0])
                if not (init.k == 'Assign' and strip(init.c[0]).k == 'Ref'):
                    continue
                v = strip(init.c[0]).a.get('id')
                body = lp.c[3]
                reads = [x for x in body.walk() if x.k == 'Index' and strip(x.c[0]).k == 'Ref' and strip(x.c[0]).a.get('id') == aid
                         and strip(x.c[1]).k == 'Ref' and strip(x.c[1]).a.get('id') == v]
                lhs = set()
                for x in body.walk():
                    if x.k == 'Assign':
                        for y in x.c[0].walk():
                            lhs.add(id(y))
                reads = [x for x in reads if id(x) not in lhs]
                if not reads:
                    continue
                n += 1
                writes = []
                for x in body.walk():
                    if x.k == 'Assign' and strip(x.c[0]).k == 'Index' and strip(strip(x.c[0]).c[0]).k == 'Ref' and strip(strip(x.c[0]).c[0]).a.get('id') == aid:
                        sub = strip(strip(x.c[0]).c[1])
                        if not (sub.k == 'Ref' and sub.a.get('id') == v):
                            writes.append(x)
                    if x.k == 'Call' and callee_name(x) in HEAP_ROUTINES:
                        if any(root_ref(a) is not None and root_ref(a).a.get('id') == aid for a in x.c[1:]):
                            writes.append(x)
                inst = '%s:list-loop@%s[%s]:%d' % (f.name, arr, strip(init.c[0]).a.get('name'), n)
                if not writes:
                    chk.ok(cid, inst, sample='reads %s, no store into %s[] inside the loop' % (pretty(reads[0]), arr))
                else:
                    chk.violate(cid, inst, loc(f, writes[0]), f.name,
                                'the loop at line %d reads `%s` as a list while `%s` in the same loop stores into %s[]: the heap (from the front) and Q2 (from the '
                                'back) grow inside the same array and can overwrite entries that have not been read yet'
                                % (lp.line, pretty(reads[0]), pretty(writes[0])[:50], arr), cfgname=cfgname)
    if n < 4:
        from ..run import AnalysisBroken
        raise AnalysisBroken('inplace: %d list-consuming loops over the MC64 work arrays found, floor 4' % n)
    return n


def match_count_rule(chk, cid, prog, cfgname, fname='mc64wd_'):
    """*num counts matched columns; mc64ad_ reports a structurally singular matrix exactly when *num < n.  Inside the shortest-augmenting-path
    loop the counter may therefore be advanced only on the path where a path was found: every `++(*num)` in that loop must be cut off from
    the `csp == rinf` test by its false edge (csp != rinf)."""
    from ..facts import const_value
    chk.clause(cid, 'the match counter advances only after an augmenting path was found')
    f = prog.func(fname)
    if f is None:
        from ..run import AnalysisBroken
        raise AnalysisBroken('%s not found' % fname)
    chk.saw(unit=f.unit, func=f.unit + ':' + f.name)
    ids = {nm: i for (nm, i, t) in f.params}
    cfg = prog.cfg(f)
    numid = ids.get('num')
    conds = []
    incs = []
    for cn in cfg.nodes:
        if cn.ast is None:
            continue
        if cn.kind == 'cond':
            c = strip(cn.ast)
            if c.k == 'Binary' and c.a['op'] == '==' and {strip(c.c[0]).a.get('name'), strip(c.c[1]).a.get('name')} == {'csp', 'rinf'}:
                conds.append(cn)
        if cn.kind == 'stmt':
            for x in cn.ast.walk():
                if x.k == 'Unary' and x.a['op'] in ('++', 'post++'):
                    t = strip(x.c[0])
                    if t.k == 'Unary' and t.a['op'] == '*' and strip(t.c[0]).k == 'Ref' and strip(t.c[0]).a.get('id') == numid:
                        incs.append(cn)
    if len(conds) != 1 or not incs:
        from ..run import AnalysisBroken
        raise AnalysisBroken('%s: `csp == rinf` test (%d) / increments of *num (%d) not found as expected' % (fname, len(conds), len(incs)))
    C = conds[0]
    # increments that belong to the augmenting loop: the ones from which C can be reached again (same loop) or that C reaches
    def reach(src, avoid_edge=None):
        seen = set()
        st = [src]
        while st:
            q = st.pop()
            if q in seen:
                continue
            seen.add(q)
            for (s, lab) in cfg.nodes[q].succ:
                if avoid_edge is not None and q == avoid_edge[0] and lab == avoid_edge[1]:
                    continue
                st.append(s)
        return seen
    from_c_any = reach(C.id)
    from_c_true_only = reach(C.id, avoid_edge=(C.id, False))
    n = 0
    for N in incs:
        to_c = C.id in reach(N.id)
        if not (to_c and N.id in from_c_any):
            continue        # the greedy initial matching before the main loop
        n += 1
        inst = '%s:num-advanced-after-success@%d' % (fname, n)
        # violation: N is reachable from C without taking the false edge *before* coming back to C, or N lies on a path into C from the loop head
        bad_after = N.id in _reach_until(cfg, C.id, stop=C.id, avoid_edge=(C.id, False))
        bad_before = not _must_pass_edge(cfg, C, N)
        if bad_after or bad_before:
            chk.violate(cid, inst, loc(f, N.ast), fname,
                        '`%s` is executed in the augmenting loop on a path that does not come from the false edge of `csp == rinf`: a failed search is counted as a '
                        'match, *num reaches n and a structurally singular matrix is reported as success' % pretty(N.ast)[:30], cfgname=cfgname)
        else:
            chk.ok(cid, inst, sample='%s only behind csp != rinf' % pretty(N.ast)[:30])
    if n < 1:
        from ..run import AnalysisBroken
        raise AnalysisBroken('%s: no increment of *num inside the augmenting loop' % fname)
    return n


def _reach_until(cfg, src, stop, avoid_edge):
    """nodes reachable from src without traversing avoid_edge and without passing through `stop` again"""
    seen = set()
    st = [s for (s, lab) in cfg.nodes[src].succ if not (src == avoid_edge[0] and lab == avoid_edge[1])]
    while st:
        q = st.pop()
        if q in seen or q == stop:
            continue
        seen.add(q)
        st.extend(s for (s, _) in cfg.nodes[q].succ)
    return seen


def _must_pass_edge(cfg, C, N):
    """every path from the function entry to N whose last visit of the loop ... simplified: N is not reachable from entry when C's false edge is removed"""
    seen = set()
    st = [cfg.entry.id]
    while st:
        q = st.pop()
        if q in seen:
            continue
        seen.add(q)
        for (s, lab) in cfg.nodes[q].succ:
            if q == C.id and lab is False:
                continue
            st.append(s)
    return N.id not in seen
