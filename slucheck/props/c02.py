"""C02 Factors reproduce the permuted matrix; pivoting bounds hold  —  pivot rule, perm_r discipline, inverse permutations, R9 + twins."""
from ..facts import Program
from ..run import Check, AnalysisBroken
from ..rules import pivot, factor_tail, r9_sibling, r7_perm, r11_kinds, kernels, misc
from . import _drv

R9_UNITS = ['gstrf.c', 'pivotL.c', 'panel_dfs.c', 'column_dfs.c', 'snode_dfs.c', 'pruneL.c', 'column_bmod.c', 'panel_bmod.c', 'snode_bmod.c', 'copy_to_ucol.c',
            'myblas2.c']
TWINS = [('SRC/relax_snode.c', 'relax_snode', 'SRC/ilu_relax_snode.c', 'ilu_relax_snode', 'ext'),
         ('SRC/heap_relax_snode.c', 'heap_relax_snode', 'SRC/ilu_heap_relax_snode.c', 'ilu_heap_relax_snode', 'ext'),
         ('SRC/util.c', 'countnz', 'SRC/util.c', 'ilu_countnz', 'ext')]


def run(tier):
    chk = Check('C02', tier, level='other')
    chk.explanation = (
        'Pivot rule of ?pivotL (4 types): the position that reaches the row interchange is the arg-max of the magnitude scan, or the '
        'remembered pivot, or the diagonal, and the latter two only under `mag != 0 && mag >= u * max` of their own entry (non-strict, '
        'against the threshold variable defined as u * max) - hence every multiplier is bounded by 1/u and the diagonal is preferred '
        'whenever it passes; a failed remembered pivot clears *usepr; magnitudes are fabs / ?_abs1. perm_r: filled with SLU_EMPTY before '
        'the loop, written once in ?pivotL as perm_r[*pivrow] = jcol, completed for still-empty rows after the loop; iperm_c / iperm_r are '
        'built as inverses and written nowhere else. R9: s=d, c=z agreement of the 11 factorization kernels; twin agreement of '
        'relax_snode / heap_relax_snode / countnz with their ILU copies (the only static handle on the symbolic phase). Not decided: '
        'Pr*A*Pc = L*U within the rounding bound; non-zero U diagonal as a numerical fact; bijectivity of perm_c from the orderings.')
    cfgs = ['tested'] if tier == 'quick' else ['tested', 'cblas', 'idx64']
    chk.configs = cfgs
    for cfgname in cfgs:
        prog = Program.load(which=('SRC',), cfg=cfgname)
        from ..rules import symbolic as _sym
        _sym.dfs_twin_rule(chk, 'C02.dfs', prog, [q + 'column_dfs' for q in 'sdcz'], cfgname)
        chk.clause('C02.D1', 'pivot rule of ?pivotL')
        chk.clause('C02.D2', 'perm_r discipline and inverse permutations in ?gstrf')
        r11_kinds.run(chk, 'C02.kinds', prog, cfgname, floor=1900)
        kernels.run_factor(chk, 'C02.kern', prog, cfgname)
        from ..rules import r5_grow as _r5
        _r5.run(chk, 'R5', prog, cfgname)
        from ..rules import r12_supernodal
        chk.clause('C02.kern.index', 'abstract interpretation of the supernodal update kernels in a polynomial index domain: every access to the supernode block is the entry the algebra needs')
        for _p in 'ds':
            r12_supernodal.run(chk, 'C02.kern.index', prog, _p, cfgname)
            r12_supernodal.run_snode(chk, 'C02.kern.index', prog, _p, cfgname)
        chk.clause('C02.options', 'option-controlled choices of ?gstrf / ?gsitrf (relaxation routine, use of remembered pivots)')
        for _p in _drv.PRECS:
            misc.option_choice_rules(chk, 'C02.options', prog, _p, cfgname)
        from . import c09
        c09.init_rule(chk, prog, cid='C02.init')
        n1 = n2 = 0
        for p in _drv.PRECS:
            n1 += pivot.run(chk, 'C02.D1', prog, p, cfgname)
            pivot.pivrow_in_sync_rule(chk, 'C02.D1', prog, p, cfgname)
            n2 += factor_tail.run(chk, 'C02.D2', prog, p, cfgname)
            f = prog.func(p + 'gstrf')
            r7_perm.check_inverse(chk, 'C02.D2', f, 'iperm_c', 'perm_c', cfgname)
            r7_perm.check_inverse(chk, 'C02.D2', f, 'iperm_r', 'perm_r', cfgname)
        if n1 < 36 or n2 < 40:
            raise AnalysisBroken('C02: instance floors not met (%d, %d)' % (n1, n2))
        # the expert driver may recompute the column order only for a fresh factorization: with Fact = SamePattern* the elimination tree of the
        # first call is reused, and a new perm_c no longer matches it (relaxed supernodes from the wrong tree, perm_r not a bijection)
        from . import _gssvx, _expert
        from ..rules.effects import PathEffects as _PE
        _eff = _PE(prog)
        chk.clause('C02.phases', 'R3 oracle group `phases` of ?gssvx')
        for p in _drv.PRECS:
            f2, fl2, leaves2 = _gssvx.leaves_for(prog, _eff, p, ilu=False, tier=tier, split=('Fact', 'ColPerm', 'A.Stype', 'Equil', 'info', 'lwork'))
            _expert.run_leaf_groups(chk, 'C02', _expert.Ctx(prog, f2, fl2, p, False), leaves2, ('phases',), cfgname)
        if cfgname in ('tested', 'cblas'):
            r9_sibling.run(chk, prog, 'C02.D3', {p + u for p in 'dz' for u in R9_UNITS}, cfgname)
        r9_sibling.run_twins(chk, prog, 'C02.twins', TWINS, cfgname)
    return chk.finish()
