"""In-place list consumption hazard (MC64).

MC64's matching routines keep three things in one integer work array q[1..n]: a binary heap growing up from q[1], the set Q2 growing down from
q[n], and - in the first pass over an unmatched column - a temporary list of entry positions.  A loop that *consumes* q as a list
(reads q[v] with v its own counter) while the same loop also stores into q at some other index, or hands q to the heap routines, can
overwrite entries it has not read yet: nothing bounds |heap| + |Q2| + unread entries by n.  (On the pinned tree this happened in mc64wd_ for
columns with several rows tying at the minimum; fixed in ec00b50.)  The rule: no counting loop over v both reads ARR[v] and writes ARR
(directly at an index other than v, or through a callee that may write it), for the work arrays of the MC64 kernels."""
from ..facts import strip, callee_name, loc, root_ref
from ..ir import pretty

HEAP_ROUTINES = {'mc64dd_', 'mc64ed_', 'mc64fd_'}


def run(chk, cid, prog, cfgname, unit='SRC/mc64ad.c', arrays=('q',)):
    chk.clause(cid, 'a loop that consumes a work array as a list does not write that array')
    n = 0
    for f in prog.all_funcs():
        if f.unit != unit:
            continue
        ids = {nm: i for (nm, i, t) in f.params}
        for arr in arrays:
            if arr not in ids:
                continue
            aid = ids[arr]
            chk.saw(unit=f.unit, func=f.unit + ':' + f.name)
            for lp in f.body.walk():
                if lp.k != 'For':
                    continue
                init = strip(lp.c[0])
                if not (init.k == 'Assign' and strip(init.c[0]).k == 'Ref'):
                    continue
                v = strip(init.c[0]).a.get('id')
                body = lp.c[3]
                reads = [x for x in body.walk() if x.k == 'Index' and strip(x.c[0]).k == 'Ref' and strip(x.c[0]).a.get('id') == aid
                         and strip(x.c[1]).k == 'Ref' and strip(x.c[1]).a.get('id') == v]
                lhs = set()
                for x in body.walk():
                    if x.k == 'Assign':
                        for y in x.c[0].walk():
                            lhs.add(id(y))
                reads = [x for x in reads if id(x) not in lhs]
                if not reads:
                    continue
                n += 1
                writes = []
                for x in body.walk():
                    if x.k == 'Assign' and strip(x.c[0]).k == 'Index' and strip(strip(x.c[0]).c[0]).k == 'Ref' and strip(strip(x.c[0]).c[0]).a.get('id') == aid:
                        sub = strip(strip(x.c[0]).c[1])
                        if not (sub.k == 'Ref' and sub.a.get('id') == v):
                            writes.append(x)
                    if x.k == 'Call' and callee_name(x) in HEAP_ROUTINES:
                        if any(root_ref(a) is not None and root_ref(a).a.get('id') == aid for a in x.c[1:]):
                            writes.append(x)
                inst = '%s:list-loop@%s[%s]:%d' % (f.name, arr, strip(init.c[0]).a.get('name'), n)
                if not writes:
                    chk.ok(cid, inst, sample='reads %s, no store into %s[] inside the loop' % (pretty(reads[0]), arr))
                else:
                    chk.violate(cid, inst, loc(f, writes[0]), f.name,
                                'the loop at line %d reads `%s` as a list while `%s` in the same loop stores into %s[]: the heap (from the front) and Q2 (from the '
                                'back) grow inside the same array and can overwrite entries that have not been read yet'
                                % (lp.line, pretty(reads[0]), pretty(writes[0])[:50], arr), cfgname=cfgname)
    if n < 4:
        from ..run import AnalysisBroken
        raise AnalysisBroken('inplace: %d list-consuming loops over the MC64 work arrays found, floor 4' % n)
    return n
