"""R10 obligations over PathEffects: may-write subset of allowed, must-not-read."""
from ..facts import loc


def maywrite(chk, cid, prog, peff, fname, allowed, cfgname='tested', unit=None):
    """allowed: param name -> iterable of path prefixes that may be written ('' = anything below the parameter).
    Parameters not listed must not be written through at all."""
    f = prog.func(fname, unit)
    if f is None:
        from ..run import AnalysisBroken
        raise AnalysisBroken('%s not found' % fname)
    chk.saw(unit=f.unit, func=f.unit + ':' + f.name)
    W = peff.writes.get((f.unit, f.name), {})
    bad = []
    for i, (name, pid, t) in enumerate(f.params):
        ws = W.get(i, set())
        if not ws:
            continue
        al = allowed.get(name)
        for w in sorted(ws):
            if al is None or not any(w.startswith(a) for a in al):
                bad.append((name, w))
    if bad:
        for (name, w) in bad[:4]:
            chk.violate(cid, '%s:writes:%s%s' % (f.name, name, w), loc(f, f.body), f.name,
                        '%s (or a routine it calls) may write %s%s, which the documented contract does not allow (allowed: %s)'
                        % (f.name, name, w, {k: sorted(v) for k, v in allowed.items()}), cfgname=cfgname)
    else:
        chk.ok(cid, f.name, sample='may-write set %s' % {f.params[i][0]: sorted(v) for i, v in W.items()})
    return 1


def mustnotread(chk, cid, prog, peff, fname, forbidden_substr, cfgname='tested', unit=None, why=''):
    f = prog.func(fname, unit)
    if f is None:
        from ..run import AnalysisBroken
        raise AnalysisBroken('%s not found' % fname)
    chk.saw(unit=f.unit, func=f.unit + ':' + f.name)
    R = peff.reads.get((f.unit, f.name), {})
    bad = [(f.params[i][0], s) for i, v in R.items() for s in v if forbidden_substr in s]
    if bad:
        chk.violate(cid, '%s:reads:%s%s' % (f.name, bad[0][0], bad[0][1]), loc(f, f.body), f.name,
                    '%s (or a routine it calls) may read %s%s %s' % (f.name, bad[0][0], bad[0][1], why), cfgname=cfgname)
    else:
        chk.ok(cid, f.name, sample='no read of *%s*' % forbidden_substr)
    return 1
