"""Pivot rule of ?pivotL (C02.D1, C04.D1): which definitions of the pivot position can reach the row interchange, and
under which tests.  Roles (max variable, threshold, pivot position) are discovered from the code, not named."""
from ..facts import strip, callee_name, const_value, loc, root_ref, canon
from ..ir import pretty
from . import r2_argcheck as r2


def fzero(e):
    e = strip(e)
    return (e.k == 'Float' and float(e.a['value']) == 0.0) or (e.k == 'Int' and e.a['value'] == 0)


def pname(f, i):
    return f.params[i][1] if i < len(f.params) else None


def param_id(f, name):
    for (n, i, t) in f.params:
        if n == name:
            return i
    return None


class Roles(object):
    pass


def walk_guarded(node, guards, out, blocks):
    """yield (stmt, [(cond, polarity)], enclosing block statement lists) for every statement"""
    if node.k == 'Block':
        for i, s in enumerate(node.c):
            walk_guarded(s, guards, out, blocks + [(node, i)])
        return
    out.append((node, list(guards), list(blocks)))
    if node.k == 'If':
        walk_guarded(node.c[1], guards + [(node.c[0], True)], out, blocks)
        if len(node.c) > 2:
            walk_guarded(node.c[2], guards + [(node.c[0], False)], out, blocks)
    elif node.k in ('For', 'While', 'Do'):
        body = node.c[3] if node.k == 'For' else (node.c[1] if node.k == 'While' else node.c[0])
        walk_guarded(body, guards + [(node, None)], out, blocks)


def run(chk, cid, prog, p, cfgname, ilu=False):
    f = prog.func(('ilu_' if ilu else '') + p + 'pivotL')
    if f is None:
        from ..run import AnalysisBroken
        raise AnalysisBroken('%spivotL not found' % p)
    chk.saw(unit=f.unit, func=f.unit + ':' + f.name)
    stmts = []
    walk_guarded(f.body, [], stmts, [])
    mag_ok = {'s': {'fabs', 'fabsf'}, 'd': {'fabs'}, 'c': {'c_abs1'}, 'z': {'z_abs1'}}[p]
    ids = {n: i for (n, i, t) in f.params}
    jcol, u, usepr, perm_r, pivrow = (ids.get(x) for x in ('jcol', 'u', 'usepr', 'perm_r', 'pivrow'))
    n = 0

    def V(key, node, what):
        chk.violate(cid, '%s:%s' % (f.name, key), loc(f, node), f.name, what, cfgname=cfgname)

    def OK(key, sample=''):
        chk.ok(cid, '%s:%s' % (f.name, key), sample=sample)

    # ---- singular exit: the only non-zero return
    rets = [(s, g) for (s, g, b) in stmts if s.k == 'Return' and s.c]
    nz = [(s, g) for (s, g) in rets if const_value(s.c[0]) != 0]
    M = None
    n += 1
    if len(nz) != 1:
        V('singular-return-unique', f.body, 'expected exactly one non-zero return (the singular column report), found %d' % len(nz))
    else:
        s, g = nz[0]
        r = strip(s.c[0])
        okv = r.k == 'Binary' and r.a['op'] == '+' and strip(r.c[0]).k == 'Ref' and strip(r.c[0]).a.get('id') == jcol and const_value(r.c[1]) == 1
        cond = strip(g[-1][0]) if g and g[-1][1] is True else None
        okc = cond is not None and cond.k == 'Binary' and cond.a['op'] == '==' and strip(cond.c[0]).k == 'Ref' and fzero(cond.c[1])
        if okv and okc:
            M = strip(cond.c[0]).a['id']
            OK('singular-return-unique', 'return jcol+1 under %s' % pretty(cond))
        else:
            V('singular-return-unique', s, 'the singular report must be `return jcol+1` guarded by an exact `max == 0` test; found `%s` under `%s`'
              % (pretty(s), pretty(cond) if cond is not None else 'no test'))
    if M is None:
        return n
    # M is the running maximum of the scan: every assignment to M is either the zero initialisation or `M = R` under `R > M`
    n += 1
    bad = None
    scan_R = None
    for (s, g, b) in stmts:
        if s.k == 'Assign' and strip(s.c[0]).k == 'Ref' and strip(s.c[0]).a.get('id') == M:
            if fzero(s.c[1]) and s.a['op'] == '=':
                continue
            rhs = strip(s.c[1])
            c = strip(g[-1][0]) if g and g[-1][1] is True else None
            if rhs.k == 'Ref' and c is not None and c.k == 'Binary' and c.a['op'] in ('>', '>=') and strip(c.c[0]).k == 'Ref' \
                    and strip(c.c[0]).a['id'] == rhs.a['id'] and strip(c.c[1]).k == 'Ref' and strip(c.c[1]).a['id'] == M:
                scan_R = rhs.a['id']
                continue
            bad = s
    if bad is not None or scan_R is None:
        V('max-is-running-maximum', bad or f.body, 'the variable tested against zero must be the running maximum of the candidate magnitudes')
    else:
        OK('max-is-running-maximum')
    # on the singular path: no store to perm_r, *usepr cleared
    s, g = nz[0]
    sing_if = None
    for (st, gg, bb) in stmts:
        if st.k == 'If' and strip(st.c[0]) is strip(g[-1][0]):
            sing_if = st
    n += 1
    if sing_if is not None:
        body = sing_if.c[1]
        wr = [x for x in body.walk() if x.k == 'Assign' and root_ref(x.c[0]) is not None and root_ref(x.c[0]).a.get('id') == perm_r]
        clr = [x for x in body.walk() if x.k == 'Assign' and strip(x.c[0]).k == 'Unary' and strip(strip(x.c[0]).c[0]).k == 'Ref'
               and strip(strip(x.c[0]).c[0]).a.get('id') == usepr and const_value(x.c[1]) == 0]
        div = [x for x in body.walk() if x.k == 'Binary' and x.a['op'] == '/']
        if wr or div or (usepr is not None and not clr):
            V('singular-path-inert', (wr or div or [body])[0], 'on the singular path perm_r must not be written, nothing divided and *usepr must be cleared')
        else:
            OK('singular-path-inert')
    if ilu:
        return n
    # ---- threshold T = u * M
    T = None
    for (s, g, b) in stmts:
        if s.k == 'Assign' and s.a['op'] == '=' and strip(s.c[0]).k == 'Ref':
            r = strip(s.c[1])
            if r.k == 'Binary' and r.a['op'] == '*':
                a_, b_ = strip(r.c[0]), strip(r.c[1])
                idsx = {a_.a.get('id') if a_.k == 'Ref' else None, b_.a.get('id') if b_.k == 'Ref' else None}
                if idsx == {u, M}:
                    T = strip(s.c[0]).a['id']
    n += 1
    if T is None:
        V('threshold-definition', f.body, 'the pivot threshold must be defined as u * (column maximum)')
        return n
    OK('threshold-definition')
    # ---- pivot position P: subscript used to read the pivot row
    P = None
    for (s, g, b) in stmts:
        if s.k == 'Assign' and s.a['op'] == '=':
            lv = strip(s.c[0])
            if lv.k == 'Unary' and lv.a['op'] == '*' and strip(lv.c[0]).k == 'Ref' and strip(lv.c[0]).a.get('id') == pivrow:
                r = strip(s.c[1])
                if r.k == 'Index' and strip(r.c[1]).k == 'Ref' and strip(r.c[0]).k == 'Ref' and strip(r.c[0]).a.get('dk') == 'VarDecl':
                    P = strip(r.c[1]).a['id']
    n += 1
    if P is None:
        V('pivot-position', f.body, 'could not identify the pivot position (the subscript in *pivrow = rows[position])')
        return n
    OK('pivot-position')

    def last_def(var, blocks, before_stmt):
        """the assignment `var = e` that textually precedes before_stmt in the innermost enclosing statement list that has one"""
        for (blk, idx) in reversed(blocks):
            for st in reversed(blk.c[:idx]):
                if st.k == 'Assign' and st.a['op'] == '=' and strip(st.c[0]).k == 'Ref' and strip(st.c[0]).a.get('id') == var:
                    return st
        return None

    defs = [(s, g, b) for (s, g, b) in stmts if s.k == 'Assign' and strip(s.c[0]).k == 'Ref' and strip(s.c[0]).a.get('id') == P]
    kinds = []
    for (s, g, b) in defs:
        n += 1
        rhs = strip(s.c[1])
        if not g:
            kinds.append('init')
            OK('pivot-def:init', pretty(s))
            continue
        cond, pol = g[-1]
        if pol is None:
            V('pivot-def:unguarded-in-loop', s, 'pivot position assigned unconditionally inside a loop: `%s`' % pretty(s))
            continue
        c = strip(cond)
        # arg-max of the scan
        if pol and c.k == 'Binary' and c.a['op'] in ('>', '>=') and strip(c.c[1]).k == 'Ref' and strip(c.c[1]).a.get('id') == M:
            kinds.append('argmax')
            OK('pivot-def:argmax', pretty(s))
            continue
        # threshold-guarded alternative (remembered pivot or diagonal)
        if pol and rhs.k == 'Ref':
            atoms = r2.dnf(c)
            X = rhs.a['id']
            ok = False
            why = ''
            if len(atoms) == 1:
                conj = atoms[0]
                R = None
                ge = nzt = False
                for (a, pl) in conj:
                    a = strip(a)
                    if pl and a.k == 'Binary' and a.a['op'] == '>=' and strip(a.c[0]).k == 'Ref' and strip(a.c[1]).k == 'Ref' and strip(a.c[1]).a.get('id') == T:
                        ge = True
                        R = strip(a.c[0]).a['id']
                    if pl and a.k == 'Binary' and a.a['op'] == '!=' and fzero(a.c[1]) and strip(a.c[0]).k == 'Ref':
                        nzt = strip(a.c[0]).a['id']
                if ge and nzt == R and R is not None:
                    d = last_def(R, b, s)
                    if d is not None:
                        call = strip(d.c[1])
                        if call.k == 'Call' and callee_name(call) in mag_ok:
                            arg = strip(call.c[1])
                            if arg.k == 'Unary' and arg.a['op'] == '&':
                                arg = strip(arg.c[0])
                            if arg.k == 'Index' and strip(arg.c[1]).k == 'Ref' and strip(arg.c[1]).a.get('id') == X:
                                ok = True
                            else:
                                why = 'the tested magnitude is not that of the candidate `%s`' % rhs.a['name']
                        else:
                            why = 'the tested value is not a magnitude (%s) of the candidate' % sorted(mag_ok)
                    else:
                        why = 'the tested value has no visible definition from the candidate entry'
                else:
                    why = 'the guard must be `mag != 0 && mag >= thresh` (non-strict, against u*max)'
            else:
                why = 'the guard must be a single conjunction'
            if ok:
                kinds.append('threshold:' + rhs.a['name'])
                OK('pivot-def:threshold-guarded', '%s under %s' % (pretty(s), pretty(c)))
            else:
                V('pivot-def:threshold-guard:%s' % rhs.a['name'], s,
                  'candidate `%s` may become the pivot only if its own magnitude is non-zero and >= u * (column maximum): %s; guard is `%s`'
                  % (rhs.a['name'], why, pretty(c)))
            continue
        V('pivot-def:other', s, 'unexpected definition of the pivot position: `%s` under `%s`' % (pretty(s), pretty(c)))
    n += 1
    if len([k for k in kinds if k.startswith('threshold:')]) >= 2 and 'argmax' in kinds:
        OK('pivot-candidates', str(kinds))
    else:
        V('pivot-candidates', f.body, 'expected the arg-max of the scan plus two threshold-guarded alternatives (remembered pivot, diagonal); found %s' % kinds)
    # failed reuse clears *usepr
    n += 1
    okf = False
    for (s, g, b) in stmts:
        if s.k == 'If' and len(s.c) > 2:
            thn = [x for x in s.c[1].walk() if x.k == 'Assign' and strip(x.c[0]).k == 'Ref' and strip(x.c[0]).a.get('id') == P]
            els = [x for x in s.c[2].walk() if x.k == 'Assign' and strip(x.c[0]).k == 'Unary' and strip(strip(x.c[0]).c[0]).k == 'Ref'
                   and strip(strip(x.c[0]).c[0]).a.get('id') == usepr and const_value(x.c[1]) == 0]
            if thn and els:
                okf = True
    if okf:
        OK('failed-reuse-falls-back')
    else:
        V('failed-reuse-falls-back', f.body, 'when the remembered pivot fails the threshold test *usepr must be cleared so that threshold pivoting takes over')
    # exactly one store into perm_r: perm_r[*pivrow] = jcol
    n += 1
    pst = [s for (s, g, b) in stmts if s.k == 'Assign' and root_ref(s.c[0]) is not None and root_ref(s.c[0]).a.get('id') == perm_r and strip(s.c[0]).k != 'Ref']
    okp = len(pst) == 1 and strip(pst[0].c[1]).k == 'Ref' and strip(pst[0].c[1]).a.get('id') == jcol and strip(pst[0].c[0]).k == 'Index' \
        and canon(strip(pst[0].c[0]).c[1], ids=False) == '(*pivrow)'
    if okp:
        OK('perm_r-recorded-once', pretty(pst[0]))
    else:
        V('perm_r-recorded-once', (pst or [f.body])[0], 'perm_r must be written exactly once, as perm_r[*pivrow] = jcol')
    # the position of the remembered pivot row is only valid when the scan found that row: the variable must start from an invalid marker and be tested
    # against it before it is used (it defaulted to the first candidate on the pinned tree: repaired in 66b46a4)
    oldp = None
    for (s2, g, b) in stmts:
        if s2.k == 'Assign' and s2.a['op'] == '=' and strip(s2.c[0]).k == 'Ref' and g and any('pivrow' in pretty(c[0]) for c in g if c[1] is True):
            if strip(s2.c[1]).k == 'Ref':
                oldp = strip(s2.c[0]).a['id']
    if oldp is not None:
        n += 1
        inits = [s2 for (s2, g, b) in stmts if s2.k == 'Assign' and s2.a['op'] == '=' and strip(s2.c[0]).k == 'Ref' and strip(s2.c[0]).a.get('id') == oldp
                 and const_value(s2.c[1]) is not None]
        tests = [x for x in f.body.walk() if x.k == 'Binary' and x.a['op'] in ('==', '!=', '<', '>=') and strip(x.c[0]).k == 'Ref' and strip(x.c[0]).a.get('id') == oldp
                 and const_value(x.c[1]) is not None]
        okp = len(inits) == 1 and const_value(inits[0].c[1]) < 0 and bool(tests)
        if okp:
            OK('remembered-position-validated', 'starts at %s, tested by `%s`' % (pretty(inits[0].c[1]), pretty(tests[0])))
        else:
            V('remembered-position-validated', (inits or [f.body])[0],
              'the position of the remembered pivot row must start from an invalid marker (SLU_EMPTY) and be tested against it before use: when the row does not '
              'occur in this column the remembered pivots have to be abandoned, not replaced by whatever candidate the default points to')
    return n


def pivrow_in_sync_rule(chk, cid, prog, p, cfgname, ilu=False):
    """?pivotL keeps the chosen pivot twice: `pivptr` (its position in the supernode's row list, used for the row interchange and the scaling)
    and `*pivrow` (its row number, recorded in perm_r and handed back to ?gstrf).  They must name the same row when `perm_r[*pivrow] = jcol` is
    executed, otherwise perm_r records one row while another is moved to the diagonal.  Dataflow over the CFG with the pairs
    (in sync?, *usepr known true / false / unknown): `*pivrow = lsub_ptr[pivptr]` and `pivptr = old_pivptr` (old_pivptr is by construction the
    position of the remembered row *pivrow) establish the agreement, any other assignment to pivptr or *pivrow destroys it; tests of *usepr
    split the state, so the block that is skipped when the remembered pivot is kept is not a false path."""
    from ..run import AnalysisBroken
    f = prog.func(('ilu_' if ilu else '') + p + 'pivotL')
    if f is None:
        raise AnalysisBroken('%spivotL not found' % p)
    chk.saw(unit=f.unit, func=f.unit + ':' + f.name)
    ids = {n_: i for (n_, i, t) in f.params}
    usepr, pivrow, perm_r = ids.get('usepr'), ids.get('pivrow'), ids.get('perm_r')
    pivptr = next((vid for vid, v in f.locals.items() if v.a.get('name') == 'pivptr'), None)
    oldp = next((vid for vid, v in f.locals.items() if v.a.get('name') == 'old_pivptr'), None)
    if None in (usepr, pivrow, perm_r, pivptr, oldp):
        raise AnalysisBroken('%s: usepr / pivrow / perm_r / pivptr / old_pivptr not found' % f.name)
    cfg = prog.cfg(f)

    def deref(e, pid):
        e = strip(e)
        return e.k == 'Unary' and e.a['op'] == '*' and strip(e.c[0]).k == 'Ref' and strip(e.c[0]).a.get('id') == pid

    def is_var(e, vid):
        e = strip(e)
        return e.k == 'Ref' and e.a.get('id') == vid

    def transfer(ast, st):
        out = set()
        for (sync, up) in st:
            for x in _post_order(ast):
                if x.k != 'Assign' or x.a['op'] != '=':
                    continue
                lhs, rhs = x.c[0], strip(x.c[1])
                if is_var(lhs, pivptr):
                    sync = is_var(rhs, oldp)
                elif deref(lhs, pivrow):
                    sync = rhs.k == 'Index' and any(is_var(y, pivptr) or (y.k == 'Assign' and is_var(y.c[0], pivptr)) for y in rhs.c[1].walk())
                elif deref(lhs, usepr):
                    v = const_value(rhs)
                    up = 'F' if v == 0 else ('T' if v is not None else '?')
            out.add((sync, up))
        return frozenset(out)

    def usepr_test(ast):
        """+1: true edge means *usepr != 0; -1: true edge means *usepr == 0; 0: no test of *usepr"""
        c = strip(ast)
        if deref(c, usepr):
            return 1
        if c.k == 'Binary' and c.a['op'] in ('==', '!=') and deref(c.c[0], usepr) and const_value(c.c[1]) == 0:
            return -1 if c.a['op'] == '==' else 1
        return 0
    IN = {cfg.entry.id: frozenset([(False, '?')])}
    work = [cfg.entry.id]
    stores = []
    while work:
        nid = work.pop()
        node = cfg.nodes[nid]
        st = IN[nid]
        if node.ast is not None and node.kind in ('stmt', 'cond', 'return'):
            st2 = transfer(node.ast, st)
        else:
            st2 = st
        t = usepr_test(node.ast) if (node.kind == 'cond' and node.ast is not None) else 0
        for (s_, lab) in node.succ:
            out = st2
            if t and lab in (True, False):
                want_true = (lab is True) == (t == 1)
                out = frozenset((sy, 'T' if want_true else 'F') for (sy, up) in st2 if up in ('?', 'T' if want_true else 'F'))
                if not out:
                    continue
            if s_ not in IN:
                IN[s_] = out
                work.append(s_)
            elif not out <= IN[s_]:
                IN[s_] = IN[s_] | out
                work.append(s_)
    n = 0
    for node in cfg.nodes:
        if node.ast is None or node.kind != 'stmt' or node.id not in IN:
            continue
        for x in node.ast.walk():
            if x.k == 'Assign' and strip(x.c[0]).k == 'Index' and is_var(strip(x.c[0]).c[0], perm_r) and deref(strip(x.c[0]).c[1], pivrow):
                # state just before this statement (the store itself does not touch pivptr / *pivrow)
                n += 1
                inst = '%s:perm_r-records-the-row-at-pivptr@%d' % (f.name, n)
                bad = [s_ for s_ in IN[node.id] if not s_[0]]
                pre_sync = _sync_before(x, node, IN[node.id], transfer)
                if pre_sync:
                    chk.ok(cid, inst, sample='`%s`: on every path *pivrow == lsub_ptr[pivptr]' % pretty(x)[:40])
                else:
                    chk.violate(cid, inst, loc(f, x), f.name,
                                '`%s` can be reached with pivptr changed after *pivrow was set (e.g. the diagonal chosen by the threshold test): perm_r then records a '
                                'row other than the one that is moved to the pivot position, so Pr*A*Pc = L*U fails and L lists a wrong row' % pretty(x)[:40],
                                cfgname=cfgname)
    if n < 1:
        raise AnalysisBroken('%s: store perm_r[*pivrow] not found' % f.name)
    return n


def _post_order(e):
    for c in e.c:
        for y in _post_order(c):
            yield y
    yield e


def _sync_before(store, node, st, transfer):
    # statements are CFG nodes of their own: the in-state of the node is the state before the store unless the same statement also assigns
    # *pivrow (`perm_r[*pivrow = ..] = jcol` does not occur); evaluate the statement's own effects first to be safe
    return all(sy for (sy, up) in transfer(node.ast, st)) if any(y.k == 'Assign' and y is not store for y in node.ast.walk()) else all(sy for (sy, up) in st)


def ilu_threshold_guard_rule(chk, cid, prog, p, cfgname):
    """ilu_?pivotL prefers the remembered pivot and then the diagonal when their magnitude passes the threshold u * max.  With u = 0 (a legal
    DiagPivotThresh) the threshold is 0, so the magnitude test alone also accepts an entry that is exactly zero although the column has
    non-zero candidates: U gets a zero on its diagonal and L infinities, with info = 0.  Each assignment `pivptr = old_pivptr` / `pivptr = diag`
    must be guarded by `mag != 0 && mag >= thresh` on the very magnitude variable."""
    from ..run import AnalysisBroken
    f = prog.func('ilu_' + p + 'pivotL')
    if f is None:
        raise AnalysisBroken('ilu_%spivotL not found' % p)
    chk.saw(unit=f.unit, func=f.unit + ':' + f.name)
    n = 0
    for x in f.body.walk():
        if x.k != 'If':
            continue
        th = x.c[1]
        while th.k == 'Block' and len(th.c) == 1:
            th = th.c[0]
        if not (th.k == 'Assign' and strip(th.c[0]).k == 'Ref' and strip(th.c[0]).a.get('name') == 'pivptr' and strip(th.c[1]).k == 'Ref'
                and strip(th.c[1]).a.get('name') in ('old_pivptr', 'diag')):
            continue
        n += 1
        atoms = []

        def conj(e):
            e = strip(e)
            if e.k == 'Binary' and e.a['op'] == '&&':
                conj(e.c[0]); conj(e.c[1])
            else:
                atoms.append(e)
        conj(x.c[0])
        ge = [a for a in atoms if a.k == 'Binary' and a.a['op'] in ('>=', '>') and strip(a.c[0]).k == 'Ref' and strip(a.c[1]).k == 'Ref' and strip(a.c[1]).a.get('name') == 'thresh']
        nz = [a for a in atoms if a.k == 'Binary' and a.a['op'] == '!=' and strip(a.c[0]).k == 'Ref' and fzero(a.c[1])]
        inst = '%s:candidate-%s-needs-nonzero-and-threshold' % (f.name, strip(th.c[1]).a.get('name'))
        if ge and nz and strip(ge[0].c[0]).a.get('id') == strip(nz[0].c[0]).a.get('id'):
            chk.ok(cid, inst, sample=pretty(x.c[0])[:60])
        else:
            chk.violate(cid, inst, loc(f, x), f.name,
                        '`%s` becomes the pivot under `%s`: the guard must be `mag != 0 && mag >= thresh` on its own magnitude - with DiagPivotThresh = 0 the '
                        'threshold is 0 and an exactly zero entry is accepted while the column has non-zero candidates' % (strip(th.c[1]).a.get('name'), pretty(x.c[0])[:60]),
                        cfgname=cfgname)
    if n < 2:
        raise AnalysisBroken('%s: %d guarded pivot candidates found, expected 2' % (f.name, n))
    return n


def ilu_magnitude_twin_rule(chk, cid, prog, p, cfgname):
    """ilu_?pivotL measures a pivot candidate three times - in the scan over all rows, for the remembered pivot and for the diagonal - with a
    `switch (milu)` each: |l + drop_sum| for SMILU_1, |l| (+ drop_sum) for SMILU_2/3, |l| for SILU.  The three switches must agree case by case up
    to the position they look at (isub / old_pivptr / diag): the threshold test compares a candidate measured one way with a maximum measured
    another way otherwise, and a candidate that cancels against drop_sum can be chosen as an exactly zero pivot with info = 0.  Compared with
    the sibling comparer inside the function; the SMILU_2/3 scan case carries its drop_sum outside the switch (added to pivmax after the loop),
    which is the one listed difference."""
    from ..run import AnalysisBroken
    from .r9_sibling import Comparer, Mismatch
    f = prog.func('ilu_' + p + 'pivotL')
    if f is None:
        raise AnalysisBroken('ilu_%spivotL not found' % p)
    chk.saw(unit=f.unit, func=f.unit + ':' + f.name)
    sw = [x for x in f.body.walk() if x.k == 'Switch' and 'milu' in canon(x.c[0], ids=False)
          and any(y.k == 'Assign' and strip(y.c[0]).k == 'Ref' and strip(y.c[0]).a.get('name') == 'rtemp' for y in x.walk())]
    if len(sw) != 3:
        raise AnalysisBroken('%s: %d magnitude switches on milu found, expected 3' % (f.name, len(sw)))

    def cases(s):
        """label text -> the assignment to rtemp that the label reaches"""
        out = {}
        pending = []
        body = s.c[1]
        for st in (body.c if body.k == 'Block' else [body]):
            node = st
            while node.k in ('Case', 'Default'):
                pending.append(canon(node.c[0], ids=False) if node.k == 'Case' else 'default')
                node = node.c[-1]
            for y in node.walk():
                if y.k == 'Assign' and strip(y.c[0]).k == 'Ref' and strip(y.c[0]).a.get('name') == 'rtemp':
                    for lab in pending:
                        out[lab] = y
                    pending = []
                    break
        return out
    c0 = cases(sw[0])
    n = 0
    for k_, other in enumerate(sw[1:], 1):
        ck = cases(other)
        for lab in sorted(c0):
            if lab not in ck:
                continue
            n += 1
            inst = '%s:magnitude-of-%s-agrees-with-the-scan:%s' % (f.name, ('remembered-pivot', 'diagonal')[k_ - 1], lab)
            a, b = c0[lab], ck[lab]
            cmp_ = Comparer(f, f, 'sdcz', None)
            cmp_.ab, cmp_.ba = {}, {}
            okk, why = True, ''
            try:
                cmp_.expr(a.c[1], b.c[1])
            except Mismatch as m:
                okk, why = False, m.why
            if not okk and 'SMILU_2' in lab or (not okk and 'SMILU_3' in lab):
                # the scan adds drop_sum to pivmax after the loop instead: accept `|l|` against `|l| + drop_sum`
                rb = strip(b.c[1])
                if rb.k == 'Binary' and rb.a['op'] == '+':
                    try:
                        cmp2 = Comparer(f, f, 'sdcz', None)
                        cmp2.ab, cmp2.ba = {}, {}
                        cmp2.expr(a.c[1], rb.c[0])
                        okk = any(y.k == 'Assign' and y.a['op'] == '+=' and strip(y.c[0]).k == 'Ref' and strip(y.c[0]).a.get('name') == 'pivmax' for y in f.body.walk())
                    except Mismatch:
                        pass
            if okk:
                chk.ok(cid, inst, sample='`%s` ~ `%s`' % (pretty(a)[:40], pretty(b)[:40]))
            else:
                chk.violate(cid, inst, loc(f, a), f.name,
                            'for %s the scan measures a candidate with `%s` but the %s is measured with `%s` (%s): the threshold test then compares quantities '
                            'measured differently, and a candidate that cancels against drop_sum can become an exactly zero pivot with info = 0'
                            % (lab, pretty(a.c[1])[:40], ('remembered pivot', 'diagonal')[k_ - 1], pretty(b.c[1])[:40], why), cfgname=cfgname)
    if n < 4:
        raise AnalysisBroken('%s: only %d case pairs compared' % (f.name, n))
    return n
