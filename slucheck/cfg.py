"""Statement-level control-flow graph for the C subset used by SuperLU.

Nodes:  entry | stmt (one expression statement or one declaration) | cond (a
branch on an expression; `&&`, `||`, `!` are split into edges) | switch | return
| abort (call that does not return: what ABORT(...) expands to, exit, abort,
__assert_fail) | exit (single sink for return exits).
Edges carry a label: None, True, False, ('case', value) or 'default'.
"""
from .ir import N

NORETURN = {'superlu_abort_and_exit', 'exit', 'abort', '__assert_fail', '_exit'}


class Node(object):
    __slots__ = ('id', 'kind', 'ast', 'succ', 'pred', 'loop')

    def __init__(self, id, kind, ast=None):
        self.id = id
        self.kind = kind
        self.ast = ast
        self.succ = []   # (node id, label)
        self.pred = []   # (node id, label)
        self.loop = 0    # loop nesting depth at creation

    def __repr__(self):
        return '<%d %s>' % (self.id, self.kind)


def calls_in(n):
    for x in n.walk():
        if x.k == 'Call' and x.c and x.c[0].k == 'Ref':
            yield x.c[0].a['name'], x


def is_noreturn_stmt(n):
    for name, _ in calls_in(n):
        if name in NORETURN:
            return True
    return False


class CFG(object):
    def __init__(self, func):
        self.func = func
        self.nodes = []
        self.labels = {}
        self.gotos = []
        self.depth = 0
        self.entry = self.new('entry')
        self.exit = self.new('exit')
        ends = self.stmt(func.body, [(self.entry.id, None)], None, None)
        # falling off the end is a return exit
        if ends:
            r = self.new('return', None)
            self.link(ends, r)
            self.link([(r.id, None)], self.exit)
        for (gid, target) in self.gotos:
            if target in self.labels:
                self.link([(gid, None)], self.nodes[self.labels[target]])
        for n in self.nodes:
            for (s, lab) in n.succ:
                self.nodes[s].pred.append((n.id, lab))

    def new(self, kind, ast=None):
        n = Node(len(self.nodes), kind, ast)
        n.loop = self.depth
        self.nodes.append(n)
        return n

    def link(self, froms, to):
        for (f, lab) in froms:
            self.nodes[f].succ.append((to.id, lab))

    # ---- conditions: returns (true_outs, false_outs)
    def cond(self, e, ins):
        if e.k == 'Binary' and e.a['op'] == '&&':
            t1, f1 = self.cond(e.c[0], ins)
            t2, f2 = self.cond(e.c[1], t1)
            return t2, f1 + f2
        if e.k == 'Binary' and e.a['op'] == '||':
            t1, f1 = self.cond(e.c[0], ins)
            t2, f2 = self.cond(e.c[1], f1)
            return t1 + t2, f2
        if e.k == 'Unary' and e.a['op'] == '!':
            t, f = self.cond(e.c[0], ins)
            return f, t
        if e.k == 'Empty':
            return ins, []
        n = self.new('cond', e)
        self.link(ins, n)
        if is_noreturn_stmt(e):
            n.kind = 'abort'
            return [], []
        if e.k == 'Int':                       # while (1), do ... while (0): the other edge does not exist
            return ([(n.id, True)], []) if e.a.get('value') else ([], [(n.id, False)])
        return [(n.id, True)], [(n.id, False)]

    # ---- statements: returns list of dangling outs
    def stmt(self, s, ins, brk, cont):
        k = s.k
        if not ins and k not in ('Label', 'Block', 'Case', 'Default', 'Switch', 'If', 'For', 'While', 'Do'):
            # unreachable straight-line code: still build (labels inside are impossible here)
            return []
        if k == 'Block':
            for x in s.c:
                ins = self.stmt(x, ins, brk, cont)
            return ins
        if k == 'Empty':
            return ins
        if k == 'If':
            t, f = self.cond(s.c[0], ins)
            o1 = self.stmt(s.c[1], t, brk, cont)
            o2 = self.stmt(s.c[2], f, brk, cont) if len(s.c) > 2 else f
            return o1 + o2
        if k == 'While':
            head = self.new('join', s)
            self.link(ins, head)
            self.depth += 1
            t, f = self.cond(s.c[0], [(head.id, None)])
            b = []
            o = self.stmt(s.c[1], t, b, _Target(head))
            self.link(o, head)
            self.depth -= 1
            return f + b
        if k == 'Do':
            head = self.new('join', s)
            self.link(ins, head)
            self.depth += 1
            b = []
            ctarget = _Collector()
            o = self.stmt(s.c[0], [(head.id, None)], b, ctarget)
            t, f = self.cond(s.c[1], o + ctarget.outs)
            self.link(t, head)
            self.depth -= 1
            return f + b
        if k == 'For':
            ins = self.stmt(s.c[0], ins, brk, cont) if s.c[0].k != 'Empty' else ins
            head = self.new('join', s)
            self.link(ins, head)
            self.depth += 1
            t, f = self.cond(s.c[1], [(head.id, None)])
            b = []
            ctarget = _Collector()
            o = self.stmt(s.c[3], t, b, ctarget)
            o = o + ctarget.outs
            if s.c[2].k != 'Empty':
                o = self.stmt(s.c[2], o, None, None)
            self.link(o, head)
            self.depth -= 1
            return f + b
        if k == 'Switch':
            sw = self.new('switch', s.c[0])
            self.link(ins, sw)
            if is_noreturn_stmt(s.c[0]):
                sw.kind = 'abort'
                return []
            b = []
            ctx = _SwitchCtx(sw)
            o = self.sw_body(s.c[1], [], b, cont, ctx)
            outs = o + b
            if not ctx.has_default:
                outs = outs + [(sw.id, 'default')]
            return outs
        if k in ('Case', 'Default'):
            # a case label outside our switch walker (nested oddly): treat body
            return self.stmt(s.c[-1], ins, brk, cont)
        if k == 'Break':
            if brk is not None:
                brk.extend(ins)
            return []
        if k == 'Continue':
            if isinstance(cont, _Target):
                self.link(ins, cont.node)
            elif isinstance(cont, _Collector):
                cont.outs.extend(ins)
            return []
        if k == 'Return':
            r = self.new('return', s)
            self.link(ins, r)
            if s.c and is_noreturn_stmt(s.c[0]):
                r.kind = 'abort'
                return []
            self.link([(r.id, None)], self.exit)
            return []
        if k == 'Goto':
            g = self.new('goto', s)
            self.link(ins, g)
            self.gotos.append((g.id, s.a['target']))
            return []
        if k == 'Label':
            j = self.new('join', s)
            self.labels[s.a['id']] = j.id
            self.link(ins, j)
            return self.stmt(s.c[0], [(j.id, None)], brk, cont) if s.c else [(j.id, None)]
        if k == 'Decl':
            outs = ins
            for v in s.c:
                if v.k != 'Var':
                    continue
                n = self.new('stmt', v)
                self.link(outs, n)
                outs = [(n.id, None)]
                if v.c and is_noreturn_stmt(v.c[0]):
                    n.kind = 'abort'
                    return []
            return outs
        # expression statement
        n = self.new('stmt', s)
        self.link(ins, n)
        if is_noreturn_stmt(s):
            n.kind = 'abort'
            return []
        return [(n.id, None)]

    def sw_body(self, s, ins, brk, cont, ctx):
        """walk the body of a switch; case labels get an edge from the switch node"""
        if s.k == 'Block':
            for x in s.c:
                ins = self.sw_body(x, ins, brk, cont, ctx)
            return ins
        if s.k == 'Case':
            j = self.new('join', s)
            val = s.c[0]
            v = val.a.get('const', val.a.get('value'))
            if v is None and val.k == 'Ref':
                v = ('enum', val.a['name'])
            if isinstance(v, str):
                try:
                    v = int(v)
                except ValueError:
                    pass
            self.nodes[ctx.sw.id].succ.append((j.id, ('case', v, val.a.get('name') if val.k == 'Ref' else None)))
            self.link(ins, j)
            return self.sw_body(s.c[-1], [(j.id, None)], brk, cont, ctx)
        if s.k == 'Default':
            j = self.new('join', s)
            ctx.has_default = True
            self.nodes[ctx.sw.id].succ.append((j.id, 'default'))
            self.link(ins, j)
            return self.sw_body(s.c[-1], [(j.id, None)], brk, cont, ctx)
        return self.stmt(s, ins, brk, cont)

    # ------------------------------------------------------------ utilities
    def rpo(self):
        seen = set()
        order = []
        st = [(self.entry.id, iter(self.nodes[self.entry.id].succ))]
        seen.add(self.entry.id)
        while st:
            nid, it = st[-1]
            adv = False
            for (s, _) in it:
                if s not in seen:
                    seen.add(s)
                    st.append((s, iter(self.nodes[s].succ)))
                    adv = True
                    break
            if not adv:
                order.append(nid)
                st.pop()
        order.reverse()
        return order

    def reachable(self):
        return set(self.rpo())

    def dominators(self):
        """immediate-dominator-free simple iterative dominator sets (graphs are small)"""
        order = self.rpo()
        idx = {n: i for i, n in enumerate(order)}
        dom = {n: None for n in order}
        dom[self.entry.id] = {self.entry.id}
        changed = True
        while changed:
            changed = False
            for n in order[1:]:
                ps = [p for (p, _) in self.nodes[n].pred if p in idx and dom[p] is not None]
                if not ps:
                    continue
                new = set.intersection(*[dom[p] for p in ps]) | {n}
                if new != dom[n]:
                    dom[n] = new
                    changed = True
        return dom


class _Target(object):
    def __init__(self, node):
        self.node = node


class _Collector(object):
    def __init__(self):
        self.outs = []


class _SwitchCtx(object):
    def __init__(self, sw):
        self.sw = sw
        self.has_default = False


def build(func):
    return CFG(func)
