"""C17 Large-diagonal row permutation  —  R3 index-base pairing around mc64ad_ in ?ldperm, return value, R10 on MC64, R4, R9."""
from ..facts import Program, strip, callee_name, root_ref, loc
from ..run import Check, AnalysisBroken
from ..rules import r3_dispatch as r3, r9_sibling, r10, inplace
from ..rules.effects import PathEffects
from . import _drv, c19
from ._drv import Flags, Expect, ppos


def ldperm_oracle(chk, cid, prog, eff, p, cfgname):
    f = prog.func(p + 'ldperm')
    if f is None:
        raise AnalysisBroken('%sldperm not found' % p)
    chk.saw(unit=f.unit, func=f.unit + ':' + f.name)
    fl = Flags(prog, f, p)
    fl.add('job', '$1', [5, 4], ['5(scaling)', '4'])
    fl.add('n', '$2', [1009])
    fl.add('nnz', '$3', [2003])
    eng = r3.Engine(prog, f, fl.flags, callees=lambda n: n in ('mc64ad_', 'mc64id_'), eff=eff)
    leaves = eng.run()
    ex = Expect(chk, cid, f, fl, cfgname)
    CP, ADJ, PERM, U, V = '$4', '$5', '$7', '$8', '$9'

    def bound(e):
        if not e['loops']:
            return None
        d, b, op, bx = e['loops'][-1]
        return b + (1 if op == '<=' else 0) if isinstance(b, int) else None
    for lf in leaves:
        v = lf.val
        sel = ['job']
        mc = lf.calls('mc64ad_')
        if not ex.check(lf, len(mc) == 1, 'mc64-called-once', sel, 'mc64ad_ must be called exactly once'):
            continue
        m = mc[0]
        st = lf.stores()
        ok = m['args'][3] == ('p', 4) and m['args'][4] == ('p', 5) and m['args'][7] == ('p', 7)
        ex.check(lf, ok, 'mc64-arguments', [], 'mc64ad_(job, n, nnz, colptr, adjncy, values, num, perm, ...) must work on the caller\'s pattern and write perm', m['line'])
        inc = {X: [e for e in st if e['base'] == X and e['op'] == '++'] for X in (CP, ADJ)}
        dec = {X: [e for e in st if e['base'] == X and e['op'] == '--'] for X in (CP, ADJ, PERM)}
        want = {CP: v['n'] + 1, ADJ: v['nnz'], PERM: v['n']}
        for X, nm in ((CP, 'colptr'), (ADJ, 'adjncy')):
            ok = len(inc[X]) == 1 and bound(inc[X][0]) == want[X] and not lf.can_reach(m['node'], inc[X][0]['node'])
            ex.check(lf, ok, 'one-based-%s' % nm, [], 'MC64 is 1-based: all %s entries of %s must be incremented once before the call' % ('n+1' if X == CP else 'nnz', nm),
                     (inc[X] or [m])[0]['line'])
        rets = lf.returns()
        for X, nm in ((CP, 'colptr'), (ADJ, 'adjncy'), (PERM, 'perm')):
            ok = len(dec[X]) == 1 and bound(dec[X][0]) == want[X] and lf.can_reach(m['node'], dec[X][0]['node'])
            if ok:
                heads = dec[X][0]['loop_heads'][:1] or [dec[X][0]['node']]
                ok = not any(lf.can_reach(m['node'], r['node'], avoiding=heads) for r in rets)
            what = ('the caller\'s %s must be returned 0-based and unchanged' % nm) if X != PERM else 'the permutation produced by MC64 is 1-based and must be shifted to 0-based'
            ex.check(lf, ok, 'zero-based-%s-on-every-exit' % nm, [], '%s: all %s entries decremented exactly once after the call, on every path to a return'
                     % (what, {CP: 'n+1', ADJ: 'nnz', PERM: 'n'}[X]), (dec[X] or [m])[0]['line'])
        if v['job'] == 5:
            us = [e for e in st if e['base'] == U]
            vs = [e for e in st if e['base'] == V]
            dw = r3.ptr_desc(m['args'][11])
            ok = len(us) == 1 and len(vs) == 1 and dw in us[0]['rhs_reads'] and dw in vs[0]['rhs_reads']
            ex.check(lf, ok, 'duals-returned', sel, 'job = 5: u and v must be copied from the dual variables in dw (dw[i], dw[n+i])', (us + vs + [m])[0]['line'])
    # return value = info[0] of mc64ad_
    rets = [x for x in f.body.walk() if x.k == 'Return' and x.c]
    calls = [x for x in f.body.walk() if x.k == 'Call' and callee_name(x) == 'mc64ad_']
    okr = False
    if len(rets) >= 1 and len(calls) == 1:
        infoarg = root_ref(calls[0].c[-1])
        okr = all(strip(r.c[0]).k == 'Index' and root_ref(r.c[0]) is not None and infoarg is not None and root_ref(r.c[0]).a.get('id') == infoarg.a.get('id')
                  and strip(strip(r.c[0]).c[1]).k == 'Int' and strip(strip(r.c[0]).c[1]).a['value'] == 0 for r in rets)
    if okr:
        chk.ok(cid, '%s:returns-mc64-status' % f.name)
    else:
        chk.violate(cid, '%s:returns-mc64-status' % f.name, loc(f, (rets or [f.body])[0]), f.name,
                    'structural singularity must be reported: the return value must be info[0] of mc64ad_ on every exit', cfgname=cfgname)
    return len(leaves)


def run(tier):
    chk = Check('C17', tier, level='other')
    chk.explanation = (
        'R3 on ?ldperm (4 types): the caller\'s colptr (n+1 entries) and adjncy (nnz entries) are shifted to 1-based exactly once before '
        'mc64ad_ and shifted back exactly once on every path to a return (must-pass-through on the restore loops), perm is shifted to '
        '0-based once, u and v are taken from the dual variables for job = 5, and the routine returns info[0] of mc64ad_ on every exit. '
        'R10: mc64ad_ and everything it calls can write only num, cperm, iw, dw, info - never the caller\'s pattern or values (sound '
        'may-write set). In-place hazard: no loop of the MC64 kernels reads the shared work array q[] as a list (q[v], v its counter) while it also '
        'stores into q[] or hands it to the heap routines - heap, Q2 and an unread list share q[1..n] with nothing bounding their total. '
        'The match counter *num of mc64wd_ is advanced inside the augmenting loop only behind the false edge of `csp == rinf` (a failed search is never counted), '
        'which is what makes *num < n the report of structural singularity. ?gsisx tests the return value (C15). R4 on the routines; R9 (c=z; s differs from d by the documented copy to '
        'double). Not decided: optimality of the matching, magnitude-one diagonal, bounds on the scaled entries (values).')
    cfgs = ['tested'] if tier == 'quick' else ['tested', 'idx64']
    chk.configs = cfgs
    for cfgname in cfgs:
        prog = Program.load(which=('SRC',), cfg=cfgname)
        eff = PathEffects(prog)
        chk.clause('C17.D1', 'R3 index-base pairing and status of ?ldperm')
        chk.clause('C17.D3', 'R10 MC64 does not write the caller\'s arrays')
        n = 0
        for p in _drv.PRECS:
            n += ldperm_oracle(chk, 'C17.D1', prog, eff, p, cfgname)
        if n < 8:
            raise AnalysisBroken('C17: %d leaves, floor 8' % n)
        allowed = {'num': ['[]'], 'cperm': ['[]'], 'iw': ['[]'], 'dw': ['[]'], 'info': ['[]'], 'icntl': ['[]']}
        r10.maywrite(chk, 'C17.D3', prog, eff, 'mc64ad_', allowed, cfgname)
        inplace.run(chk, 'C17.inplace', prog, cfgname)
        inplace.match_count_rule(chk, 'C17.count', prog, cfgname)
        inplace.heap_rules(chk, 'C17.heap', prog, cfgname)
        inplace.ldperm_copyout_rule(chk, 'C17.copyout', prog, cfgname)
        from ..rules import lints as _lints
        _lints.inclusive_do_loop_rule(chk, 'C17.doloop', prog, cfgname)
        inplace.heap_position_typestate(chk, 'C17.state', prog, cfgname)
        from ..rules import logdom
        logdom.run(chk, 'C17.logdom', prog, cfgname)
        if inplace.reset_cover_rule(chk, 'C17.reset', prog, cfgname) < 4:
            raise AnalysisBroken('C17: reset loops of mc64bd_/mc64wd_ not found')
        fnames = {f.name for f in prog.all_funcs() if f.unit.endswith(('ldperm.c', 'mc64ad.c'))}
        c19.run_r4(chk, prog, cfgname, funcs=fnames, cid='C17.D4')
        if cfgname == 'tested':
            r9_sibling.run(chk, prog, 'C17.D5', {'dldperm.c', 'zldperm.c'}, cfgname)
    return chk.finish()
