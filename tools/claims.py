"""What MANIFEST.json claims per property.  Edited together with the property modules."""
CLAIMS = {
 'C09': {
  'level': 'proof',
  'technique': 'static analysis: whole-library census of static-storage objects, external-callee reentrancy table, indirect-call roots (rule R1 over clang AST)',
  'design_ref': 'DESIGN.md 4 R1, 5 C09',
  'text': 'Sound over-approximation over all 241 units: every object with static storage duration is const or never written '
          '(stores, ++/--, address reaching a writing parameter, across units by linkage name); every external callee is in a reviewed '
          'reentrancy table (unknown callee = exit 2); indirect calls go through parameters only. This closes, for all schedules and '
          'histories, the clause "no library-level shared mutable state, hence no data race on library state and no dependence on earlier '
          'calls". It does not decide bit-identical floating-point output as such.',
  'note': 'Assumes libc malloc/free/stdio and the vendor BLAS are thread-safe, callers pass disjoint objects, no uninitialised reads. '
          'Positive control fixture must be reported on every run; floors on units/functions/external callees; thorough tier repeats in 5 '
          'preprocessor configurations and cross-checks against llvm-nm data/bss symbols of the compiled objects.',
 },
}
NOT_APPLICABLE = {}
