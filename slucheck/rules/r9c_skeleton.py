"""R9c  integer skeleton agreement between the real and the complex instantiation of a routine.

The exact sibling rule R9 compares s with d and c with z.  A change made to both real copies (or both complex copies) but not to the other pair
passes it.  Real and complex code differ in their floating-point statements (one real statement becomes several complex ones), but everything that
is *integer* - subscripts, positions, counts, loop bounds, tests on integers, pointer arithmetic, the order and arguments of the calls - does not
depend on the arithmetic type.  Each routine is projected to that integer skeleton:

   I  <text>          a statement whose effect is on an integer or a pointer (text with type words and precision letters normalised)
   F  {a[i], b[j]..}  a maximal run of floating-point statements, reduced to the set of indexed accesses it makes (array and subscript text)
   C  <callee>(...)   a call statement; floating scalars among the arguments are masked, indexed operands are kept
   if/for/while/...   control structure; a condition that involves floating values is reduced to its access set

and the d and z projections must be equal item by item.  A difference is reported at the first differing item.
"""
import re
from ..facts import strip, canon, callee_name, loc, root_ref
from ..ir import pretty
from .r9_sibling import is_drop_stmt, MESSAGE_CALLS, incr_form

CPLX_HELPERS = {'z_div', 'z_abs', 'z_abs1', 'z_exp', 'd_cnjg', 'd_imag', 'z_sgn', 'z_sqrt', 'c_div', 'c_abs', 'c_abs1', 'c_exp', 'r_cnjg', 'r_imag', 'c_sgn', 'c_sqrt',
                'fabs', 'fabsf', 'sqrt', 'sqrtf', 'floor', 'exp', 'log'}
SCAN_FAMILY = {'scanf', 'fscanf', 'sscanf'}
FLOAT_WORDS = ('doublecomplex', 'singlecomplex', 'double', 'float', 'complex')
CPLX_FIELDS = {'r', 'i'}
# callee names that differ between the real and the complex code beyond the leading precision letter
CALL_ALIASES = {'idamax_': 'I_AMAX', 'izamax_': 'I_AMAX', 'isamax_': 'I_AMAX', 'icamax_': 'I_AMAX', 'izmax1': 'I_AMAX1', 'icmax1': 'I_AMAX1',
                'dasum_': '_ASUM', 'dzasum_': '_ASUM', 'sasum_': '_ASUM', 'scasum_': '_ASUM', 'dzsum1': '_ASUM1', 'scsum1': '_ASUM1',
                'dnrm2_': '_NRM2', 'dznrm2_': '_NRM2', 'snrm2_': '_NRM2', 'scnrm2_': '_NRM2',
                'dlamch_': '_MACH', 'slamch_': '_MACH', 'dmach': '_MACH', 'smach': '_MACH',
                'doubleMalloc': '_VALMALLOC', 'doublecomplexMalloc': '_VALMALLOC', 'floatMalloc': '_VALMALLOC', 'complexMalloc': '_VALMALLOC', 'singlecomplexMalloc': '_VALMALLOC',
                'doubleCalloc': '_VALCALLOC', 'doublecomplexCalloc': '_VALCALLOC', 'floatCalloc': '_VALCALLOC', 'complexCalloc': '_VALCALLOC', 'singlecomplexCalloc': '_VALCALLOC',
                'copy_mem_double': '_COPYVAL', 'copy_mem_doublecomplex': '_COPYVAL', 'copy_mem_float': '_COPYVAL', 'copy_mem_singlecomplex': '_COPYVAL',
                'dqselect': '_QSELECT', 'sqselect': '_QSELECT'}


# routines whose real and complex versions are different algorithms (reason given); they are not compared
EXEMPT = {
    'lacon2_': 'the complex estimator has no sign vector (isgn) and a different convergence test',
    'ldperm': 'the complex version first copies the magnitudes into a real array',
    'lsolve': 'bundled kernels are unrolled 8-fold in real and 4-fold in complex arithmetic', 'usolve': 'same', 'matvec': 'same',
    'Print_CompCol_Matrix': 'debug print of interleaved re/im', 'Print_SuperNode_Matrix': 'same', 'Print_Dense_Matrix': 'same',
    'ReadValues': 'complex values are read as (re, im) pairs',
    'ilu_copy_to_ucol': 'the complex version builds |u| in a loop where the real one copies the column',
}
# per routine: variables that exist only on one side (statements that mention them are dropped) and renamings applied to the complex side
IGNORE_VARS = {'gscon': {'iwork'}, 'gsrfs': {'iwork'}, 'gsitrf': {'dtempv'}, 'readMM': set()}
IGNORE_TEXT = {'readMM': {'((*m) = (*n))'}, 'gscon': {'(!work)'}, 'gsitrf': {'(tempv = tempv)'}}
RENAME_Z = {'gsitrf': {'dtempv': 'tempv'}}
# indexed accesses that occur in the floating-point statements of one side only, for a reason outside the properties
IGNORE_ACCESS = {'gsitrf': {'amax[(jj - jcol)]'}}     # the MILU relaxation factor omega is scaled by amax in the real code only


def is_float_type(t):
    t = (t or '')
    return any(re.search(r'\b%s\b' % w, t) for w in FLOAT_WORDS)


def is_ptr_type(t):
    return (t or '').strip().endswith('*')


def norm_text(s, p):
    s = re.sub(r'\b(doublecomplex|singlecomplex|double|float)\b', 'VAL', s)
    return s


def norm_callee(name, p):
    if name in CALL_ALIASES:
        return CALL_ALIASES[name]
    if name.startswith('ilu_' + p):
        return 'ilu_Q' + name[5:]
    if name.startswith('sp_' + p):
        return 'sp_Q' + name[4:]
    if name.startswith('c_fortran_' + p):
        return 'c_fortran_Q' + name[11:]
    if name.startswith(p) and len(name) > 1:
        return 'Q' + name[1:]
    return name


def _pure_scalar(e):
    # no subscripts, calls, assignments, increments: evaluation order cannot matter and nothing is guarded
    return not any(x.k in ('Index', 'Call', 'Assign') or (x.k == 'Unary' and x.a.get('op') in ('++', '--', 'post++', 'post--', '*')) for x in e.walk())


def _ckey(c):
    t = canon(c, ids=False)
    return (re.sub(r'[dzscDZSCQ]', '', t), len(t))      # the precision letters must not decide the order


def _commute(e):
    """order-normalised copy of an expression: operands of == and != and the operands of chains of || / && whose members are all pure scalar
    tests (fields and plain variables only) are sorted by their text, so that `X->ncol < 0 || B->ncol != X->ncol` written in another order in one
    instantiation only is not a difference.  Chains that subscript or call keep their order (there the order is a guard)."""
    from ..ir import N
    if not e.c:
        return e
    kids = [_commute(c) for c in e.c]
    n = N(e.k, e.t, kids, e.a, e.line, e.mac)
    if e.k == 'Binary':
        op = e.a.get('op')
        if op in ('==', '!=') and _pure_scalar(n):
            n.c = sorted(kids, key=_ckey)
        elif op in ('||', '&&'):
            flat = []

            def fl(x):
                x0 = strip(x)
                if x0.k == 'Binary' and x0.a.get('op') == op:
                    fl(x0.c[0]); fl(x0.c[1])
                else:
                    flat.append(x)
            fl(n)
            if len(flat) >= 2 and all(_pure_scalar(x) for x in flat):
                flat.sort(key=_ckey)
                acc = flat[0]
                for x in flat[1:]:
                    acc = N('Binary', e.t, [acc, x], dict(e.a), e.line, e.mac)
                n = acc
    return n


class Projector(object):
    def __init__(self, f, p, key=''):
        self.f = f
        self.p = p
        self.key = key
        self.ignore = IGNORE_VARS.get(key, set())
        self.ignore_text = IGNORE_TEXT.get(key, set())
        self.rename = RENAME_Z.get(key, {}) if p in 'zc' else {}
        names = {v.a.get('name') for v in f.locals.values() if v.a.get('name')} | {nm for (nm, i, t) in f.params}
        names = {n for n in names if n and re.match(r'^[A-Za-z_]\w*$', n)}
        self.hoisted = self.find_hoists()
        # local and parameter names are matched by a bijection built during the comparison (alpha-renaming): they are marked with '@'
        self.local_re = re.compile(r'(?<![>.\w@])(?:%s)\b' % '|'.join(sorted(map(re.escape, names), key=len, reverse=True))) if names else None

    def find_hoists(self):
        """locals that merely name a pure expression over the parameters: defined exactly once, before the first call of the routine, never
        address-taken, right-hand side built from parameters, their fields and constants.  Uses are replaced by the definition and the
        defining statement is dropped, on both sides alike (a routine may or may not introduce such a name)."""
        f = self.f
        params = {i for (nm, i, t) in f.params}
        defs, bad = {}, set()
        first_call_line = min([x.line for x in f.body.walk() if x.k == 'Call' and x.line] or [10 ** 9])
        for x in f.body.walk():
            if x.k == 'Var' and x.c:
                defs.setdefault(x.a.get('id'), []).append((x.c[0], x.line))
            elif x.k == 'Assign' and strip(x.c[0]).k == 'Ref':
                vid = strip(x.c[0]).a.get('id')
                if x.a['op'] == '=':
                    defs.setdefault(vid, []).append((x.c[1], x.line))
                else:
                    bad.add(vid)
            elif x.k == 'Unary' and x.a['op'] in ('++', '--', 'post++', 'post--', '&') and strip(x.c[0]).k == 'Ref':
                bad.add(strip(x.c[0]).a.get('id'))
        out = {}
        for vid, ds in defs.items():
            if vid in bad or vid not in f.locals or len(ds) != 1:
                continue
            rhs, line = ds[0]
            if not line or line >= first_call_line or is_float_type(f.locals[vid].t) or is_ptr_type(f.locals[vid].t):
                continue
            ok = True
            for y in rhs.walk():
                if y.k in ('Call', 'Assign', 'Index'):
                    ok = False
                if y.k == 'Unary' and y.a['op'] in ('++', '--', 'post++', 'post--', '*'):
                    ok = False
                if y.k == 'Ref' and y.a.get('id') and y.a['id'] not in params and y.a.get('dk') != 'EnumConstantDecl':
                    ok = False
            if ok:
                out[vid] = rhs
        return out

    def _inline_hoisted(self, e, depth=0):
        from ..ir import N
        if e.k == 'Ref' and e.a.get('id') in self.hoisted and depth < 4:
            return self._inline_hoisted(self.hoisted[e.a['id']], depth + 1)
        if not e.c:
            return e
        return N(e.k, e.t, [self._inline_hoisted(c, depth) for c in e.c], e.a, e.line, e.mac)

    def text(self, e):
        if self.hoisted and any(y.k == 'Ref' and y.a.get('id') in self.hoisted for y in e.walk()):
            e = self._inline_hoisted(e)         # a local that merely names a pure sub-expression is looked through before ordering
        e = _commute(e)
        t = canon(e, ids=False)
        # callee names inside expressions
        for y in e.walk():
            if y.k == 'Call':
                nm = callee_name(y)
                if nm:
                    t = t.replace(nm + '(', norm_callee(nm, self.p) + '(')
        for a, b in self.rename.items():
            t = re.sub(r'\b%s\b' % a, b, t)
        t = self.local_re.sub(lambda m: '@' + m.group(0), t) if self.local_re is not None else t
        return norm_text(t, self.p)

    def dropped(self, it):
        if it is None:
            return True
        if it[0] in ('I', 'C'):
            raw = it[1].replace('@', '')
            if raw in self.ignore_text:
                return True
            return it[0] == 'I' and any(re.search(r'\b%s\b' % v, raw) for v in self.ignore)
        return False

    def has_float(self, e):
        for y in e.walk():
            if y.k in ('Float',):
                return True
            if y.k in ('Ref', 'Index', 'Member', 'Unary', 'Binary', 'Call', 'Cast') and is_float_type(y.t) and not is_ptr_type(y.t):
                return True
        return False

    def accesses(self, e):
        """set of indexed accesses 'base[index]' (with normalised text) made anywhere inside e; complex field selectors are dropped"""
        out = set()
        for y in e.walk():
            if y.k == 'Index':
                b = strip(y.c[0])
                out.add('%s[%s]' % (self.text(b), _INCDEC.sub(r'\2', self.text(y.c[1]))))
            elif y.k == 'Call' and (callee_name(y) or '') not in CPLX_HELPERS and callee_name(y) not in MESSAGE_CALLS:
                it = self.classify(y)
                if it is not None and it[0] == 'C':
                    out.add(it[1])       # a library call made inside a floating expression / condition keeps its integer operands
        return out

    def classify(self, s):
        """('I', text) | ('F', set) | ('C', text) for an expression statement"""
        s0 = strip(s)
        if s0.k == 'Call':
            nm = callee_name(s0) or '?'
            if nm in MESSAGE_CALLS:
                return None
            if nm in CPLX_HELPERS:
                return ('F', self.accesses(s0))
            if nm in SCAN_FAMILY:
                acc = set()
                for a in s0.c[1:]:
                    if strip(a).k != 'Str':
                        acc |= self.accesses(a) or {self.text(a)}
                return ('C', '%s{%s}' % (nm, ', '.join(sorted(acc))))
            args = []
            for a in s0.c[1:]:
                a0 = strip(a)
                if self.ignore and any(y.k == 'Ref' and y.a.get('name') in self.ignore for y in a0.walk()):
                    continue        # operand that exists on one side only (e.g. the sign vector of the real estimator)
                if self.has_float(a0) and not any(y.k == 'Index' for y in a0.walk()) and not is_ptr_type(a0.t):
                    args.append('#')
                elif a0.k == 'Unary' and a0.a['op'] == '&' and is_float_type(strip(a0.c[0]).t) and not is_ptr_type(strip(a0.c[0]).t) \
                        and not any(y.k == 'Index' for y in a0.walk()):
                    args.append('&#')       # address of a floating scalar (alpha, beta, a temporary)
                elif a0.k == 'Str':
                    args.append(a0.a['value'])
                else:
                    args.append(self.text(a0))
            if not args and len(s0.c) > 1:
                return None     # every operand exists on one side only
            return ('C', '%s(%s)' % (norm_callee(nm, self.p), ', '.join(args)))
        inc = incr_form(s0) if s0.k in ('Assign', 'Unary') else None
        if inc is not None and not (is_float_type(strip(inc[0]).t) and not is_ptr_type(strip(inc[0]).t)):
            return ('I', '(%s += %d)' % (self.text(inc[0]), inc[1]))      # i++ / ++i / i += 1 / i = i + 1 used as a statement
        if s0.k == 'Assign':
            lv = strip(s0.c[0])
            if is_float_type(lv.t) and not is_ptr_type(lv.t):
                return ('F', self.accesses(s0))
            if lv.k == 'Ref' and lv.a.get('id') in self.hoisted and s0.a['op'] == '=':
                return None
            return ('I', self.text(s0))
        if s0.k == 'Unary' and s0.a['op'] in ('++', '--', 'post++', 'post--'):
            lv = strip(s0.c[0])
            if is_float_type(lv.t) and not is_ptr_type(lv.t):
                return ('F', self.accesses(s0))
            return ('I', self.text(s0))
        if s0.k == 'Var':
            if not s0.c:
                return None
            if is_float_type(s0.t) and not is_ptr_type(s0.t):
                return ('F', self.accesses(s0.c[0]))
            if s0.a.get('id') in self.hoisted:
                return None
            return ('I', '(@%s = %s)' % (s0.a.get('name'), self.text(s0.c[0])))
        if self.has_float(s0):
            return ('F', self.accesses(s0))
        return ('I', self.text(s0))

    def cond(self, e):
        if e is None:
            return ('I', '')
        if self.has_float(e):
            return ('F', frozenset(self.accesses(e)))
        return ('I', self.text(e))

    def project(self, stmts):
        out = []

        def add_f(acc):
            acc = {a for a in acc if a.replace('@', '') not in IGNORE_ACCESS.get(self.key, set())}
            if not acc:
                return          # floating scalars only: carries no index information
            if out and out[-1][0] == 'F':
                out[-1] = ('F', out[-1][1] | acc)
            else:
                out.append(('F', set(acc)))
        for s in stmts:
            if is_drop_stmt(s):
                continue
            if s.k == 'Decl':
                for v in s.c:
                    if v.k == 'Var' and v.c:
                        it = self.classify(v)
                        if it is None:
                            continue
                        if it[0] == 'F':
                            add_f(it[1])
                        else:
                            out.append(it)
                continue
            if s.k == 'Block':
                inner = self.project(s.c)
                for it in inner:
                    if it[0] == 'F':
                        add_f(it[1])
                    else:
                        out.append(it)
                continue
            if s.k == 'If':
                c = self.cond(s.c[0])
                th = self.project([s.c[1]])
                el = self.project([s.c[2]]) if len(s.c) > 2 else []
                if c[0] == 'F' and all(x[0] == 'F' for x in th + el):
                    # a purely floating conditional (e.g. max/abs idioms): one floating item
                    acc = set(c[1])
                    for x in th + el:
                        acc |= x[1]
                    add_f(acc)
                    continue
                if c[0] == 'I' and c[1].replace('@', '') in self.ignore_text:
                    continue
                if c[0] == 'I' and any(re.search(r'\b%s\b' % v, c[1].replace('@', '')) for v in self.ignore):
                    continue
                out.append(('if', c, th, el))
                continue
            if s.k == 'For':
                init = self.project([s.c[0]]) if s.c[0] is not None and s.c[0].k != 'Empty' else []
                c = self.cond(s.c[1]) if s.c[1] is not None and s.c[1].k != 'Empty' else ('I', '')
                inc = self.project([s.c[2]]) if s.c[2] is not None and s.c[2].k != 'Empty' else []
                out.append(('for', init, c, inc, self.project([s.c[3]])))
                continue
            if s.k == 'While':
                out.append(('while', self.cond(s.c[0]), self.project([s.c[1]])))
                continue
            if s.k == 'Do':
                out.append(('do', self.project([s.c[0]]), self.cond(s.c[1])))
                continue
            if s.k == 'Switch':
                out.append(('switch', self.cond(s.c[0]), self.project([s.c[1]])))
                continue
            if s.k == 'Case':
                out.append(('case', self.text(s.c[0])))
                out.extend(self.project(s.c[1:]))
                continue
            if s.k == 'Default':
                out.append(('default',))
                out.extend(self.project(s.c))
                continue
            if s.k == 'Return':
                if s.c:
                    c = self.cond(s.c[0])
                    out.append(('return', c))
                else:
                    out.append(('return', ('I', '')))
                continue
            if s.k in ('Break', 'Continue'):
                out.append((s.k.lower(),))
                continue
            if s.k == 'Goto':
                out.append(('goto', s.a.get('label', '')))
                continue
            if s.k == 'Label':
                out.append(('label', s.a.get('name', '')))
                out.extend(self.project(s.c))
                continue
            if s.k == 'Comma' or (s.k == 'Binary' and s.a.get('op') == ','):
                out.extend(self.project(s.c))
                continue
            it = self.classify(s)
            if it is None or self.dropped(it):
                continue
            if it[0] == 'F':
                add_f(it[1])
                # x[i++] -= t  is  x[i] -= t; i += 1
                for y in s.walk():
                    if y.k == 'Unary' and y.a['op'] in ('++', '--', 'post++', 'post--') and strip(y.c[0]).k == 'Ref' and not is_float_type(strip(y.c[0]).t) \
                            and strip(s) is not y:
                        out.append(('I', '(%s += %d)' % (self.text(strip(y.c[0])), 1 if '+' in y.a['op'] else -1)))
            else:
                out.append(it)
        return out


def show(it):
    return _show(it).replace('@', '')


def _show(it):
    if it is None:
        return '(nothing)'
    k = it[0]
    if k == 'F':
        return 'floating-point statements touching {%s}' % ', '.join(sorted(it[1]))
    if k in ('I', 'C'):
        return it[1]
    if k == 'if':
        return 'if (%s) ...' % _show(it[1])
    if k == 'for':
        return 'for (%s; %s; %s) ...' % ('; '.join(show(x) for x in it[1]), show(it[2]), '; '.join(show(x) for x in it[3]))
    if k == 'while':
        return 'while (%s) ...' % show(it[1])
    if k == 'return':
        return 'return %s' % show(it[1])
    return ' '.join(str(x) for x in it)


_INCDEC = re.compile(r'\((?:post)?(\+\+|--)(@?\w+)\)')
_TRANS_TEST = re.compile(r'@?trans == TRANS\b|\bTRANS == @?trans\b|strncmp\(@?trans,"T",1\) == 0|0 == strncmp\(@?trans,"T",1\)')
_NOTRANS = re.compile(r'NOTRANS|"N"')
_TOK = re.compile(r'@?[A-Za-z_][A-Za-z_0-9]*|\S')


class Bij(object):
    def __init__(self):
        self.ab, self.ba = {}, {}

    def copy(self):
        b = Bij()
        b.ab, b.ba = dict(self.ab), dict(self.ba)
        return b


def text_eq(x, y, bij):
    """equal up to alpha-renaming of locals (bijection bij, extended on first use) and up to the precision letter: identifiers that differ only in
    one d/z (s/c, D/Z) letter (dwork ~ zwork, SLU_D ~ SLU_Z, dcopy_ ~ Qcopy_), or the Matrix Market arithmetic keywords"""
    tx, ty = _TOK.findall(x), _TOK.findall(y)
    if len(tx) != len(ty):
        return False
    new = []
    for a, b in zip(tx, ty):
        if a.startswith('@') and b.startswith('@'):
            a, b = a[1:], b[1:]
            if a in bij.ab or b in bij.ba:
                if bij.ab.get(a) != b or bij.ba.get(b) != a:
                    for (p, q) in new:
                        del bij.ab[p]; del bij.ba[q]
                    return False
                continue
            bij.ab[a] = b
            bij.ba[b] = a
            new.append((a, b))
            continue
        if a == b:
            continue
        ok = False
        if {a, b} == {'real', 'complex'}:
            ok = True
        elif len(a) == len(b) and not a.startswith('@') and not b.startswith('@'):
            diff = [(p, q) for p, q in zip(a, b) if p != q]
            ok = len(diff) == 1 and {diff[0][0], diff[0][1]} <= set('dzDZQsc')
        if not ok:
            for (p, q) in new:
                del bij.ab[p]; del bij.ba[q]
            return False
    return True


def set_eq(A, B, bij):
    """two access sets are equal under some extension of the bijection (small sets: backtracking)"""
    A, B = sorted(A), sorted(B)
    if len(A) != len(B):
        return False

    def rec(i, rest, bj):
        if i == len(A):
            return bj
        for k, b in enumerate(rest):
            t = bj.copy()
            if text_eq(A[i], b, t):
                r = rec(i + 1, rest[:k] + rest[k + 1:], t)
                if r is not None:
                    return r
        return None
    r = rec(0, B, bij)
    if r is None:
        return False
    bij.ab, bij.ba = r.ab, r.ba
    return True


_SIMPLE_ASSIGN = re.compile(r'^\(@?(\w+) = (.*)\)$')


def _independent_run(items, i):
    """length of the maximal run of items from i on that are simple assignments `v = e` (no calls) to distinct locals in which no statement reads a
    local that is assigned *later* in the run: every order of such a run that keeps this property computes the same values"""
    targets, texts = [], []
    j = i
    while j < len(items) and items[j][0] == 'I':
        m = _SIMPLE_ASSIGN.match(items[j][1])
        if not m or re.search(r'\w\(', m.group(2)) or m.group(1) in targets:
            break
        targets.append(m.group(1))
        texts.append(m.group(2))
        j += 1
    n = j - i
    while n > 1:
        ok = True
        for k in range(n):
            for t in targets[k + 1:n]:
                if re.search(r'@%s\b' % re.escape(t), texts[k]):
                    ok = False
        if ok:
            return n
        n -= 1
    return max(n, 0)


def item_eq(x, y, bij):
    if x[0] != y[0]:
        return False
    if x[0] == 'F':
        return set_eq(x[1], y[1], bij)
    return text_eq(str(x[1]) if len(x) > 1 else '', str(y[1]) if len(y) > 1 else '', bij)


def first_diff(a, b, bij=None, path=''):
    """first differing pair of items (depth first); None if equal"""
    if bij is None:
        bij = Bij()
    b = list(b)
    i = -1
    while True:
        i += 1
        if i >= max(len(a), len(b)):
            break
        x = a[i] if i < len(a) else None
        y = b[i] if i < len(b) else None
        if y is not None and y[0] == 'if' and y[1][0] == 'I' and y[3] and _TRANS_TEST.search(y[1][1]) and not _NOTRANS.search(y[1][1]) \
                and not (x is not None and x[0] == 'if' and item_eq(x[1], y[1], bij.copy())):
            # complex only:  if (transpose) S else /* conjugate transpose */ S'  -  S is what the real code does for a transposed system
            b[i:i + 1] = y[2]
            i -= 1
            continue
        if x is None or y is None:
            return (x, y, path)
        if x[0] != y[0]:
            return (x, y, path)
        k = x[0]
        if k in ('F', 'I', 'C', 'case', 'goto', 'label'):
            if not item_eq(x, y, bij):
                if k == 'I':
                    L = _independent_run(a, i)
                    if L > 1 and L == _independent_run(b, i) and set_eq([t[1] for t in a[i:i + L]], [t[1] for t in b[i:i + L]], bij):
                        i += L - 1       # the same independent assignments in another order
                        continue
                return (x, y, path)
        elif k == 'if':
            if not item_eq(x[1], y[1], bij):
                return (x, y, path)
            d = first_diff(x[2], y[2], bij, path) or first_diff(x[3], y[3], bij, path)
            if d:
                return d
        elif k == 'for':
            d = first_diff(x[1], y[1], bij, path) or first_diff([x[2]], [y[2]], bij, path) or first_diff(x[3], y[3], bij, path) or first_diff(x[4], y[4], bij, path)
            if d:
                return d
        elif k in ('while', 'switch'):
            d = first_diff([x[1]], [y[1]], bij, path) or first_diff(x[2], y[2], bij, path)
            if d:
                return d
        elif k == 'do':
            d = first_diff(x[1], y[1], bij, path) or first_diff([x[2]], [y[2]], bij, path)
            if d:
                return d
        elif k == 'return':
            d = first_diff([x[1]], [y[1]], bij, path)
            if d:
                return d
    return None


def compare_funcs(fa, pa, fb, pb, key=''):
    A = Projector(fa, pa, key).project(fa.body.c)
    B = Projector(fb, pb, key).project(fb.body.c)
    return first_diff(A, B), len(A) + len(B)


def run(chk, cid, prog, units, cfgname, exempt=()):
    """units: set of file names with the real prefix d (dgstrf.c); the complex partner is the z file.  Functions are paired by name."""
    chk.clause(cid, 'integer skeleton of the real and complex instantiations agree (d ~ z)')
    n = 0
    for u in prog.units:
        base = u.rel.split('/')[-1]
        if base not in units:
            continue
        pre, name = ('ilu_', base[5:]) if base.startswith('ilu_d') else (('sp_', base[4:]) if base.startswith('sp_d') else (('c_fortran_', base[11:]) if base.startswith('c_fortran_d') else ('', base[1:])))
        zrel = u.rel[:-len(base)] + pre + 'z' + name
        zu = next((x for x in prog.units if x.rel == zrel), None)
        if zu is None:
            continue
        zf = {norm_callee(f.name, 'z'): f for f in zu.funcs}
        for f in u.funcs:
            key = norm_callee(f.name, 'd')
            g = zf.get(key)
            if g is None:
                continue
            if (f.name in exempt) or (g.name in exempt):
                continue
            bare = re.sub(r'^(ilu_|sp_|c_fortran_)?Q', r'\1', key)
            if bare in EXEMPT:
                chk.ok(cid, '%s~%s' % (f.name, g.name), nontrivial=False, sample='not compared: ' + EXEMPT[bare])
                continue
            n += 1
            chk.saw(unit=u.rel, func=u.rel + ':' + f.name)
            chk.saw(unit=zu.rel, func=zu.rel + ':' + g.name)
            d, size = compare_funcs(f, 'd', g, 'z', bare)
            inst = '%s~%s' % (f.name, g.name)
            if d is None:
                chk.ok(cid, inst, sample='%d skeleton items' % size)
            else:
                x, y, _ = d
                chk.violate(cid, 'skeleton:' + inst, '%s:%d' % (u.rel, f.line), f.name,
                            'REAL/COMPLEX-DIVERGENCE %s vs %s: the integer skeletons differ: real has `%s`, complex has `%s`'
                            % (f.name, g.name, show(x)[:160], show(y)[:160]), cfgname=cfgname)
    return n
