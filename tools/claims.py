"""What MANIFEST.json claims per property.  Edited together with the property modules."""
CLAIMS = {
 'C09': {
  'level': 'proof',
  'technique': 'static analysis: whole-library census of static-storage objects, external-callee reentrancy table, indirect-call roots (rule R1 over clang AST)',
  'design_ref': 'DESIGN.md 4 R1, 5 C09',
  'text': 'Sound over-approximation over all 241 units: every object with static storage duration is const or never written '
          '(stores, ++/--, address reaching a writing parameter, across units by linkage name); every external callee is in a reviewed '
          'reentrancy table (unknown callee = exit 2); indirect calls go through parameters only. This closes, for all schedules and '
          'histories, the clause "no library-level shared mutable state, hence no data race on library state and no dependence on earlier '
          'calls". It does not decide bit-identical floating-point output as such.',
  'note': 'Assumes libc malloc/free/stdio and the vendor BLAS are thread-safe, callers pass disjoint objects, no uninitialised reads. '
          'Positive control fixture must be reported on every run; floors on units/functions/external callees; thorough tier repeats in 5 '
          'preprocessor configurations and cross-checks against llvm-nm data/bss symbols of the compiled objects.',
 },
}
CLAIMS['C18'] = {
  'level': 'proof',
  'technique': 'static analysis: decision-table extraction from the AST of each screening block, position/order/oracle-coverage/inert-exit obligations (rule R2), sibling agreement (R9)',
  'design_ref': 'DESIGN.md 4 R2, 5 C18',
  'text': 'For the 36 screening routines the region from entry to the error return is extracted as (guard -> info code) rows with aliases '
          'substituted and parameters identified by position. Discharged for every row: the guard mentions the reported argument; codes '
          'are ordered along else-if chains; every documented precondition of the oracle table (squareness, negative dimension, Stype/Dtype/'
          'Mtype tags with the routine\'s own precision, lda >= max(0,n), enum ranges, lwork < -1, equed letter, non-positive scale factor, '
          'B/X column mismatch, flag letters) is implied by a disjunct that yields exactly -(position); no allocation, allocating call, or '
          'store/call writing a protected argument happens before the error return. This decides the property for every single-argument '
          'corruption listed in the oracle, for all inputs.',
  'note': 'Trusted: the oracle table in slucheck/props/c18.py (transcribed from the routine headers), clang parser, no-alias contract. '
          'Not decided: preconditions the headers do not state (e.g. consistency of perm_c contents).',
}
CLAIMS['C19'] = {
  'level': 'other',
  'technique': 'static analysis: path-sensitive ownership/typestate dataflow over own CFG with callee summaries (R4), destroyer field ledger, sibling agreement (R9)',
  'design_ref': 'DESIGN.md 4 R4 R9, 5 C19',
  'text': 'Every function of SRC, the Fortran bridge and the example reader is analysed path-sensitively: each block from the allocation '
          'vocabulary (derived bottom-up: anything returning or storing a fresh block) is released or handed to the caller exactly once on '
          'every return exit; no double release; no use after release; contents created in local objects are destroyed; each Destroy_* '
          'releases every pointer field of its format struct (fields read from the parsed struct). s=d and c=z instantiations of all '
          'routines agree. Decides the leak / double-free / use-after-free clauses for all inputs and all exits, including the size-query, '
          'singular and out-of-space exits no test drives. Does not decide subscript ranges, uninitialised reads or undefined arithmetic.',
  'note': 'Known findings (48, ?gstrf/?gsitrf/?LUMemInit out-of-space exits) are listed in known_findings.txt; two leak classes were '
          'repaired by fix: commits. Trusted: ownership contract for caller-visible objects, GlobalLU_t-as-view, clang parser, own CFG.',
}
CLAIMS['C01'] = {
  'level': 'other',
  'technique': 'static analysis: flag-partitioned conditional constant propagation over the CFG with an event oracle (R3), permutation-role classification (R7), sibling agreement (R9)',
  'design_ref': 'DESIGN.md 4 R3 R7 R9, 5 C01',
  'text': 'Decides the dispatch glue of the simple driver and of the triangular-solve routine for every valuation of storage orientation, '
          'ColPerm, factorization outcome and Trans, in all four arithmetic types: row storage is factored as the transposed column view and '
          'solved with TRANS; ordering, post-ordering, factorization and solve are called in order with the documented arguments; the solve '
          'happens iff info == 0 and B is untouched otherwise; ?gstrs scatters/gathers with perm_r/perm_c in the roles implied by '
          'A = Pr^T L U Pc^T for each Trans and runs L before U (U^T before L^T) with the documented kernel flags. Each clause is a necessary '
          'condition of the residual bound (a tree violating it returns a wrong X for any unsymmetric matrix / non-identity permutation). '
          'The residual bound itself and the numerical kernels are not decided (only their s=d, c=z agreement is).',
  'note': 'Oracle written from the routine headers and the algebra A = Pr^T L U Pc^T (slucheck/props/c01.py). Representative values stand '
          'for the classes of info and nrhs. No-alias contract.',
}
CLAIMS['C05'] = {
  'level': 'other',
  'technique': 'static analysis: flag-partitioned constant propagation over the CFG with an algebraic event oracle (R3), field-sensitive effects (R10), sibling agreement (R9)',
  'design_ref': 'DESIGN.md 4 R3 R9 R10, 5 C05',
  'text': 'For each of the four ?gssvx and every valuation of Fact x Trans x Equil x storage x equed x outcomes of ?gsequ/?laqgs/?gstrf (about 370 '
          'leaf valuations per type) the events of the driver are checked against the algebra of the equilibrated system: which routine '
          'equilibrates which matrix and when, that A is not written when Equil = NO, which factor (R, C or none) multiplies B before and X '
          'after the solve for the effective transpose, the transpose sense handed to the solve for row storage, copy/scale/solve/unscale '
          'order, and that every subscript of B and X uses that matrix\'s own leading dimension. Necessary conditions of "X solves '
          'op(A)X = B for the original A, B; A, B mutated only as equed says". Accuracy of X is not decided.',
  'note': 'Known finding: {c,z}gssvx with row storage and Trans = CONJ solves A^T x = b (recorded, not repaired). Oracle in '
          'slucheck/props/_expert.py. Representative values for classes of info/nrhs/leading dimensions.',
}
CLAIMS['C11'] = {
  'level': 'other',
  'technique': 'static analysis: constant propagation of the machine-constant routine, flag-partitioned exploration of the scaling routine with taint of factor arrays (R8 over R3), structural rules on the AST',
  'design_ref': 'DESIGN.md 4 R8, 5 C11',
  'text': '?mach is evaluated symbolically for each documented letter and must return the LAPACK constant; ?laqgs is explored for every '
          'side of each threshold (rowcnd, colcnd against 0.1; amax against small = sfmin/prec and large) and must store the letter and apply '
          'exactly the factor arrays the documented rule selects (N<->{}, R<->{r}, C<->{c}, B<->{r,c}); ?gsequ must clamp each reciprocal '
          'into [smlnum, bignum], report an empty row as i+1 and an empty column as nrow+j+1 under exact zero tests, and measure magnitudes '
          'with fabs / ?_abs1. All four types. Not decided: that scaled maxima equal one up to rounding; rowcnd/colcnd/amax equal their '
          'definitions (data-dependent loops).',
  'note': 'IEEE-754 binary32/binary64 constants are the reference for ?mach. Oracle in slucheck/rules/r8_equil.py.',
}
CLAIMS['C02'] = {
  'level': 'other',
  'technique': 'static analysis: role-discovering structural rules on the pivot routine and the factor loop (guards, reaching definitions), permutation-shape classification (R7), sibling and twin agreement (R9)',
  'design_ref': 'DESIGN.md 5 C02',
  'text': 'Decides the pivoting clauses that are shapes of the code, for all inputs and all four types: which definitions of the pivot position reach the row interchange and under which tests (multipliers bounded by 1/u, diagonal preference, fallback when a remembered pivot fails), and the perm_r / inverse-permutation discipline that makes the row permutation a bijection on success. The kernels that compute the factors are covered only by agreement of their s/d and c/z instantiations and of the relaxed-supernode routines with their ILU twins. Pr*A*Pc = L*U within the rounding bound is not decided.',
  'note': 'Roles (running maximum, threshold, pivot position) are discovered from the code; a restructured but equivalent pivot routine would need the rule to be revisited (reported as a violation naming the construct).',
}
CLAIMS['C03'] = {
  'level': 'other',
  'technique': 'static analysis: creator-binding extraction and branch-twin comparison on the factor tail, ordering of count/fix-up/wrap, sibling and twin agreement (R9)',
  'design_ref': 'DESIGN.md 5 C03',
  'text': 'Decides that L and U are wired to the arrays that were filled and counted: count and fix-up precede the wrap, and the reuse branch refreshes every field the creators bind to a count or a growable array (binding read from the creators themselves). Symbolic kernels are covered by s=d, c=z agreement. Partitioning of columns into supernodes, ordering/distinctness of row lists and absence of repeats in U are data-dependent loop invariants and are not decided.',
  'note': 'Fields bound to supno[] / xsup[] are exempt from the refresh rule (fixed size n+1, updated in place).',
}
CLAIMS['C04'] = {
  'level': 'other',
  'technique': 'static analysis: structural guard rules on the pivot routine, first-failure rule on the factor loop, flag-partitioned event oracle on both drivers (R3), sibling agreement (R9)',
  'design_ref': 'DESIGN.md 5 C04',
  'text': 'Decides, for all inputs: the singular report is `jcol+1` under an exact zero test of the running maximum with no side effect on perm_r; a zero entry can never be chosen while a non-zero candidate exists; the first singular column is the one reported while later columns are still processed; after info != 0 neither driver calls a solve/refinement/condition routine nor writes B or X (every flag valuation). Not decided: validity of the leading block; that structural singularity always reaches a zero maximum.',
  'note': 'Representative values stand for the classes of info (0, 1..n, >n).',
}
CLAIMS['C06'] = {
  'level': 'other',
  'technique': 'static analysis: flag-partitioned event oracle on the expert driver and sp_preorder (R3), creator-binding branch twin, field-sensitive may-write sets (R10), sibling agreement (R9)',
  'design_ref': 'DESIGN.md 5 C06',
  'text': 'Decides which phases run for each Fact value (all valuations, four types), that reuse modes leave perm_c/etree alone, that the reuse tail of the factor routine refreshes every rebindable field of L and U, that the solve-side routines cannot write any path under L or U (sound may-write over-approximation under the no-alias contract), and the pivot fallback. Accuracy of each call in a history is not decided.',
  'note': 'No-alias contract between distinct pointer arguments; external BLAS effects from a reviewed table.',
}
CLAIMS['C12'] = {
  'level': 'other',
  'technique': 'static analysis: flag-partitioned event oracles on the driver and on the estimator routine (R3), structural loop-bound / inverse-permutation rules on the growth routine, sibling agreement (R9)',
  'design_ref': 'DESIGN.md 5 C12',
  'text': 'Decides the glue on which the estimate and the growth factor depend, for every flag valuation and all four types: norm letter tied to the effective transpose and shared by ?langs and ?gscon, the kase -> solve-sequence table of ?gscon and the rcond formula, no warning without an estimate, growth computed over the leading *info columns on a singular return, A read through the inverse of perm_c and every update of the growth factor bounded by ncols inside a supernode. That the estimate is a one-sided bound and that the growth equals its definition are statements about values and are not decided.',
  'note': 'Plain transposed solves are accepted for the complex estimator (they cannot break the one-sided bound).',
}
CLAIMS['C13'] = {
  'level': 'other',
  'technique': 'static analysis: flag-partitioned event oracles on the driver and on the refinement routine (R3), must-pass-through and guard rules on the CFG of the stopping loop, sibling agreement (R9)',
  'design_ref': 'DESIGN.md 5 C13',
  'text': "Decides: refinement off -> no ?gsrfs and ferr = berr = 1.0 exactly; refinement on -> ?gsrfs on the equilibrated system with the solve's transpose sense, between solve and unscaling; inside ?gsrfs the residual, correction and estimator solves use the transpose letters the system requires (incl. C for CONJ in complex units) with the right scaling side; at most 5 updates; BERR is recomputed after every update on every path to the exit. Equality of BERR with the true backward error and finiteness of FERR are not decided.",
  'note': 'Representative kase values {0,1,2}; data-dependent loop tests are explored both ways.',
}
CLAIMS['C14'] = {
  'level': 'other',
  'technique': 'static analysis: flag-partitioned event oracle over all documented flag spellings (R3), field-sensitive may-write sets (R10), sibling agreement (R9)',
  'design_ref': 'DESIGN.md 5 C14',
  'text': 'Decides for all four types: the (uplo, trans, diag) -> dense-kernel dispatch table and sweep direction of sp_?trsv; vector lengths, start offsets, beta scaling extent and alpha/beta short-cuts of sp_?gemv for every documented spelling; which spellings the screening accepts; that each kernel can write only its output operand (sound over-approximation); permutation roles and kernel order of ?gstrs. The computed values themselves are not decided.',
  'note': 'Known findings: sp_?trsv rejects the documented lower-case spellings, sp_?gemv rejects t and c. One defect (vector lengths for TRANS = n in the real variants) was repaired by a fix: commit. The rule for sp_?gemv anchors on the locals lenx/leny/kx/ky (exit 2 if they vanish).',
}
CLAIMS['C07'] = {
  'level': 'other',
  'technique': 'static analysis: forward staleness dataflow over the CFG with a may-expand call summary (R5), guard-shape rules on expansion sites, structural rules on the expander and the in-place shift, sibling agreement (R9)',
  'design_ref': 'DESIGN.md 4 R5, 5 C07',
  'text': 'Decides, for every routine that can reach an expansion and all four types: no local alias of a growable array (or of an array laid out behind it in a caller workspace) is used after a possible move without being re-read; every expansion is driven by the capacity it enlarges with the right comparison and is repeated when several elements are needed; ?expand shifts every later array and its bookkeeping by the same amount, copies with the right element width under malloc, and user_bcopy moves every byte. Each is a necessary condition of bit-for-bit independence from the storage mode / fill estimate. Bit equality itself is not decided.',
  'note': 'Layout order lusup < ucol < lsub < usub is read off ?expand and encoded in the rule.',
}
CLAIMS['C08'] = {
  'level': 'other',
  'technique': 'static analysis: who-may-write rule, linear-form invariant dataflow over the allocator routines, guard/NULL/release rules (R6), failure-propagation rules (R5), flag-partitioned query oracle on the drivers (R3), sibling agreement (R9)',
  'design_ref': 'DESIGN.md 4 R5 R6, 5 C08',
  'text': 'Decides: only the allocator touches the workspace bookkeeping; used = top1 + size - top2 is an inductive invariant of every allocator routine (so the fullness test is exact and nothing is granted outside [work, work+lwork)); NULL returns are honoured; releases match successful acquisitions; every expansion failure is returned at once as a non-zero byte count up to info; which arguments an lwork = -1 query writes. Not decided: subscript ranges inside numerical kernels.',
  'note': 'One defect was repaired by a fix: commit (?LUMemInit underflow of a too small workspace, replayed concretely). Known findings: the size query of the eight expert drivers has side effects (recorded). Positive-control fixture for the zero-count rules.',
}
CLAIMS['C10'] = {
  'level': 'other',
  'technique': 'static analysis: flag-partitioned event oracles on get_perm_c and sp_preorder (R3) with permutation-shape classification (R7), must-not-read effect sets (R10), ownership dataflow (R4), allocation/initialisation extent rule, twin agreement',
  'design_ref': 'DESIGN.md 5 C10',
  'text': "Decides the glue around the ordering algorithms for every ColPerm value and Fact / SymmetricMode setting: dispatch, index-base conversion paired on both sides of the 1-based MMD routine with the right extents, identity for NATURAL and for an empty structure, private copies and inversion around COLAMD, permutation roles in sp_preorder (scatter by perm_c; relabel etree/colbeg/colend by post; compose perm_c with post; nothing in reuse modes; no post-order in symmetric mode), no read of a matrix value anywhere in the ordering code (pattern-only dependence), no leak on any exit. The correctness of MMD / COLAMD / Liu's algorithm themselves (bijection, exact tree, contiguous post-order) is not decided; of the relaxed-supernode routines only agreement with their ILU twins is.",
  'note': "A seeded change inside COLAMD's scoring loop is not detected (values, not shape).",
}
CLAIMS['C15'] = {
  'level': 'other',
  'technique': 'static analysis: flag-partitioned event oracle on the ILU driver incl. the MC64 path with must-pass-through on restore loops (R3), capacity/alias rules on the ILU producers (R5), ownership dataflow (R4), inclusive-bound consistency rule, sibling and twin agreement (R9)',
  'design_ref': 'DESIGN.md 5 C15',
  'text': "Decides for ?gsisx (all valuations, four types): equilibration / scaling / transpose glue as for the expert driver; MC64 dispatch, fall-back, exponentiation of both duals, scaling by both, equed = B; A's row indices restored by the inverse relabel on every return after the relabel (size-query exit: see known finding under C08); perm_r folded with the MC64 permutation. For the ILU producers: every append capacity-checked (incl. the zero-column fill, repaired by a fix: commit), aliases re-read; count / fix-up / wrap order and reuse-branch refresh of ?gsitrf; no leak in the ILU routines; loops up to relax_end[] inclusive. Breakdown-freedom and exactness with dropping off are statements about values and are not decided.",
  'note': 'Known finding: {c,z}gsisx with row storage and Trans = CONJ (as {c,z}gssvx). The out-of-space exits of ?gsitrf are recorded under C19.',
}
CLAIMS['C17'] = {
  'level': 'other',
  'technique': 'static analysis: event oracle with must-pass-through on the restore loops around the 1-based MC64 call (R3), sound may-write set of MC64 (R10), ownership dataflow (R4), sibling agreement (R9)',
  'design_ref': 'DESIGN.md 5 C17',
  'text': "Decides the clauses that are shapes of the code: the caller's index arrays are shifted to 1-based and back with the right extents on every path to a return, perm is returned 0-based, the duals are handed back for job 5, the MC64 status is the return value on every exit (and the ILU driver tests it, C15), and MC64 cannot write the caller's pattern or values. That the permutation is a maximum-product matching with unit scaling is a statement about the algorithm's values and is not decided (a seeded change inside mc64wd_ is not detected).",
  'note': 'No-alias contract; may-write set of the f2c-derived MC64 code is computed from its parsed source.',
}
CLAIMS['C20'] = {
  'level': 'other',
  'technique': 'static analysis: flag-partitioned event oracle per request code (R3), sound may-write set (R10), allocation/release ledger between requests, ownership dataflow (R4), static-storage census (R1), sibling agreement (R9)',
  'design_ref': 'DESIGN.md 5 C20',
  'text': "Decides for the four bridges: a factor request copies (value - 1, full extent) instead of modifying the caller's arrays, runs the same ordered phases as the simple driver on the matrix built from those copies and parks exactly the factored objects in the handle; a solve request wraps b with its leading dimension and solves with the objects read back from the handle; a free request releases everything the factor request allocated (incl. every pointer field of L and U through the destroyers) and the handle last; no request can write values / rowind / colptr; no temporary leaks; the bridge has no file-scope state (handles cannot interfere). Numerical equality with the C driver is not decided.",
  'note': 'The tested build does not compile FORTRAN/; the units are parsed with the same flags.',
}
CLAIMS['C16'] = {
  'level': 'other',
  'technique': 'static analysis: structural AST rules on the readers (index-base conversion, buffer/width agreement, scanf conversion vs pointee type, equal extents of co-indexed arrays), ownership dataflow (R4), sibling and twin agreement (R9)',
  'design_ref': 'DESIGN.md 5 C16',
  'text': "Only the clauses whose truth is in the shape of the code are decided: 1-based file indices become 0-based exactly once; no read can overrun a line/field buffer; every scanf conversion matches its argument's type; arrays filled in lock step have equal extents; temporaries are released; the s/d and c/z readers and the HB/RB copies of the parsing helpers and of the symmetric expansion agree. That the returned matrix equals the file (field slicing, exponent handling, entry order, size of the symmetric expansion with missing diagonal entries) cannot be decided by this family and is NOT claimed.",
  'note': 'This is the thinnest claim of the set; most of the property is listed as not decided in the evidence explanation.',
}
NOT_APPLICABLE = {}

# ---------------------------------------------------------------- additions of the second build session (rules added after round 2 of seeded changes)
_ADD = {
 'C01': ('; kernel rules (scratch cleared after accumulating calls, segment-size guard agreement, tempv layout, leading-dimension discipline)',
         ' Added necessary conditions on the numerical updates: every accumulating dense call (?gemm_/?gemv_ with beta = 1, ?matvec) into a scratch vector is '
         'followed on every path by a loop that zeroes it; in the 2-D panel update all statements touching the parked triangular-solve vectors run for one and '
         'the same set of segment sizes; ?LUWorkInit, ?SetRWork and ?panel_bmod agree on the per-column layout of tempv in terms of sp_ienv; every product that '
         'contributes to a position in the supernodal value block has the leading dimension as a factor.'),
 'C02': ('; index-kind (units-of-measure) dataflow R11; factor-kernel rules',
         ' R11: a forward dataflow assigns every integer local the kind of index it holds (row, column, pivot position, supernode, place in lsub/lusup/usub) '
         'from the documented domain/range of each array and from loop bounds, and reports subscripts, stored values and array arguments of a definitely wrong '
         'kind (perm_c where iperm_c is expected, a loop over the column count sweeping perm_r). The factor-kernel rules of C01 run here as well.'),
 'C03': ('; index-kind dataflow R11; drop-row alignment', ' R11 index kinds (see C02): e.g. the completion of perm_r must sweep all m rows. ilu_?drop_row moves the values and the subscript of a row between the same two slots.'),
 'C05': ('; factor-kernel rules', ' The factor-kernel rules of C01 (segment-size guard agreement, tempv layout, leading-dimension discipline) run here as well: the solve is only as good as the factors.'),
 'C20': ('; factor-kernel rules', ' The factor-kernel rules of C01 run here as well (the bridge factors with the default tuning, where the 2-D panel update is active).'),
 'C06': ('; GlobalLU_t mirror rule; workspace-stack invariant R6',
         ' Locals named after GlobalLU_t fields are loaded from / stored to the field of the same name (603 sites), and the stack bookkeeping of the caller '
         'workspace is preserved by ?LUWorkFree (R6), so that a re-factorization starts from consistent capacities and a consistent stack.'),
 'C07': ('; stale capacity copies (R5.b), R6, mirror rule, copy helpers, moved-block extent',
         ' R5.b also tracks local copies of the capacities nzlumax / nzumax / nzlmax (stale after a call that may raise them unless refreshed through &maxlen); '
         'copy_mem_* move `howmany` elements of their element type; the block shifted by ?expand ends at stack.top1.'),
 'C08': ('; moved-block extent; usable size within lwork',
         ' The block shifted by ?expand is [expanders[type+1].mem, stack.array + stack.top1); stack.size / stack.top2 derived from lwork never exceed lwork and are '
         'multiples of 4 (closed form evaluated over several periods).'),
 'C09': ('; shared inputs never written (R10); re-entry state of ?lacon2; fill extents',
         ' R10.shared: L, U, the permutations and the matrix arrays handed to the bridge are in no may-write set of the solve-side routines / the bridge. '
         'R1.vi: per-resume-state must-be-written dataflow shows that every slot of the caller-side isave[] of ?lacon2 is written before it is read on every call '
         'history. R1.v: the filled extent of each carved work array equals the carved length.'),
 'C10': ('; index-kind dataflow R11', ' R11 index kinds incl. allocation extents of local arrays in the rectangular-capable routines (getata, sp_coletree ...).'),
 'C12': ('; scratch rule on sp_?trsv; re-entry state of ?lacon2; warning test on every path',
         ' The comparison of rcond with machine epsilon lies on every path from ?gscon to a return (also for nrhs = 0); sp_?trsv keeps its gemv scratch cleared; '
         'isave[] of ?lacon2 is written before read on every call history.'),
 'C13': ('; guarded division', ' Every division by an element of the BERR denominator array sits under a test that excludes an exactly-zero denominator.'),
 'C14': ('; kernel rules (scratch, strided cursors, unrolled column pointers)',
         ' Scratch vectors cleared after accumulating calls; cursors advanced by a stride parameter advance once per iteration; the column pointers of the '
         'bundled ?lsolve / ?matvec blocks start at M0 + j*ldm (+ j+1) by linear-form evaluation.'),
 'C15': ('; index-kind dataflow R11; drop-row alignment', ' R11 (swap/iswap of the ILU pivoting are position->row / row->position); ilu_?drop_row moves the values and the subscript of a row between the same two slots.'),
 'C16': ('; header keyword, field slices, symmetric-expansion capacity, allocation element size',
         ' ?readMM lets through exactly the arithmetic keyword of its data type; every line-buffer access in the per-field loops depends on the field counter; '
         'arrays receiving the symmetric expansion are sized 2*nnz minus a counted number of stored diagonal entries (or 2*nnz); raw allocations are sized with '
         'an element at least as large as the pointee. Three reader defects found by these rules were repaired in /repo.'),
 'C17': ('; in-place list hazard; match counter rule',
         ' No MC64 loop reads the shared work array q[] as a list while writing it (the defect this found in mc64wd_ is repaired in /repo); *num is advanced in the '
         'augmenting loop only behind csp != rinf.'),
 'C19': ('; allocation element size; index-kind dataflow R11; predicates killed on address-taken scalars',
         ' Every raw allocation is sized with an element at least as large as the pointee in both index widths; R11 index kinds / local allocation extents; a guard '
         'variable whose address was passed to a callee no longer correlates an allocation with its release.'),
}
_RC = (' R9c: wherever the exact sibling rule runs, the integer skeletons (subscripts, positions, loop bounds, integer tests, call operands; floating '
       'statements reduced to their indexed accesses) of the d and z instantiations must agree as well, so a change made to the real pair only (or the '
       'complex pair only) is seen.')
for _k in CLAIMS:
    if 'R9' in CLAIMS[_k]['technique'] or 'sibling' in CLAIMS[_k]['technique']:
        CLAIMS[_k]['text'] += _RC
for _k, (_t, _x) in _ADD.items():
    CLAIMS[_k]['technique'] += _t
    CLAIMS[_k]['text'] += _x

# ---------------------------------------------------------------- additions after round 3
_ADD3 = {
 'C01': ('; polynomial-domain abstract interpretation of the supernodal update kernels (R12); sp_preorder oracle',
         ' R12: a forward flow analysis over integer polynomials (one pass per segment-size class and blocking branch, counting loops summarised by their affine '
         'induction variables, obligations decided as polynomial identities) shows for ?column_bmod and ?panel_bmod (real types; the complex ones are tied to them by '
         'R9c/R9) that every access to the supernode block is the entry the triangular solve / block product needs, that forward substitution uses only final '
         'values, that solved entries return to their rows and that the rows below receive the whole segment. The sp_preorder oracle (post-order whenever '
         'SymmetricMode = NO, for every ColPerm) runs here as well.'),
 'C02': ('; R12 kernel index analysis; option-controlled choices evaluated over all valuations',
         ' R12 as in C01. The choice heap_relax_snode / relax_snode and the definition of usepr are evaluated under every valuation of (Fact, SymmetricMode, ColPerm).'),
 'C03': ('; option-controlled choices', ' Heap relaxation is used exactly when SymmetricMode = YES (evaluated over all option valuations).'),
 'C05': ('; phases group and ?gstrs dispatch oracle', ' Which phases run per Fact value (get_perm_c only for DOFACT) and the Trans dispatch of ?gstrs are decided here as well.'),
 'C06': ('; R5, structure of ?expand, option-controlled choices', ' R5 (incl. the entry count handed to ?LUMemXpand is the append cursor), the structure rules of ?expand and the usepr rule run here as well.'),
 'C07': ('; growth progress, append cursor, extent-before-booking', ' A successful ordinary expansion has grown the array; the count carried over is the append cursor; the block to shift is measured before the growth is booked.'),
 'C08': ('; growth progress (hang), retry only without keep_prev, rollback mark after the kept arrays',
         ' Every path from a reduced request to a successful return of ?expand tests new_len against *prev_len (the missing test was a hang on the pinned tree, repaired); '
         'retry loops run only for ordinary requests; the rollback mark of ?LUMemInit is taken after the five kept arrays.'),
 'C09': ('; output-only arguments do not steer the computation', ' usepr only for SamePattern_SameRowPerm; rcond is consulted only when it was computed (R3 cond group).'),
 'C10': ('; sp_preorder oracle split on ColPerm', ' The post-ordering may not depend on how perm_c was obtained.'),
 'C11': ('; boundary representatives', ' The ?laqgs oracle includes amax exactly equal to SMALL and LARGE.'),
 'C12': ('; supernode sweep rule', ' Every sweep of sp_?trsv covers supernodes 0..nsuper, never leaves an iteration early, and the block solve is guarded by the column count only.'),
 'C13': ('; accumulator re-initialisation', ' The BERR denominator is re-initialised inside the refinement loop before the products are added.'),
 'C14': ('; supernode sweep, beta = 0 assignment', ' Sweep rule as in C12; sp_?gemv assigns zero (does not multiply) for beta = 0 in both stride forms.'),
 'C15': ('; append cursor (R5)', ' The count handed to ?LUMemXpand by ilu_?copy_to_ucol is the append cursor.'),
 'C16': ('; terminator dominance, scatter alignment', ' A fixed-width header field is converted only after a dominating terminator store; index and value of a triplet are moved together.'),
 'C19': ('; path use-after-release; relaxed supernode width', ' A path released by SUPERLU_FREE(p->q) is not used again in the same statement list; relaxed supernodes have at most relax columns (the histogram extent).'),
 'C20': ('; path use-after-release', ' In the bridge a handle field is not used after the statement that released it.'),
}
for _k, (_t, _x) in _ADD3.items():
    CLAIMS[_k]['technique'] += _t
    CLAIMS[_k]['text'] += _x

# rules derived from the defect-hunting round (DESIGN.md 12.9)
_ADD4 = {
 'C04': ('; remembered pivot position validated', ' A remembered pivot position is used only after a test that it was found in the column (the sentinel is SLU_EMPTY, not 0).'),
 'C06': ('; strict pre-check before un-checked appends', ' An array that is appended to before the capacity test (lsub in ?snode_dfs) is pre-checked with >=.'),
 'C08': ('; failure status exceeds n; retry loop gives up at its fixpoint',
         ' Every failure return of ?LUMemInit is n plus an addend that is positive by construction (n = 0, nnz = 0 included); the give-up test of its retry loop holds once the halved guess is 0.'),
 'C12': ('; PivotGrowth scan bound', ' The scan of a supernode column in ?PivotGrowth is bounded by the rows the supernode has.'),
 'C13': ('; guard-term symmetry of the BERR ratio', ' A guard term added to the residual in the numerator of the BERR ratio is added to the denominator as well (else BERR > 1 for an exact solution).'),
 'C14': ('; scratch cleared with an explicit zero', ' The gemv scratch of sp_?trsv is cleared with a constant whose both parts are written.'),
 'C15': ('; ILU guard oracle group', ' ?gsisx returns on info > n before touching L, U and still solves for 0 < info <= n.'),
 'C18': ('; first-illegal-argument-wins dataflow (R2.p); narrowed-domain screening',
         ' R2.p: a may-analysis over the CFG of the screening region shows that no code store is reachable while info already holds a code. A precondition that is only tested under an enclosing guard on one of its own quantities counts as unscreened. The oracle includes B/X column counts of ?gstrs / ?gsrfs and the ColPerm enumeration range.'),
 'C19': ('; parked-block rule; bound-before-subscript lint; scratch extent of the relaxed-supernode search',
         ' A block parked in a caller-owned structure (Glu->expanders) is released on every return that does not report success; a short-circuit condition bounds an index by a dimension before it subscripts with it; arrays handed to the relaxed-supernode search are allocated from the column count.'),
}
for _k, (_t, _x) in _ADD4.items():
    CLAIMS[_k]['technique'] += _t
    CLAIMS[_k]['text'] += _x

# rules of DESIGN.md 12.10
_ADD5 = {
 'C03': ('; hole-fill rule', ' In-place compaction of U during secondary dropping fills the hole from the slot the loop test has just vouched for (no change of the bound variable between test and copy).'),
 'C15': ('; hole-fill rule; quick-select scan/move complement', ' Same hole-fill rule; in ?qselect every scan and the conditional move after it test the element with complementary operators, so ties make progress.'),
 'C16': ('; bounded string conversions', ' Every %s / %[ conversion of a scanf-family call carries a field width that fits the receiving array.'),
 'C17': ('; MC64 heap rules, reset coverage, linear/logarithmic domain analysis',
         ' The three heap routines: max- and min-heap branches are mirror images, child/parent index tests of a 1-based heap, orientation of the max-heap. The search epilogues un-mark the whole pushed stack (from its store frontier) and the heap. A units-of-measure flow analysis of the scaling job keeps linear magnitudes and logarithmic costs/duals apart, allows the empty-marker test on linear values only, and requires the duals to leave as logarithms.'),
 'C19': ('; lent-variable rule', ' A variable lent to a status-returning callee and used as a subscript on the non-zero-status branch is stored on every path to that status (8 recorded findings in ilu_?pivotL).'),
}
for _k, (_t, _x) in _ADD5.items():
    CLAIMS[_k]['technique'] += _t
    CLAIMS[_k]['text'] += _x

# rules of DESIGN.md 12.11 (round 4)
_ADD6 = {
 'C01': ('; leading-dimension agreement', ' Each dense array of ?gstrs is addressed with one leading dimension (column addresses and BLAS operand pairs agree).'),
 'C03': ('; relax twins; fixupL relabelling rule', ' The relaxed-supernode routines agree with their ILU twins; an early return of fixupL is taken only for an empty matrix.'),
 'C05': ('; refine group; leading-dimension agreement; fixupL relabelling rule', ' ?gsrfs receives the same (storage-adjusted) transpose flag as the solve; one leading dimension per dense array in ?gstrs / ?gsrfs / sp_?gemm; fixupL relabels L for every matrix that has a column.'),
 'C07': ('; relaxed-supernode capacity', ' The LUSUP demand in front of a relaxed supernode covers every column the unchecked storing loop writes.'),
 'C09': ('; complete in-place shift', ' The in-place shift of the caller workspace copies every byte (no residue of earlier buffer contents reaches the factors).'),
 'C10': ('; COLAMD downward slots; sentinel of the first-column table', ' Order slots handed out from the top use the pre-decremented cursor; the sentinel that primes firstcol[] is the bound of the recorded values.'),
 'C11': ('; ratios of clamped extremes', ' rowcnd / colcnd are ratios of the clamped extremes (the factors are reciprocals of the clamped maxima).'),
 'C12': ('; complex 1-norm sums true moduli', ' scsum1 / dzsum1 add c_abs / z_abs of the elements.'),
 'C13': ('; column-sum pairing', ' Every sum over the entries of a stored column pairs the column index with the row index (one for the vector, one for the target).'),
 'C15': ('; empty-column rule', ' An empty L column always starts a new supernode in ilu_?column_dfs (supernodes keep at least as many rows as columns).'),
 'C17': ('; heap-position typestate; infinite cost for zero magnitudes', ' In revisiting column scans the heap routines are reached only behind the false edge of the finalised-row test; a zero magnitude receives a cost derived from the overflow threshold.'),
 'C18': ('; else-sides of non-row conditions narrow', ' A precondition reachable only on the else side of a condition that is not itself a screening row counts as unscreened.'),
 'C19': ('; relaxed-supernode capacity; reuse tail', ' Relaxed-supernode demand rule as in C07; the reuse tail of ?gstrf re-attaches every growable array.'),
 'C20': ('; sp_preorder oracle', ' The perm_c kept in the handle is post o perm_c (R3 oracle of sp_preorder).'),
}
for _k, (_t, _x) in _ADD6.items():
    CLAIMS[_k]['technique'] += _t
    CLAIMS[_k]['text'] += _x

# rules of DESIGN.md 12.12 (round 5)
_ADD7 = {
 'C01': ('; DFS copies agree; paired cursors', ' The two copies of the row handling in ?column_dfs agree up to renaming; the subscript and value cursors of the scalar loops of ?gstrs are aligned.'),
 'C02': ('; DFS copies agree; *pivrow / pivptr in sync; R5', ' DFS copies agree; at perm_r[*pivrow] = jcol the row number and the position name the same row (dataflow split on *usepr); R5 stale-alias rules run here as well.'),
 'C03': ('; DFS copies agree (LU and ILU); *pivrow / pivptr in sync; drop-row pointer fix-up', ' DFS copies agree; pivot row recorded is the row moved; the pointer fix-up after dropping covers exactly the columns of the supernode.'),
 'C04': ('; kernel index rules; DFS copies agree; *pivrow / pivptr in sync', ' The polynomial-domain kernel analysis and stride rules run here too (a wrong update decides which candidates are exactly zero); DFS copies agree; pivot row in sync.'),
 'C05': ('; kernel index rules; LD binding; conjugate branch', ' R12 and the stride rules; an array is addressed with the lda of its own store; the trans = C branches conjugate every element they use.'),
 'C06': ('; reuse branch keeps the workspace stack; conjugate branch', ' Nothing on the SamePattern_SameRowPerm branch of ?LUMemInit empties the stack; conjugate branches as in C05.'),
 'C07': ('; companion reservation', ' Room booked for USUB next to a UCOL growth suffices for every precision.'),
 'C08': ('; reuse branch keeps the workspace stack', ' As in C06.'),
 'C09': ('; reserved slot initialised', ' The fill position reserved for an empty ILU column is written before it is read.'),
 'C11': ('; fresh initialisation per folding pass; extents of r[] and c[]', ' rcmin / rcmax are re-initialised between the row and the column pass.'),
 'C12': ('; paired cursors; estimate is a magnitude; alternating vector', ' Cursor alignment in sp_?trsv; every store to *est in ?lacon2 is a magnitude by construction; the alternating test vector ramps over the zero-based index.'),
 'C13': ('; LD agreement and binding; estimate is a magnitude', ' B and X are addressed with their own leading dimensions; *est is a magnitude (FERR non-negative).'),
 'C14': ('; paired cursors; conjugate branch', ' As in C12 / C05.'),
 'C15': ('; DFS copies agree (ILU); ILU threshold guard; reserved slot', ' ilu_?column_dfs copies agree; pivot candidates need mag != 0 && mag >= thresh; reserved fill slot initialised.'),
 'C16': ('; precision purity of the d/z readers', ' No single-precision floating declaration in the double-precision readers.'),
 'C17': ('; inclusive DO loops', ' Every counted loop of mc64ad.c is inclusive.'),
 'C18': ('; no return before the screening', ' No return statement precedes the argument tests.'),
 'C19': ('; extents of r[] / c[] in the equilibration routines', ' r[] is indexed below the row count, c[] below the column count.'),
 'C20': ('; kernel index rules; copy helpers', ' R12 and the copy helpers of the in-place growth run here as well.'),
}
for _k, (_t, _x) in _ADD7.items():
    CLAIMS[_k]['technique'] += _t
    CLAIMS[_k]['text'] += _x

# rules of DESIGN.md 12.13 (round 6)
_ADD8 = {
 'C01': ('; R5', ' The R5 expansion rules (append cursor, stale aliases) run here as well.'),
 'C03': ('; loop-variable lint', ' Every counted loop of SRC uses its induction variable or visibly advances another cursor.'),
 'C07': ('; layout order of the growable arrays', ' Both allocation groups of ?LUMemInit create LUSUP, UCOL, LSUB, USUB in the order ?expand assumes.'),
 'C08': ('; relaxed-supernode capacity', ' As in C07.'),
 'C09': ('; scratch initialised before it is read', ' descendants[] is zeroed before the subtree sizes are accumulated; knobs[] goes through colamd_set_defaults.'),
 'C11': ('; start values of the running extremes', ' rcmin starts at bignum and rcmax at 0 in every pass.'),
 'C15': ('; ILU magnitude switches agree; marker_relax kinds', ' The three milu switches of ilu_?pivotL measure a candidate the same way; marker_relax[] is indexed by rows.'),
 'C17': ('; copy-out of the scalings', ' ?ldperm copies u and v out for every MC64 status.'),
 'C20': ('; LD agreement in ?gstrs incl. walking pointers', ' The right-hand-side block is addressed with ldb everywhere, also by the pointer that walks its columns.'),
}
for _k, (_t, _x) in _ADD8.items():
    CLAIMS[_k]['technique'] += _t
    CLAIMS[_k]['text'] += _x
_ADD9 = {
 'C03': ('; byte coverage of the in-place shift', ' user_bcopy moves every byte of [dest, dest+bytes).'),
 'C04': ('; complex magnitude dependence', ' c_abs / c_abs1 / z_abs / z_abs1 return a value that depends on both parts of the argument.'),
 'C09': ('; quick-select input filled', ' The scratch array handed to ?qselect is filled for exactly the entries the selection reads.'),
 'C10': ('; view header; MMD weight conservation', ' sp_preorder copies nrow / ncol / Dtype / Mtype of A field by field; every absorption in mmd.c zeroes the weight of the absorbed node.'),
 'C11': ('; R11 index kinds on ?gsequ / ?laqgs; complex magnitude dependence', ' r[] is indexed below the row count and c[] below the column count; the complex magnitude takes both parts.'),
 'C15': ('; quick-select input filled; complex magnitude dependence', ' As in C09 / C04.'),
 'C16': ('; header record layout', ' The fixed-column header records of the HB / RB readers are consumed with the field widths the formats define.'),
}
for _k, (_t, _x) in _ADD9.items():
    CLAIMS[_k]['technique'] += _t
    CLAIMS[_k]['text'] += _x
