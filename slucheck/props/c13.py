"""C13 Reported backward error is the true backward error of the returned X  —  R3 (driver refine group, ?gsrfs), CFG rules on the stopping loop, R9."""
from ..facts import Program
from ..run import Check, AnalysisBroken
from ..rules import refine, r9_sibling
from ..rules.effects import PathEffects
from . import _drv, _gssvx, _expert

R9_UNITS = ['gsrfs.c', 'gssvx.c', 'sp_blas2.c', 'lacon2.c']


def run(tier):
    chk = Check('C13', tier, level='other')
    chk.explanation = (
        'R3 on ?gssvx: IterRefine = NOREFINE -> no ?gsrfs call and ferr[j] = berr[j] = 1.0 exactly; otherwise ?gsrfs(trant, AA, L, U, perm_c, '
        'perm_r, equed, R, C, B, X, ferr, berr, ...) with the same trant as the solve, after ?gstrs and before X is unscaled (BERR refers to '
        'the equilibrated system). R3 on ?gsrfs (trans x equed x kase): residual formed with sp_?gemv(N|T|C following trans, -1, A, X, 1, 1, '
        'work, 1); correction solved with trans; estimator solve with the opposite sense for kase = 1 and the same for kase = 2, work scaled '
        'by C (no-transpose, column-equilibrated) or R (transpose, row-equilibrated) on the correct side of it. CFG rules: the update is '
        'guarded by count < 5, count is reset per right-hand side and incremented once per update, and every path from an update to the '
        'function exit passes through the store to berr[j]. R9 siblings. Not decided: BERR equals the true backward error; FERR finite.')
    cfgs = ['tested'] if tier == 'quick' else ['tested', 'cblas', 'idx64']
    chk.configs = cfgs
    for cfgname in cfgs:
        prog = Program.load(which=('SRC',), cfg=cfgname)
        eff = PathEffects(prog)
        chk.clause('C13.refine', 'R3 oracle group `refine` of ?gssvx (D2)')
        chk.clause('C13.D3', 'R3 oracle of ?gsrfs')
        chk.clause('C13.D1', 'stopping rule and BERR recomputation')
        n = n2 = 0
        for p in _drv.PRECS:
            f, fl, leaves = _gssvx.leaves_for(prog, eff, p, ilu=False, tier=tier, split=('Fact', 'Trans', 'A.Stype', 'IterRefine', 'B.ncol', 'info'))
            ctx = _expert.Ctx(prog, f, fl, p, False)
            _expert.run_leaf_groups(chk, 'C13', ctx, leaves, ('refine',), cfgname)
            n += len(leaves)
            n2 += refine.gsrfs_oracle(chk, 'C13.D3', prog, eff, p, cfgname)
            refine.stopping_rule(chk, 'C13.D1', prog, p, cfgname)
            refine.guarded_division(chk, 'C13.D1', prog, p, cfgname)
            refine.accumulator_init_rule(chk, 'C13.D1', prog, p, cfgname)
        if n < 400 or n2 < 4 * 12:
            raise AnalysisBroken('C13: %d driver leaves, %d gsrfs leaves' % (n, n2))
        from ..rules import kernels as _k
        _k.leading_dimension_agreement(chk, 'C13.ld', prog, [q + 'gsrfs' for q in 'sdcz'], cfgname, floor=4)
        from ..rules import cond as _cond
        chk.clause('C13.est', 'the norm estimate behind FERR is a magnitude by construction')
        for _p in 'sdcz':
            _cond.estimate_nonnegative_rule(chk, 'C13.est', prog, _p, cfgname)
        refine.matvec_pairing_rule(chk, 'C13.pair', prog, [q + 'gsrfs' for q in 'sdcz'] + ['sp_%sgemv' % q for q in 'sdcz'], cfgname, floor=8)
        if cfgname == 'tested':
            r9_sibling.run(chk, prog, 'C13.D4', {p + u for p in 'dz' for u in R9_UNITS}, cfgname)
    return chk.finish()
