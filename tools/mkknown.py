#!/usr/bin/env python3
"""Print known-findings lines for the violations of the last run of a property (from reports/).  Reviewed by hand before
being pasted into known_findings.txt; never used at check time."""
import sys, os, json, glob
VERIF = os.path.dirname(os.path.dirname(os.path.abspath(__file__)))
prop = sys.argv[1]
flt = sys.argv[2] if len(sys.argv) > 2 else ''
for p in sorted(glob.glob(os.path.join(VERIF, 'reports', prop + '_*.json'))):
    v = json.load(open(p))
    if flt and flt not in v['key']:
        continue
    what = v['what'].replace('\n', ' ')
    print('finding: property=%s rule=%s key=%s:%s what=%s in %s: %s' % (prop, v['rule'].replace(' ', '_'), v['clause'], v['key'], v['function'], v['function'], what[:300]))
