"""Small repository-specific consistency rules (each with the belief it encodes)."""
from ..facts import strip, callee_name, const_value, loc, root_ref, canon
from ..ir import pretty


def relax_end_inclusive(chk, cid, prog, cfgname):
    """relax_end[j] holds the LAST column of the relaxed supernode that starts at j (relax_snode / heap_relax_snode write it so,
    ?gstrf / ?gsitrf / mark_relax read it).  Hence every loop that runs a column index up to a value read from relax_end[] must
    include that value (`<=`)."""
    chk.clause(cid, 'loops up to relax_end[] are inclusive')
    n = 0
    for f in prog.all_funcs():
        if f.unit.startswith(('CBLAS/', 'FORTRAN/')):
            continue
        ends = set()
        for x in f.body.walk():
            if x.k == 'Assign' and x.a['op'] == '=' and strip(x.c[0]).k == 'Ref':
                r = strip(x.c[1])
                if r.k == 'Index' and strip(r.c[0]).k == 'Ref' and strip(r.c[0]).a['name'] == 'relax_end':
                    ends.add(strip(x.c[0]).a['id'])
        if not ends:
            continue
        for lp in f.body.walk():
            if lp.k != 'For':
                continue
            c = strip(lp.c[1])
            if c.k == 'Binary' and c.a['op'] in ('<', '<=') and strip(c.c[1]).k == 'Ref' and strip(c.c[1]).a.get('id') in ends:
                n += 1
                chk.saw(unit=f.unit, func=f.unit + ':' + f.name)
                inst = '%s:loop-to-relax_end:%s' % (f.name, canon(c, ids=False))
                if c.a['op'] == '<=':
                    chk.ok(cid, inst, sample=pretty(c))
                else:
                    chk.violate(cid, inst, loc(f, lp), f.name,
                                'relax_end[] stores the last column of a relaxed supernode (inclusive); the loop `%s` stops one column short, so the last column of every '
                                'relaxed supernode (and the only column of a singleton) is skipped' % pretty(c), cfgname=cfgname)
    return n


GLU_FIELDS = {'xsup', 'supno', 'lsub', 'xlsub', 'lusup', 'xlusup', 'ucol', 'usub', 'xusub', 'nzlmax', 'nzumax', 'nzlumax', 'n', 'MemModel',
              'num_expansions', 'expanders', 'stack'}


def glu_mirror_rule(chk, cid, prog, cfgname, units=None, floor=100):
    """Repository idiom: a routine keeps local mirrors of the GlobalLU_t fields under the fields' own names (xlsub = Glu->xlsub, nzumax = Glu->nzumax,
    Glu->nzlmax = nzlmax ...).  A local whose name is a field of GlobalLU_t may only be loaded from / stored to that very field: loading the capacity of
    one array into the mirror of another (nzumax = Glu->nzlumax) makes later capacity tests and the counts written back describe the wrong array."""
    from ..facts import strip, loc
    chk.clause(cid, 'local mirrors of GlobalLU_t fields are loaded from and stored to the field of the same name')
    n = 0

    def glu_member(e):
        e = strip(e)
        if e.k == 'Member' and e.a['arrow'] and e.a['name'] in GLU_FIELDS:
            b = strip(e.c[0])
            if b.k == 'Ref' and (b.t or '').replace(' ', '').startswith('GlobalLU_t*'):
                return e.a['name']
        return None
    for f in prog.all_funcs():
        if units is not None and f.unit not in units:
            continue
        for x in f.body.walk():
            pairs = []
            if x.k == 'Assign' and x.a['op'] == '=':
                l, r = strip(x.c[0]), strip(x.c[1])
                if l.k == 'Ref' and glu_member(r):
                    pairs.append((l.a['name'], glu_member(r), 'loaded from'))
                if r.k == 'Ref' and glu_member(l):
                    pairs.append((r.a['name'], glu_member(l), 'stored to'))
            elif x.k == 'Var' and x.c and glu_member(x.c[0]):
                pairs.append((x.a['name'], glu_member(x.c[0]), 'loaded from'))
            for (v, fld, how) in pairs:
                if v not in GLU_FIELDS or v == 'n':
                    continue
                n += 1
                chk.saw(unit=f.unit, func=f.unit + ':' + f.name)
                inst = '%s:%s:mirror:%s<->%s' % (f.unit, f.name, v, fld)
                if v == fld:
                    chk.ok(cid, inst)
                else:
                    chk.violate(cid, inst, loc(f, x), f.name, 'local `%s` (the mirror of Glu->%s) is %s Glu->%s' % (v, v, how, fld), cfgname=cfgname)
    if n < floor:
        from ..run import AnalysisBroken
        raise AnalysisBroken('glu_mirror_rule: %d mirror loads/stores seen, floor %d' % (n, floor))
    return n


def drop_row_alignment(chk, cid, prog, p, cfgname):
    """ilu_?drop_row removes a row of a supernode by moving the last kept row into its place.  The numerical values (rows of lusup[], moved with
    ?copy_/?swap_ at stride m) and the row subscripts (lsub[]) are parallel arrays: in every block that moves value row SRC to value row DST
    the subscript of SRC must be moved to DST as well - same two offsets relative to xlusup_first / xlsub_first."""
    from ..facts import strip, callee_name, canon, loc
    from ..ir import pretty
    f = prog.func('ilu_%sdrop_row' % p)
    if f is None:
        from ..run import AnalysisBroken
        raise AnalysisBroken('ilu_%sdrop_row not found' % p)
    chk.saw(unit=f.unit, func=f.unit + ':' + f.name)
    copy, swap = p + 'copy_', p + 'swap_'
    n = 0

    def off(e, base):
        """offset text of  &arr[base + OFF]  /  arr[base + OFF]"""
        e = strip(e)
        if e.k == 'Unary' and e.a['op'] == '&':
            e = strip(e.c[0])
        if e.k != 'Index':
            return None
        s = strip(e.c[1])
        if s.k == 'Binary' and s.a['op'] == '+' and strip(s.c[0]).k == 'Ref' and strip(s.c[0]).a.get('name') == base:
            return canon(s.c[1], ids=False)
        return None

    def blocks(x):
        if x.k == 'Block':
            yield x
        for c in x.c:
            for b in blocks(c):
                yield b
    for b in blocks(f.body):
        # moves of value rows anywhere below this block, subscript moves directly in it
        subs = [st for st in b.c if strip(st).k == 'Assign' and strip(strip(st).c[0]).k == 'Index'
                and strip(strip(strip(st).c[0]).c[0]).a.get('name') == 'lsub' and off(strip(st).c[0], 'xlsub_first') is not None]
        if not subs:
            continue
        moves = set()
        for st in b.c:
            for y in st.walk():
                if y.k == 'Call' and callee_name(y) in (copy, swap) and len(y.c) == 6:
                    a, d = off(y.c[2], 'xlusup_first'), off(y.c[4], 'xlusup_first')
                    if a is not None and d is not None:
                        moves.add((a, d))
        if not moves:
            continue
        for st in subs:
            s2 = strip(st)
            n += 1
            d, a = off(s2.c[0], 'xlsub_first'), off(s2.c[1], 'xlsub_first')
            inst = '%s:subscript-follows-values@%s' % (f.name, 'basic' if n == 1 else 'secondary' if n == 2 else str(n))
            if (a, d) in moves and all(m == (a, d) for m in moves):
                chk.ok(cid, inst, sample=pretty(s2)[:70])
            else:
                chk.violate(cid, inst, loc(f, s2), f.name,
                            'the values of row %s are moved to row %s of the supernode, but `%s` moves the subscript from %s to %s: the row list and the '
                            'values of L no longer describe the same rows' % (sorted(moves)[0][0], sorted(moves)[0][1], pretty(s2)[:60], a, d), cfgname=cfgname)
    if n < 2:
        from ..run import AnalysisBroken
        raise AnalysisBroken('%s: %d row-removal blocks found, expected 2' % (f.name, n))
    return n


# ---------------------------------------------------------------- option-controlled choices in ?gstrf / ?gsitrf, decided by evaluating the condition
def eval_options(e, f, val, enums, depth=0):
    """truth / integer value of an expression over option fields under the valuation val (field name -> enum constant value); None if it depends on
    anything else.  Locals defined once from such an expression are looked through (fact = options->Fact)."""
    from ..facts import strip, const_value
    e = strip(e)
    cv = const_value(e)
    if cv is not None:
        return cv
    if e.k == 'Ref':
        nm = e.a.get('name')
        if nm in enums and e.a.get('dk') == 'EnumConstantDecl':
            return enums[nm]
        if depth < 3 and e.a.get('id') in f.locals:
            ds = [x for x in f.body.walk() if (x.k == 'Assign' and x.a['op'] == '=' and strip(x.c[0]).k == 'Ref' and strip(x.c[0]).a.get('id') == e.a['id'])
                  or (x.k == 'Var' and x.a.get('id') == e.a['id'] and x.c)]
            if len(ds) == 1:
                return eval_options(ds[0].c[1] if ds[0].k == 'Assign' else ds[0].c[0], f, val, enums, depth + 1)
        return None
    if e.k == 'Member' and e.a.get('arrow') and strip(e.c[0]).k == 'Ref' and strip(e.c[0]).a.get('name') == 'options':
        return val.get(e.a['name'])
    if e.k == 'Unary' and e.a['op'] == '!':
        v = eval_options(e.c[0], f, val, enums, depth)
        return None if v is None else int(not v)
    if e.k == 'Binary':
        op = e.a['op']
        a, b = eval_options(e.c[0], f, val, enums, depth), eval_options(e.c[1], f, val, enums, depth)
        if op == '&&':
            if a == 0 or b == 0:
                return 0
            return None if a is None or b is None else 1
        if op == '||':
            if (a is not None and a != 0) or (b is not None and b != 0):
                return 1
            return None if a is None or b is None else 0
        if a is None or b is None:
            return None
        if op in ('==', '!=', '<', '<=', '>', '>='):
            return int({'==': a == b, '!=': a != b, '<': a < b, '<=': a <= b, '>': a > b, '>=': a >= b}[op])
    return None


def option_choice_rules(chk, cid, prog, p, cfgname):
    """(1) ?gstrf / ?gsitrf pick heap_relax_snode exactly when SymmetricMode = YES (sp_preorder post-orders the tree exactly when it is NO, and
    relax_snode needs a post-ordered tree), whatever ColPerm and Fact are.  (2) The remembered row permutation is used (usepr, handed to ?pivotL by
    address) exactly when Fact = SamePattern_SameRowPerm: for SamePattern perm_r is output only.  Both are decided by evaluating the controlling
    expressions under every valuation of (Fact, SymmetricMode, ColPerm)."""
    from ..facts import strip, callee_name, loc
    from ..ir import pretty
    E = prog.enums
    facts = ['DOFACT', 'SamePattern', 'SamePattern_SameRowPerm', 'FACTORED']
    syms = ['NO', 'YES']
    perms = ['NATURAL', 'MMD_ATA', 'MMD_AT_PLUS_A', 'COLAMD', 'MY_PERMC']
    n = 0
    for fname, heap, plain in ((p + 'gstrf', 'heap_relax_snode', 'relax_snode'), (p + 'gsitrf', 'ilu_heap_relax_snode', 'ilu_relax_snode')):
        f = prog.func(fname)
        if f is None:
            from ..run import AnalysisBroken
            raise AnalysisBroken('%s not found' % fname)
        chk.saw(unit=f.unit, func=f.unit + ':' + f.name)
        sel = None
        for x in f.body.walk():
            if x.k == 'If' and len(x.c) > 2 and any(y.k == 'Call' and callee_name(y) == heap for y in x.c[1].walk()) \
                    and any(y.k == 'Call' and callee_name(y) == plain for y in x.c[2].walk()):
                sel = (x, True)
            elif x.k == 'If' and len(x.c) > 2 and any(y.k == 'Call' and callee_name(y) == plain for y in x.c[1].walk()) \
                    and any(y.k == 'Call' and callee_name(y) == heap for y in x.c[2].walk()):
                sel = (x, False)
        n += 1
        inst = '%s:heap-relaxation-iff-symmetric-mode' % fname
        if sel is None:
            chk.violate(cid, inst, loc(f, f.body), fname, 'cannot find the choice between %s and %s' % (heap, plain), cfgname=cfgname)
        else:
            bad = None
            for fa in facts:
                for sy in syms:
                    for pc in perms:
                        v = eval_options(sel[0].c[0], f, {'Fact': E[fa], 'SymmetricMode': E[sy], 'ColPerm': E[pc]}, E)
                        if v is None:
                            bad = bad or ('the condition `%s` depends on more than the options' % pretty(sel[0].c[0])[:60])
                            continue
                        picks_heap = bool(v) == sel[1]
                        if picks_heap != (sy == 'YES'):
                            bad = bad or ('SymmetricMode = %s, ColPerm = %s, Fact = %s selects %s' % (sy, pc, fa, heap if picks_heap else plain))
            if bad is None:
                chk.ok(cid, inst, sample=pretty(sel[0].c[0])[:60])
            else:
                chk.violate(cid, inst, loc(f, sel[0]), fname,
                            '%s must be used exactly when SymmetricMode = YES (the tree is post-ordered exactly when it is NO, and %s requires a post-ordered tree): %s'
                            % (heap, plain, bad), cfgname=cfgname)
        # usepr
        up = None
        for x in f.body.walk():
            if x.k == 'Call' and (callee_name(x) or '').endswith('pivotL'):
                for a in x.c[1:]:
                    a = strip(a)
                    if a.k == 'Unary' and a.a['op'] == '&' and strip(a.c[0]).k == 'Ref' and strip(a.c[0]).a.get('name') == 'usepr':
                        up = strip(a.c[0])
        if up is not None:
            n += 1
            inst = '%s:remembered-pivots-only-for-SameRowPerm' % fname
            ds = [x for x in f.body.walk() if x.k == 'Assign' and x.a['op'] == '=' and strip(x.c[0]).k == 'Ref' and strip(x.c[0]).a.get('id') == up.a['id']]
            bad = None
            if len(ds) != 1:
                bad = 'usepr has %d definitions' % len(ds)
            else:
                for fa in facts:
                    v = eval_options(ds[0].c[1], f, {'Fact': E[fa], 'SymmetricMode': E['NO'], 'ColPerm': E['COLAMD']}, E)
                    if v is None:
                        bad = bad or 'its definition `%s` depends on more than options->Fact' % pretty(ds[0].c[1])[:50]
                    elif bool(v) != (fa == 'SamePattern_SameRowPerm'):
                        bad = bad or 'Fact = %s gives usepr = %d' % (fa, v)
            if bad is None:
                chk.ok(cid, inst, sample=pretty(ds[0])[:60])
            else:
                chk.violate(cid, inst, loc(f, ds[0] if ds else f.body), fname,
                            'the row permutation of a previous factorization may steer the pivoting only for Fact = SamePattern_SameRowPerm (for SamePattern perm_r is '
                            'output only, so the result would depend on what the array held): %s' % bad, cfgname=cfgname)
    return n


def relax_width_rule(chk, cid, prog, cfgname):
    """A relaxed supernode rooted at column j has descendants[j] + 1 columns.  ?gstrf / ?gsitrf count supernode widths in stat->panel_histo[w],
    which StatInit allocates with max(panel_size, relax) + 1 entries, so a relaxed supernode may have at most `relax` columns: the four
    relaxation routines may climb to a parent only while descendants[parent] < relax_columns (strictly)."""
    from ..facts import strip, canon, loc
    from ..ir import pretty
    from .kernels import ienv_value
    n = 0
    for fname in ('relax_snode', 'heap_relax_snode', 'ilu_relax_snode', 'ilu_heap_relax_snode'):
        f = prog.func(fname)
        if f is None:
            from ..run import AnalysisBroken
            raise AnalysisBroken('%s not found' % fname)
        chk.saw(unit=f.unit, func=f.unit + ':' + f.name)
        found = []
        for x in f.body.walk():
            if x.k == 'While':
                for (a, pol) in [(a, pol) for conj in _dnf(x.c[0]) for (a, pol) in conj]:
                    a = strip(a)
                    if a.k == 'Binary' and 'descendants[parent]' in canon(a, ids=False) and 'relax_columns' in canon(a, ids=False):
                        found.append((a, pol, x))
        n += 1
        inst = '%s:relaxed-supernode-at-most-relax-columns' % fname
        ok = False
        if len(found) == 1:
            a, pol, lp = found[0]
            l, r, op = canon(a.c[0], ids=False), canon(a.c[1], ids=False), a.a['op']
            if not pol:
                op = {'<': '>=', '<=': '>', '>': '<=', '>=': '<', '==': '!=', '!=': '=='}[op]
            ok = (l == 'descendants[parent]' and r == 'relax_columns' and op == '<') or (l == 'relax_columns' and r == 'descendants[parent]' and op == '>')
        if ok:
            chk.ok(cid, inst, sample=pretty(found[0][0]))
        else:
            chk.violate(cid, inst, loc(f, found[0][2] if found else f.body), fname,
                        'the climb to the parent must be guarded by `descendants[parent] < relax_columns` (a relaxed supernode of relax+1 columns indexes '
                        'stat->panel_histo one past its max(panel_size, relax) + 1 entries); found %s' % ([pretty(a) for (a, p_, l_) in found] or 'no such test'),
                        cfgname=cfgname)
    g = prog.func('StatInit')
    if g is not None:
        n += 1
        chk.saw(unit=g.unit, func=g.unit + ':' + g.name)
        ok = False
        for x in g.body.walk():
            if x.k == 'Assign' and 'panel_histo' in canon(x.c[0], ids=False):
                for y in x.c[1].walk():
                    if y.k == 'Binary' and y.a['op'] == '+':
                        from ..facts import const_value
                        for a, b in ((y.c[0], y.c[1]), (y.c[1], y.c[0])):
                            if const_value(b) == 1 and ienv_value(g, a) == ('max', frozenset((('ienv', 1), ('ienv', 2)))):
                                ok = True
        if ok:
            chk.ok(cid, 'StatInit:histogram-extent', sample='max(sp_ienv(1), sp_ienv(2)) + 1')
        else:
            chk.violate(cid, 'StatInit:histogram-extent', loc(g, g.body), 'StatInit', 'panel_histo must have max(panel_size, relax) + 1 entries', cfgname=cfgname)
    return n


def _dnf(e):
    from .r2_argcheck import dnf
    return dnf(e)


def ilu_fill_tolerance_rule(chk, cid, prog, p, cfgname):
    """ilu_?pivotL replaces a zero pivot by its argument fill_tol, which ?gsitrf passes as amax[..] * fill_tol (amax = largest magnitude of the
    column of A).  For a column that holds only zeros amax is 0 and the replacement would be 0 again: every call must be dominated by a test of
    that very amax entry against zero (which then sets it to ILU_FillTol).  The relaxed-supernode branch had the test, the panel branch did not
    (repaired on the pinned tree)."""
    from ..facts import strip, callee_name, canon, loc
    from ..ir import pretty
    f = prog.func(p + 'gsitrf')
    if f is None:
        from ..run import AnalysisBroken
        raise AnalysisBroken('%sgsitrf not found' % p)
    chk.saw(unit=f.unit, func=f.unit + ':' + f.name)
    cfg = prog.cfg(f)
    dom = cfg.dominators()
    node_of = {}
    for cn in cfg.nodes:
        if cn.ast is not None and cn.kind in ('stmt', 'cond', 'return', 'switch'):
            for x in cn.ast.walk():
                node_of.setdefault(id(x), cn.id)
    tests = {}
    for cn in cfg.nodes:
        if cn.kind == 'cond' and cn.ast is not None:
            c = strip(cn.ast)
            if c.k == 'Binary' and c.a['op'] == '==' and strip(c.c[0]).k == 'Index' and strip(strip(c.c[0]).c[0]).a.get('name') == 'amax':
                from .refine import _zero
                if _zero(c.c[1]) == 0:
                    tests.setdefault(canon(c.c[0], ids=False), []).append(cn.id)
    n = 0
    for x in f.body.walk():
        if x.k == 'Call' and callee_name(x) == 'ilu_%spivotL' % p:
            am = [y for a in x.c[1:] for y in a.walk() if y.k == 'Index' and strip(y.c[0]).a.get('name') == 'amax']
            if not am:
                continue
            n += 1
            key = canon(am[0], ids=False)
            inst = '%s:replacement-pivot-nonzero@%s' % (f.name, key)
            k = node_of.get(id(x))
            ok = k is not None and any(t in dom.get(k, set()) for t in tests.get(key, []))
            if ok:
                chk.ok(cid, inst, sample='`%s == 0` is tested before the call' % key)
            else:
                chk.violate(cid, inst, loc(f, x), f.name,
                            'the replacement value `%s * fill_tol` handed to ilu_%spivotL is zero for a column of A that holds only zeros: no test `%s == 0` dominates '
                            'this call, so U gets a zero diagonal entry although the pivot is counted as replaced' % (key, p, key), cfgname=cfgname)
    if n < 2:
        from ..run import AnalysisBroken
        raise AnalysisBroken('%s: %d calls of ilu_%spivotL with an amax factor, expected 2' % (f.name, n, p))
    return n


def hole_fill_rule(chk, cid, prog, p, cfgname):
    """Dropping compacts an array in place: `for (i = lo; i <= last; ) { if (drop) { a[i] = a[last]; last--; continue; } i++; }`.  The loop
    test `i <= last` is what vouches that slot `last` is a live, not yet examined element at or behind the hole; the copy must read that very
    slot, so `last` may not change between the test and the copy (a decrement first reads slot last-1: for i == last an already kept element
    is duplicated and the live one is lost).  Applies to the structure arrays of U (usub/ucol in ilu_?copy_to_ucol) and L (lsub in
    ilu_?drop_row); scratch norm vectors are not structure and are left alone."""
    from ..facts import strip, canon, loc, root_ref
    from ..ir import pretty
    from ..run import AnalysisBroken
    STRUCT = {'ilu_%scopy_to_ucol' % p: ('usub', 'ucol'), 'ilu_%sdrop_row' % p: ('lsub',)}
    total = 0
    for fname, arrays in STRUCT.items():
        f = prog.func(fname)
        if f is None:
            raise AnalysisBroken('%s not found' % fname)
        chk.saw(unit=f.unit, func=f.unit + ':' + f.name)
        cfg = prog.cfg(f)
        n = 0
        for loop in f.body.walk():
            if loop.k != 'For':
                continue
            cond = strip(loop.c[1]) if loop.c[1] is not None else None
            if cond is None or cond.k != 'Binary' or cond.a['op'] not in ('<=', '<'):
                continue
            iv, bv = strip(cond.c[0]), strip(cond.c[1])
            if iv.k != 'Ref' or bv.k != 'Ref':
                continue
            bid = bv.a.get('id')
            copies = []
            for a in loop.c[3].walk():
                if a.k == 'Assign' and a.a['op'] == '=' and strip(a.c[0]).k == 'Index' and strip(a.c[1]).k == 'Index':
                    l, r = strip(a.c[0]), strip(a.c[1])
                    if root_ref(l) is None or root_ref(r) is None or root_ref(l).a.get('name') not in arrays:
                        continue
                    if root_ref(l).a.get('id') != root_ref(r).a.get('id'):
                        continue
                    if any(y.k == 'Ref' and y.a.get('id') == iv.a.get('id') for y in l.c[1].walk()) and \
                       any(y.k == 'Ref' and y.a.get('id') == bid for y in r.c[1].walk()):
                        copies.append(a)
            if not copies:
                continue
            # CFG nodes of the loop test and of each copy
            cnode = None
            node_of = {}
            for cn in cfg.nodes:
                if cn.ast is None:
                    continue
                if cn.kind == 'cond' and (cn.ast is loop.c[1] or strip(cn.ast) is cond):
                    cnode = cn.id
                if cn.kind in ('stmt', 'cond'):
                    for x in cn.ast.walk():
                        node_of.setdefault(id(x), cn.id)
            if cnode is None:
                raise AnalysisBroken('%s: loop test `%s` not found in the CFG' % (fname, pretty(cond)))

            def modifies(cn):
                if cn.ast is None or cn.kind not in ('stmt', 'cond'):
                    return None
                for x in cn.ast.walk():
                    if x.k == 'Assign' and strip(x.c[0]).k == 'Ref' and strip(x.c[0]).a.get('id') == bid:
                        return x
                    if x.k == 'Unary' and x.a['op'] in ('++', '--', 'post++', 'post--') and strip(x.c[0]).k == 'Ref' and strip(x.c[0]).a.get('id') == bid:
                        return x
                return None
            for a in copies:
                tgt = node_of.get(id(a))
                # forward from the true edge of the test, not through the test again
                fwd = set()
                st = [s for (s, lab) in cfg.nodes[cnode].succ if lab is True]
                while st:
                    q = st.pop()
                    if q in fwd or q == cnode:
                        continue
                    fwd.add(q)
                    if q == tgt:
                        continue
                    st.extend(s for (s, _) in cfg.nodes[q].succ)
                # backward from the copy
                pred = {}
                for cn in cfg.nodes:
                    for (s, _) in cn.succ:
                        pred.setdefault(s, []).append(cn.id)
                bwd = set()
                st = list(pred.get(tgt, []))
                while st:
                    q = st.pop()
                    if q in bwd or q == cnode:
                        continue
                    bwd.add(q)
                    st.extend(pred.get(q, []))
                between = fwd & bwd
                bad = None
                for q in sorted(between):
                    m = modifies(cfg.nodes[q])
                    if m is not None:
                        bad = m
                        break
                n += 1
                inst = '%s:hole-filled-from-the-vouched-slot:%s@%d' % (fname, root_ref(a.c[0]).a.get('name'), n)
                if bad is None:
                    chk.ok(cid, inst, sample='`%s` under `%s`, %d statements between test and copy leave %s alone' % (pretty(a)[:40], pretty(cond), len(between), bv.a['name']))
                else:
                    chk.violate(cid, inst, loc(f, a), fname,
                                '`%s` fills the hole from slot %s, but `%s` (line %d) changes %s after the loop test `%s` vouched for that slot: the copy reads '
                                'a different element (for i == %s an element that was already kept is duplicated and the live one is lost)'
                                % (pretty(a)[:50], bv.a['name'], pretty(bad)[:20], bad.line, bv.a['name'], pretty(cond), bv.a['name']), cfgname=cfgname)
        total += n
    if total < 4:
        raise AnalysisBroken('hole_fill_rule(%s): %d compaction copies found, expected >= 4' % (p, total))
    return total


def partition_complement_rule(chk, cid, prog, cfgname):
    """?qselect partitions around a pivot value with two scans, each followed by a conditional move:
        for (; A[i] >= val && i < p; i++);   if (A[i] < val) { A[p] = A[i]; p = i; }
    When a scan stops before the hole (i < p) its element test is false, and the partition loop `while (i < j)` only makes progress if the
    move then happens: the move test must be the exact negation of the scan's element test (>= / <, <= / >).  With a strict scan test an
    element equal to the pivot value stops the scan, is not moved, and the loop never ends (ties are the normal case in dropping: equal
    magnitudes).  Values are only compared, so the rule is exact on the comparison operators."""
    from ..facts import strip, canon, loc
    from ..ir import pretty
    from ..run import AnalysisBroken
    NEG = {'>=': '<', '<=': '>', '>': '<=', '<': '>=', '==': '!=', '!=': '=='}
    n = 0
    for fname in ('dqselect', 'sqselect'):
        f = prog.func(fname)
        if f is None:
            raise AnalysisBroken('%s not found' % fname)
        chk.saw(unit=f.unit, func=f.unit + ':' + f.name)
        for blk in f.body.walk():
            if blk.k != 'Block':
                continue
            for k, st in enumerate(blk.c[:-1]):
                if st.k != 'For' or st.c[1] is None:
                    continue
                body = st.c[3]
                if body is not None and any(x.k in ('Assign', 'Call') for x in body.walk()):
                    continue            # only pure scans
                nxt = blk.c[k + 1]
                if nxt.k != 'If':
                    continue
                elem = None
                for c in _conj(st.c[1]):
                    c = strip(c)
                    if c.k == 'Binary' and c.a['op'] in NEG and strip(c.c[0]).k == 'Index':
                        elem = c
                if elem is None:
                    continue
                mv = strip(nxt.c[0])
                n += 1
                inst = '%s:scan-and-move-are-complements@%d' % (fname, n)
                SWAP = {'<': '>', '>': '<', '<=': '>=', '>=': '<=', '==': '==', '!=': '!='}

                def ncmp(e, neg=False):
                    # (element text, operator, other text) with the array element on the left; `!` pushed into the operator
                    e = strip(e)
                    if e.k == 'Unary' and e.a['op'] == '!':
                        return ncmp(e.c[0], not neg)
                    if e.k != 'Binary' or e.a['op'] not in NEG:
                        return None
                    op, l, r = e.a['op'], e.c[0], e.c[1]
                    if strip(l).k != 'Index' and strip(r).k == 'Index':
                        op, l, r = SWAP[op], r, l
                    if neg:
                        op = NEG[op]
                    return (canon(l), op, canon(r))
                w0 = ncmp(elem)
                want = (w0[0], NEG[w0[1]], w0[2])
                got = ncmp(mv)
                if got == want:
                    chk.ok(cid, inst, sample='scan while `%s`, move if `%s`' % (pretty(elem), pretty(mv)))
                else:
                    chk.violate(cid, inst, loc(f, st), fname,
                                'the scan runs while `%s` and the move that follows happens if `%s`: these are not complements, so an element for which '
                                'neither holds (equal to the pivot value) stops the scan without being moved and the partition loop makes no progress'
                                % (pretty(elem), pretty(mv)), cfgname=cfgname)
    if n < 4:
        raise AnalysisBroken('partition_complement_rule: %d scan/move pairs found, expected 4' % n)
    return n


def _conj(e):
    from ..facts import strip
    e = strip(e)
    if e.k == 'Binary' and e.a['op'] == '&&':
        return _conj(e.c[0]) + _conj(e.c[1])
    return [e]


def ilu_empty_column_rule(chk, cid, prog, p, cfgname):
    """ILU replaces a zero pivot by writing a small value into a fill position of the column, which ilu_?pivotL looks for in the row list of the
    column's supernode; that only works if every supernode has at least as many rows as columns.  ilu_?column_dfs lets column j join the
    supernode of j-1 when its structure has exactly one row less; for a column whose L part came out empty (nextl == jptr) after a column
    holding only its pivot that test passes (0 == 1 - 1) and a two-column supernode with a single row results.  Among the conditions that
    start a new supernode there must therefore be one that holds whenever the column is empty: substituting nextl := jptr makes it true."""
    from ..facts import strip, canon, loc, const_value
    from ..ir import pretty, N
    from ..run import AnalysisBroken
    f = prog.func('ilu_%scolumn_dfs' % p)
    if f is None:
        raise AnalysisBroken('ilu_%scolumn_dfs not found' % p)
    chk.saw(unit=f.unit, func=f.unit + ':' + f.name)
    starts = []
    for x in f.body.walk():
        if x.k == 'If':
            th = x.c[1]
            while th.k == 'Block' and len(th.c) == 1:
                th = th.c[0]
            if th.k == 'Assign' and strip(th.c[0]).k == 'Ref' and strip(th.c[0]).a.get('name') == 'jsuper' and strip(th.c[1]).k in ('Unary', 'Int', 'Paren', 'Ref') \
                    and const_value(th.c[1]) in (-1, None) and 'EMPTY' in (pretty(th.c[1]) + str(th.c[1].mac or '')) or \
                    (th.k == 'Assign' and strip(th.c[0]).k == 'Ref' and strip(th.c[0]).a.get('name') == 'jsuper' and const_value(th.c[1]) == -1):
                starts.append(x)
    nextl = next((v for v in list(f.locals.values()) if v.a.get('name') == 'nextl'), None)
    jptr = next((v for v in list(f.locals.values()) if v.a.get('name') == 'jptr'), None)
    if not starts or nextl is None or jptr is None:
        raise AnalysisBroken('%s: new-supernode conditions / nextl / jptr not found' % f.name)

    def subst(e):
        if e.k == 'Ref' and e.a.get('name') == 'nextl':
            return N('Ref', e.t, [], dict(e.a, name='jptr', id=jptr.a.get('id')), e.line, e.mac)
        if not e.c:
            return e
        return N(e.k, e.t, [subst(c) for c in e.c], e.a, e.line, e.mac)

    def holds(e):
        e = strip(e)
        if e.k == 'Binary' and e.a['op'] == '||':
            return holds(e.c[0]) or holds(e.c[1])
        if e.k == 'Binary' and e.a['op'] == '&&':
            return holds(e.c[0]) and holds(e.c[1])
        if e.k == 'Binary' and e.a['op'] in ('==', '<=', '>='):
            return canon(e.c[0]) == canon(e.c[1])
        return False
    inst = '%s:empty-column-starts-a-new-supernode' % f.name
    hit = [x for x in starts if holds(subst(x.c[0]))]
    if hit:
        chk.ok(cid, inst, sample='`%s` holds for nextl == jptr; %d new-supernode conditions in all' % (pretty(hit[0].c[0])[:40], len(starts)))
    else:
        chk.violate(cid, inst, loc(f, starts[0]), f.name,
                    'none of the conditions that start a new supernode (%s) is implied by an empty L column (nextl == jptr): after a column that holds only its '
                    'pivot, the empty column joins that supernode, which then has fewer rows than columns, and the fill position that replaces the zero pivot '
                    'does not exist (perm_r keeps a -1)' % '; '.join(pretty(x.c[0])[:40] for x in starts), cfgname=cfgname)
    return 1


def fixup_unconditional_rule(chk, cid, prog, cfgname):
    """fixupL turns the row subscripts of L from rows of A into rows of Pr*A (`lsub[..] = perm_r[lsub[..]]`) for every supernode; callers
    (?gstrs, the structure checks of the drivers, Destroy/Print) read L in that numbering.  The relabelling has to happen for every matrix
    that has a column: an early return may only be taken when there is none (`n < 1`).  `n <= 1` (one column) or `nsuper <= 0` (one
    supernode - a dense block, a 1-column L) skip it and leave L in the wrong numbering whenever perm_r is not the identity."""
    from ..facts import strip, const_value, loc
    from ..ir import pretty
    from ..run import AnalysisBroken
    f = prog.func('fixupL')
    if f is None:
        raise AnalysisBroken('fixupL not found')
    chk.saw(unit=f.unit, func=f.unit + ':' + f.name)
    nid = {nm: i for (nm, i, t) in f.params}.get('n')
    relabel = [x for x in f.body.walk() if x.k == 'Assign' and strip(x.c[0]).k == 'Index' and any(y.k == 'Index' and strip(y.c[0]).k == 'Ref'
               and strip(y.c[0]).a.get('name') == 'perm_r' for y in x.c[1].walk())]
    if not relabel or nid is None:
        raise AnalysisBroken('fixupL: relabelling statement / parameter n not found')

    def empty_only(c):
        c = strip(c)
        if c.k == 'Binary' and c.a['op'] == '||':
            return empty_only(c.c[0]) and empty_only(c.c[1])
        if c.k == 'Binary' and strip(c.c[0]).k == 'Ref' and strip(c.c[0]).a.get('id') == nid:
            v = const_value(c.c[1])
            return (c.a['op'] == '<' and v is not None and v <= 1) or (c.a['op'] == '<=' and v is not None and v <= 0) or (c.a['op'] == '==' and v == 0)
        return False
    early = []
    for x in f.body.walk():
        if x.k == 'If' and any(y.k == 'Return' for y in x.c[1].walk()) and x.line < relabel[0].line:
            early.append(x)
    bad = [x for x in early if not empty_only(x.c[0])]
    inst = 'fixupL:relabelling-is-unconditional-for-a-non-empty-matrix'
    if not bad:
        chk.ok(cid, inst, sample='%d early return(s), each only for n < 1' % len(early))
    else:
        chk.violate(cid, inst, loc(f, bad[0]), 'fixupL',
                    'the early return under `%s` can be taken for a matrix that has columns: L then keeps row subscripts in the numbering of A instead of '
                    'Pr*A (wrong whenever perm_r is not the identity)' % pretty(bad[0].c[0])[:50], cfgname=cfgname)
    return 1


def reserved_slot_rule(chk, cid, prog, p, cfgname):
    """?gsitrf gives a column whose L part came out empty one fill position: it extends the column by one subscript (`xlsub[jj+1]++`) and one value
    (`xlusup[jj+1]++`).  Both new slots hold whatever the arrays contained before - residue of an earlier column, of an earlier factorization
    in a reused workspace, or recycled heap - until they are written; ilu_?pivotL reads the value slot as a pivot candidate (0 is replaced, garbage
    is accepted), so info, L and U of the same call would depend on what was factored before.  In the block that reserves a slot with
    `X[e + 1]++` there must be a store into the slot `Y[X[e]]`."""
    from ..facts import strip, canon, loc, root_ref, const_value
    from ..ir import pretty
    from ..run import AnalysisBroken
    f = prog.func(p + 'gsitrf')
    if f is None:
        raise AnalysisBroken('%sgsitrf not found' % p)
    chk.saw(unit=f.unit, func=f.unit + ':' + f.name)
    PAIR = {'xlsub': 'lsub', 'xlusup': 'lusup'}
    n = 0
    for blk in f.body.walk():
        if blk.k != 'Block':
            continue
        for st in blk.c:
            s0 = strip(st)
            plus1 = s0.k == 'Assign' and s0.a['op'] == '+=' and strip(s0.c[0]).k == 'Index' and const_value(s0.c[1]) == 1
            if not ((s0.k == 'Unary' and s0.a['op'] == '++' and strip(s0.c[0]).k == 'Index') or plus1):
                continue
            ix = strip(s0.c[0])
            ptr = root_ref(ix)
            sub = strip(ix.c[1])
            if ptr is None or ptr.a.get('name') not in PAIR or not (sub.k == 'Binary' and sub.a['op'] == '+' and strip(sub.c[1]).k == 'Int' and strip(sub.c[1]).a.get('value') == 1):
                continue
            col = canon(sub.c[0], ids=False)
            want_arr, want_ptr = PAIR[ptr.a.get('name')], ptr.a.get('name')
            n += 1
            inst = '%s:reserved-%s-slot-is-written' % (f.name, want_arr)
            hit = None
            for x in blk.walk():
                if x.k == 'Assign' and x.a['op'] == '=' and strip(x.c[0]).k == 'Index':
                    lv = strip(x.c[0])
                    base_txt = canon(lv.c[0], ids=False)
                    isub = strip(lv.c[1])
                    if want_arr in base_txt and isub.k == 'Index' and root_ref(isub) is not None and root_ref(isub).a.get('name') == want_ptr \
                            and canon(isub.c[1], ids=False) == col:
                        hit = x
            if hit is not None:
                chk.ok(cid, inst, sample='`%s` reserved, `%s` stores into it' % (pretty(s0)[:30], pretty(hit)[:50]))
            else:
                chk.violate(cid, inst, loc(f, s0), f.name,
                            '`%s` extends column %s by one %s slot, but nothing in the block stores into %s[%s[%s]]: the slot keeps what the array held before '
                            '(an earlier factorization in a reused workspace, recycled heap), and the pivot search reads it'
                            % (pretty(s0)[:30], col, want_arr, want_arr, want_ptr, col), cfgname=cfgname)
    if n < 2:
        raise AnalysisBroken('%s: %d reserved slots found, expected 2' % (f.name, n))
    return n


def droprow_pointer_fixup_rule(chk, cid, prog, p, cfgname):
    """ilu_?drop_row removes r rows from the supernode first..last (n = last - first + 1 columns).  Every column of the supernode then ends r
    entries earlier, so the end pointers of all n columns - xlusup[first+1 .. last+1], xlsub likewise - are pulled back.  The loop that does it
    must run over exactly n pointers: its trip count, as a linear form, equals the definition of n.  A bound that depends on whether a
    column follows (lastc) leaves the last end pointer stale exactly when the supernode is followed by a relaxed one: value counts and row
    counts of L then disagree although every solve still works."""
    from ..facts import strip, loc, root_ref
    from ..ir import pretty
    from ..run import AnalysisBroken
    from .expand import _lin
    f = prog.func('ilu_%sdrop_row' % p)
    if f is None:
        raise AnalysisBroken('ilu_%sdrop_row not found' % p)
    chk.saw(unit=f.unit, func=f.unit + ':' + f.name)
    ndef = None
    for x in f.body.walk():
        if x.k == 'Assign' and x.a['op'] == '=' and strip(x.c[0]).k == 'Ref' and strip(x.c[0]).a.get('name') == 'n':
            ndef = _lin(x.c[1])
        if x.k == 'Var' and x.a.get('name') == 'n' and x.c:
            ndef = _lin(x.c[0])
    if ndef is None:
        raise AnalysisBroken('%s: definition of n (number of columns of the supernode) not found' % f.name)
    n = 0
    for lp in f.body.walk():
        if lp.k != 'For' or lp.c[0] is None or lp.c[1] is None:
            continue
        hits = [x for x in lp.c[3].walk() if x.k == 'Assign' and x.a['op'] == '-=' and strip(x.c[0]).k == 'Index' and root_ref(x.c[0]) is not None
                and root_ref(x.c[0]).a.get('name') in ('xlusup', 'xlsub')]
        if not hits:
            continue
        i0, c0 = strip(lp.c[0]), strip(lp.c[1])
        if i0.k != 'Assign' or c0.k != 'Binary' or c0.a['op'] not in ('<=', '<'):
            continue
        lo, hi = _lin(i0.c[1]), _lin(c0.c[1])
        if lo is None or hi is None:
            continue
        trip = dict(hi)
        for k_, c in lo.items():
            trip[k_] = trip.get(k_, 0) - c
        if c0.a['op'] == '<=':
            trip[1] = trip.get(1, 0) + 1
        trip = {k_: c for k_, c in trip.items() if c}
        n += 1
        inst = '%s:end-pointers-of-all-columns-pulled-back' % f.name
        if trip == ndef:
            chk.ok(cid, inst, sample='for (%s; %s; ..): as many pointers as the supernode has columns' % (pretty(i0), pretty(c0)))
        else:
            chk.violate(cid, inst, loc(f, lp), f.name,
                        'the loop `for (%s; %s; ..)` that pulls the column end pointers back does not run over exactly n = last - first + 1 pointers: the end '
                        'pointer of the last column stays where it was for some inputs, and nzval_colptr / rowind_colptr of L no longer agree with the row '
                        'count of the supernode' % (pretty(i0), pretty(c0)), cfgname=cfgname)
    if n < 1:
        raise AnalysisBroken('%s: pointer fix-up loop not found' % f.name)
    return n


def complex_magnitude_rule(chk, cid, prog, cfgname):
    """c_abs / c_abs1 / z_abs / z_abs1 measure a complex number; every caller that asks "is this entry zero" or "which entry is largest" (pivot
    search, equilibration, norms, drop rules) goes through them.  Necessary: the value returned depends on both the real and the imaginary part of
    the argument.  Decided by a flow-insensitive dependence closure over the locals of the helper: which members of `*z` can reach each return."""
    from ..run import AnalysisBroken
    n = 0
    for fname in ('c_abs', 'c_abs1', 'z_abs', 'z_abs1'):
        f = prog.func(fname)
        if f is None:
            raise AnalysisBroken('%s not found' % fname)
        chk.saw(unit=f.unit, func=f.unit + ':' + f.name)
        zid = f.params[0][1]
        deps = {}

        def parts(e):
            out = set()
            for x in e.walk():
                if x.k == 'Member' and x.c and strip(x.c[0]).k == 'Ref' and strip(x.c[0]).a.get('id') == zid:
                    out.add(x.a.get('name'))
                elif x.k == 'Ref' and x.a.get('id') in deps:
                    out |= deps[x.a['id']]
            return out
        for x in f.body.walk():
            if x.k == 'Var':
                deps.setdefault(x.a['id'], set())
        changed = True
        while changed:
            changed = False
            for x in f.body.walk():
                tgt = rhs = None
                if x.k == 'Var' and x.c:
                    tgt, rhs = x.a['id'], x.c[0]
                elif x.k == 'Assign' and strip(x.c[0]).k == 'Ref':
                    tgt, rhs = strip(x.c[0]).a.get('id'), x.c[1]
                if tgt in deps:
                    new = parts(rhs) | (deps[tgt] if x.k == 'Assign' and x.a['op'] != '=' else set())
                    if not new <= deps[tgt]:
                        deps[tgt] |= new
                        changed = True
        rets = [x for x in f.body.walk() if x.k == 'Return' and x.c]
        if not rets:
            raise AnalysisBroken('%s: no return with a value' % fname)
        for r in rets:
            n += 1
            got = parts(r.c[0])
            inst = '%s:return@%d-depends-on-both-parts' % (fname, rets.index(r))
            if {'r', 'i'} <= got:
                chk.ok(cid, inst, sample='`return %s` depends on z->{%s}' % (pretty(r.c[0])[:30], ','.join(sorted(got))))
            else:
                chk.violate(cid, inst, loc(f, r), fname,
                            '`return %s` depends only on z->{%s}: the magnitude of a complex entry must take both its real and its imaginary part, otherwise an entry '
                            'with only the other part looks like an exact zero to the pivot search, the equilibration and the drop rules' % (pretty(r.c[0])[:30], ','.join(sorted(got))),
                            cfgname=cfgname)
    return n
