"""Oracle groups over the R3 leaves of the expert drivers ?gssvx / ?gsisx.

Written from the routine headers and the algebra of the equilibrated system
    Ahat = diag(R) * AA * diag(C),   AA = A (column storage) or A^T (row storage),
    effective no-transpose  nt' = (Trans == NOTRANS) xor (Stype == SLU_NR):
    nt'  :  Ahat * (inv(C) X) = R B      -> scale B by R before, X by C after the solve
    !nt' :  Ahat^T * (inv(R) X) = C B    -> scale B by C before, X by R after the solve.
Each group is used by the property modules that own the corresponding clause.
"""
from ..rules.r3_dispatch import ptr_desc
from ._drv import Expect, ppos


class Ctx(object):
    """positions and helpers for one routine"""

    def __init__(self, prog, f, fl, p, ilu):
        self.prog, self.f, self.fl, self.p, self.ilu = prog, f, fl, p, ilu
        self.E = prog.enums
        for nm in ('options', 'A', 'perm_c', 'perm_r', 'etree', 'equed', 'R', 'C', 'L', 'U', 'work', 'lwork', 'B', 'X',
                   'recip_pivot_growth', 'rcond', 'ferr', 'berr', 'Glu', 'mem_usage', 'stat', 'info'):
            setattr(self, 'k_' + nm, ppos(f, nm))
        self.Bnz = '$%d->Store->nzval' % self.k_B
        self.Xnz = '$%d->Store->nzval' % self.k_X
        self.Rp, self.Cp = '$%d' % self.k_R, '$%d' % self.k_C
        self.fac = p + ('gsitrf' if ilu else 'gstrf')

    # ---- derived case facts of a leaf
    def nofact(self, lf):
        return lf.val.get('Fact') != self.E['FACTORED']

    def nr(self, lf):
        return lf.val.get('A.Stype') == self.E['SLU_NR']

    def notran_eff(self, lf):
        return (lf.val.get('Trans') == self.E['NOTRANS']) != self.nr(lf)

    def equed_final(self, lf):
        """the equed letter in force at the solve, or None when it is not determined by the declared flags"""
        v = lf.val
        if not self.nofact(lf):
            return chr(v['equed_in']) if 'equed_in' in v else None
        if v.get('Equil') == self.E['YES']:
            if self.ilu and v.get('RowPerm') == self.E.get('LargeDiag_MC64') and v.get('info_ldperm') == 0:
                return 'B'
            if v.get('info_gsequ') == 0:
                return chr(v['equed_laqgs']) if 'equed_laqgs' in v else None
            if 'info_gsequ' in v:
                return 'N'
            return None
        return 'N'

    def AA(self, lf):
        """abstract value of the matrix that is equilibrated / ordered / factored"""
        pre = lf.calls('sp_preorder')
        if pre:
            return pre[0]['args'][1]
        if self.nr(lf):
            cre = lf.calls(self.p + 'Create_CompCol_Matrix')
            return cre[0]['args'][0] if cre else None
        return ('p', self.k_A)

    def scale_stores(self, lf, target):
        return [e for e in lf.stores() if e['base'] == target and (self.Rp in e['rhs_reads'] or self.Cp in e['rhs_reads'])]

    def reached_solve(self, lf):
        return bool(lf.calls(self.p + 'gstrs'))


def run_leaf_groups(chk, cid_prefix, ctx, leaves, groups, cfgname):
    f, fl, p, E = ctx.f, ctx.fl, ctx.p, ctx.E
    exs = {g: Expect(chk, cid_prefix + '.' + g, f, fl, cfgname) for g in groups}
    for lf in leaves:
        v = lf.val
        if 'equil' in groups:
            g_equil(exs['equil'], ctx, lf)
        if 'scale' in groups:
            g_scale(exs['scale'], ctx, lf)
        if 'guard' in groups:
            g_guard(exs['guard'], ctx, lf)
        if 'iluguard' in groups:
            g_guard_ilu(exs['iluguard'], ctx, lf)
        if 'phases' in groups:
            g_phases(exs['phases'], ctx, lf)
        if 'cond' in groups:
            g_cond(exs['cond'], ctx, lf)
        if 'refine' in groups:
            g_refine(exs['refine'], ctx, lf)
        if 'query' in groups:
            g_query(exs['query'], ctx, lf)
    if 'query' in groups:
        finish_query(exs['query'], ctx)


# ---------------------------------------------------------------- equilibration phase (C05.D1, C11)
def g_equil(ex, c, lf):
    v, E, p = lf.val, c.E, c.p
    sel = ['Fact', 'Equil', 'info_gsequ', 'A.Stype']
    if c.ilu:
        sel = sel + ['RowPerm', 'info_ldperm']
    gsequ = lf.calls(p + 'gsequ')
    laqgs = lf.calls(p + 'laqgs')
    want_equ = c.nofact(lf) and v.get('Equil') == E['YES']
    mc64_ok = c.ilu and v.get('RowPerm') == E.get('LargeDiag_MC64') and v.get('info_ldperm') == 0 and c.nofact(lf)
    if c.ilu and c.nofact(lf) and 'RowPerm' not in v:
        return   # MC64 not split in this run: equilibration calls depend on it
    if mc64_ok:
        want_equ = False     # MC64 supplies the scalings; ?gsequ is the fall-back only
    AA = c.AA(lf) if (gsequ or laqgs) else None
    if want_equ:
        ok = len(gsequ) == 1 and gsequ[0]['args'][1] == ('p', c.k_R) and gsequ[0]['args'][2] == ('p', c.k_C)
        ex.check(lf, ok, 'gsequ-when-equil', sel, 'Fact != FACTORED and Equil = YES: %sgsequ(AA, R, C, ...) must be called exactly once (saw %d)' % (p, len(gsequ)),
                 gsequ[0]['line'] if gsequ else None)
        if v.get('info_gsequ') == 0:
            ok = len(laqgs) == 1 and laqgs[0]['args'][0] == gsequ[0]['args'][0] and laqgs[0]['args'][1] == ('p', c.k_R) \
                and laqgs[0]['args'][2] == ('p', c.k_C) and laqgs[0]['args'][-1] == ('p', c.k_equed) if (len(laqgs) == 1 and gsequ) else False
            ex.check(lf, ok, 'laqgs-after-gsequ', sel, '%slaqgs(AA, R, C, rowcnd, colcnd, amax, equed) must follow a successful %sgsequ on the same matrix' % (p, p),
                     laqgs[0]['line'] if laqgs else None)
            if ok:
                ex.check(lf, lf.must_precede([gsequ[0]['node']], laqgs[0]['node']), 'gsequ-before-laqgs', sel, '%sgsequ must precede %slaqgs' % (p, p), laqgs[0]['line'])
                ex.check(lf, gsequ[0]['args'][0] == c.AA(lf), 'equilibrate-the-factored-matrix', ['A.Stype'],
                         'the matrix that is equilibrated must be the one that is ordered and factored (A or its column view)', gsequ[0]['line'])
        elif 'info_gsequ' in v:
            ex.check(lf, not laqgs, 'no-laqgs-after-failed-gsequ', sel, '%sgsequ reported a zero row/column: %slaqgs must not be applied' % (p, p),
                     laqgs[0]['line'] if laqgs else None)
    else:
        ex.check(lf, not gsequ and not laqgs, 'no-equilibration', sel,
                 'Equil = NO, Fact = FACTORED or MC64 scaling in force: %sgsequ / %slaqgs must not run' % (p, p), (gsequ + laqgs)[0]['line'] if (gsequ + laqgs) else None)
    if c.nofact(lf) and v.get('Equil') == E['NO'] and not c.ilu:
        aw = [e for e in lf.stores() if e['base'].startswith('$%d->Store' % c.k_A)]
        ex.check(lf, not aw, 'A-untouched-without-equil', ['Fact', 'Equil'], 'Equil = NO: A must not be written', aw[0]['line'] if aw else None)


# ---------------------------------------------------------------- scaling of B and X around the solve (C05.D1)
def g_scale(ex, c, lf):
    v, E, p = lf.val, c.E, c.p
    if not c.reached_solve(lf):
        return
    eq = c.equed_final(lf)
    if eq is None:
        return
    rowequ, colequ = eq in 'RB', eq in 'CB'
    nt = c.notran_eff(lf)
    sel = ['Trans', 'A.Stype', 'Fact', 'Equil', 'equed_in', 'equed_laqgs', 'info_gsequ'] + (['RowPerm', 'info_ldperm'] if c.ilu else [])
    want_B = c.Rp if (nt and rowequ) else (c.Cp if ((not nt) and colequ) else None)
    want_X = c.Cp if (nt and colequ) else (c.Rp if ((not nt) and rowequ) else None)
    nameof = {c.Rp: 'R', c.Cp: 'C', None: 'nothing'}
    for (target, want, label) in ((c.Bnz, want_B, 'B'), (c.Xnz, want_X, 'X')):
        sc = c.scale_stores(lf, target)
        used = set()
        for e in sc:
            used |= (e['rhs_reads'] & {c.Rp, c.Cp})
        ok = used == ({want} if want else set())
        ex.check(lf, ok, 'scale-%s-by-%s' % (label, nameof[want]), sel,
                 '%s must be scaled by %s for op(A) %s with equed = %s; the code scales it by %s'
                 % (label, nameof[want], 'non-transposed' if nt else 'transposed', eq, sorted(nameof[u] for u in used) or 'nothing'),
                 sc[0]['line'] if sc else None)
        # leading dimension pairing: X(i,j) is Xmat[i + j*ldx] with ldx = X->Store->lda
        lda = target.replace('->nzval', '->lda')
        ldas = {c.Bnz: 'const:%d' % v.get('B.lda', -1), c.Xnz: 'const:%d' % v.get('X.lda', -1)}
        lda = ldas[target]
        for e in [e for e in lf.stores() if e['base'] == target]:
            bad = [s for s in e['idx_vals'] if s in ldas.values() and s != lda]
            ex.check(lf, not bad, 'leading-dimension-of-%s' % label, [], 'a store into %s is subscripted with the leading dimension of the other matrix (%s; its own is %s)' % (label, bad, lda), e['line'])
            for (arr, scal) in e['rhs_pairs']:
                if arr in (c.Bnz, c.Xnz):
                    l2 = ldas[arr]
                    bad = [s for s in scal if s in ldas.values() and s != l2]
                    ex.check(lf, not bad, 'leading-dimension-of-load', [], 'a load from %s is subscripted with the leading dimension of the other matrix (%s; its own is %s)' % (arr, bad, l2), e['line'])
    # order:  SCALE(B) < COPY(B->X) < solve < refine < SCALE(X)
    solve = lf.calls(p + 'gstrs')[0]
    copy = [e for e in lf.stores() if e['base'] == c.Xnz and c.Bnz in e['rhs_reads']]
    ex.check(lf, bool(copy) and all(not lf.can_reach(solve['node'], e['node']) for e in copy), 'copy-B-to-X-before-solve', [],
             'X must be initialised from B before %sgstrs' % p, solve['line'])
    sb = c.scale_stores(lf, c.Bnz)
    sx = c.scale_stores(lf, c.Xnz)
    ok = all(not lf.can_reach(cp['node'], e['node']) for e in sb for cp in copy) and all(not lf.can_reach(e['node'], solve['node']) for e in sx)
    ex.check(lf, ok, 'scale-copy-solve-unscale-order', [], 'B must be scaled before it is copied to X, and X unscaled only after the solve', solve['line'])
    ok = solve['args'][1:6] == [('p', c.k_L), ('p', c.k_U), ('p', c.k_perm_c), ('p', c.k_perm_r), ('p', c.k_X)]
    ex.check(lf, ok, 'solve-arguments', [], '%sgstrs must receive (trant, L, U, perm_c, perm_r, X)' % p, solve['line'])
    # transpose sense handed to the solve
    T = v.get('Trans')
    if c.nr(lf):
        want_t = {E['NOTRANS']: E['TRANS'], E['TRANS']: E['NOTRANS'], E['CONJ']: ('conj-of-AA' if p in 'cz' else E['NOTRANS'])}[T]
    else:
        want_t = T
    got = solve['args'][0]
    if want_t == 'conj-of-AA':
        # A^H = conj(A^T) = conj(AA): no trans_t value denotes it; NOTRANS solves A^T x = b instead (needs conj(B), conj(X) around the solve)
        conjb = [e for e in lf.stores() if e['base'] in (c.Bnz, c.Xnz) and e['op'] == '=' and e['target'].endswith('.i')]
        ex.check(lf, got != E['NOTRANS'] or bool(conjb), 'row-storage-conj', ['Trans', 'A.Stype'],
                 'row storage with Trans = CONJ asks for A^H x = b = conj(AA) x; the driver passes NOTRANS to the solve without conjugating B and X, i.e. solves A^T x = b',
                 solve['line'])
    else:
        ex.check(lf, got == want_t, 'solve-transpose-sense', ['Trans', 'A.Stype'],
                 'op(A) expressed on the factored matrix needs trans = %s, the solve is called with %s' % (want_t, got), solve['line'])


# ---------------------------------------------------------------- no solve / no write on failure (C04.D3)
def g_guard(ex, c, lf):
    v, p = lf.val, c.p
    if not c.nofact(lf) or 'info' not in v:
        return
    sel = ['info']
    if v['info'] != 0:
        bad = lf.calls(lambda n: n in (p + 'gstrs', p + 'gsrfs', p + 'gscon'))
        ex.check(lf, not bad, 'no-solve-after-failed-factorization', sel, 'info != 0 after the factorization: no solve / refinement / condition estimate may run',
                 bad[0]['line'] if bad else None)
        fac = lf.calls(c.fac)
        bw = [e for e in lf.stores() if e['base'] in (c.Bnz, c.Xnz)]
        ex.check(lf, not bw, 'rhs-and-solution-untouched', sel, 'info != 0: B and X must be returned untouched, but they are written', bw[0]['line'] if bw else None)


def g_guard_ilu(ex, c, lf):
    """?gsisx: info > n after ?gsitrf is a memory failure (L, U do not exist): nothing may touch them and the driver returns; 0 < info <= n only counts
    replaced zero pivots, the factors are a usable preconditioner: the solve must still run, whatever PivotGrowth is"""
    v, p = lf.val, c.p
    if not c.nofact(lf) or 'info' not in v or v.get('lwork') == -1:
        return
    sel = ['info', 'PivotGrowth']
    users = lf.calls(lambda n: n in (p + 'gstrs', p + 'gscon', p + 'PivotGrowth', 'ilu_' + p + 'QuerySpace', p + 'QuerySpace'))
    if v['info'] == 15:
        ex.check(lf, not users, 'nothing-uses-the-factors-after-a-memory-failure', sel,
                 'info > n after %s: L and U were not created; %s must not run' % (c.fac, sorted({e['name'] for e in users})), users[0]['line'] if users else None)
        bw = [e for e in lf.stores() if e['base'] in (c.Bnz, c.Xnz)]
        ex.check(lf, not bw, 'rhs-and-solution-untouched', sel, 'info > n: B and X must be returned untouched', bw[0]['line'] if bw else None)
    elif v['info'] == 3 and v.get('B.ncol', 2) != 0:
        so = lf.calls(p + 'gstrs')
        ex.check(lf, len(so) == 1, 'replaced-pivots-still-solve', sel,
                 '0 < info <= n only counts the zero pivots that were replaced: the preconditioner solve must still run (PivotGrowth = %s)' % v.get('PivotGrowth'),
                 None)


# ---------------------------------------------------------------- which phases run per Fact (C06.D1)
def g_phases(ex, c, lf):
    v, E, p = lf.val, c.E, c.p
    sel = ['Fact', 'ColPerm']
    gpc = lf.calls('get_perm_c')
    pre = lf.calls('sp_preorder')
    fac = lf.calls(c.fac)
    if not c.nofact(lf):
        bad = gpc + pre + fac + lf.calls(p + 'gsequ') + lf.calls(p + 'laqgs')
        ex.check(lf, not bad, 'factored-skips-all-phases', ['Fact'], 'Fact = FACTORED: no equilibration, ordering, preordering or factorization may run (saw %s)'
                 % sorted({e['name'] for e in bad}), bad[0]['line'] if bad else None)
        # nothing rooted at L, U, perm_c, perm_r, etree is written (direct stores; callee effects are checked by R10 in C06.D3)
        prot = tuple('$%d' % k for k in (c.k_L, c.k_U, c.k_perm_c, c.k_perm_r, c.k_etree))
        bw = [e for e in lf.stores() if e['base'].startswith(prot)]
        ex.check(lf, not bw, 'factored-leaves-factors-alone', ['Fact'], 'Fact = FACTORED: L, U, perm_c, perm_r, etree must not be written', bw[0]['line'] if bw else None)
        return
    if v.get('lwork') == -1 and False:
        return
    ex.check(lf, len(pre) == 1 and len(fac) == 1, 'preorder-and-factor', ['Fact'], 'Fact != FACTORED: sp_preorder and %s must each run once' % c.fac,
             (pre + fac)[0]['line'] if (pre + fac) else None)
    if 'ColPerm' in v:
        want = v['Fact'] == E['DOFACT'] and v['ColPerm'] != E['MY_PERMC']
        ok = (len(gpc) == 1) == want and (not gpc or (gpc[0]['args'][0] == v['ColPerm'] and gpc[0]['args'][2] == ('p', c.k_perm_c)))
        ex.check(lf, ok, 'ordering-only-on-dofact', sel, 'get_perm_c(ColPerm, AA, perm_c) must run iff Fact = DOFACT and ColPerm != MY_PERMC', gpc[0]['line'] if gpc else None)
    if len(pre) == 1 and len(fac) == 1:
        a, b = pre[0]['args'], fac[0]['args']
        ok = a[0] == ('p', 1) and a[2] == ('p', c.k_perm_c) and a[3] == ('p', c.k_etree) and a[4] is not None and a[4] == b[1] and b[4] == ('p', c.k_etree) \
            and b[0] == ('p', 1) and b[5] == ('p', c.k_work) and b[7:11] == [('p', c.k_perm_c), ('p', c.k_perm_r), ('p', c.k_L), ('p', c.k_U)] \
            and ptr_desc(b[-1]) == '$%d' % c.k_info
        ex.check(lf, ok, 'preorder-feeds-factor', [], 'sp_preorder(options, AA, perm_c, etree, &AC) then %s(options, &AC, relax, panel, etree, work, lwork, perm_c, perm_r, L, U, ..., info)' % c.fac,
                 fac[0]['line'])
        ex.check(lf, lf.must_precede([pre[0]['node']], fac[0]['node']), 'preorder-before-factor', [], 'sp_preorder must precede the factorization', fac[0]['line'])
        if gpc:
            ex.check(lf, gpc[0]['args'][1] == a[1] and lf.must_precede([gpc[0]['node']], pre[0]['node']), 'ordering-on-factored-matrix', ['A.Stype'],
                     'get_perm_c must order the matrix that is factored, before sp_preorder', gpc[0]['line'])


# ---------------------------------------------------------------- condition number / growth (C12.D1, D3)
def g_cond(ex, c, lf):
    v, E, p = lf.val, c.E, c.p
    if 'ConditionNumber' not in v and 'PivotGrowth' not in v and v.get('info') != 3:
        return
    sel = ['Trans', 'A.Stype', 'ConditionNumber']
    con = lf.calls(p + 'gscon')
    lan = lf.calls(p + 'langs')
    info_ok = (not c.nofact(lf)) or v.get('info') == 0
    if v.get('ConditionNumber') == E['YES'] and info_ok and (c.nofact(lf) is False or 'info' in v):
        ok = len(con) == 1 and len(lan) >= 1
        if ex.check(lf, ok, 'estimate-when-asked', sel, 'ConditionNumber = YES: %slangs and %sgscon must run' % (p, p)):
            want = ord('1') if c.notran_eff(lf) else ord('I')
            n1, n2 = lan[-1]['args'][0], con[0]['args'][0]
            ex.check(lf, n1 == want and n2 == want, 'norm-follows-effective-transpose', sel,
                     'the norm must be %s for the %s system as factored (got %s for %slangs, %s for %sgscon)'
                     % (chr(want), 'non-transposed' if c.notran_eff(lf) else 'transposed', _chr(n1), p, _chr(n2), p), con[0]['line'])
            ex.check(lf, con[0]['args'][1:3] == [('p', c.k_L), ('p', c.k_U)] and con[0]['args'][4] == ('p', c.k_rcond), 'gscon-arguments', [],
                     '%sgscon must receive (norm, L, U, anorm, rcond, ...)' % p, con[0]['line'])
            ex.check(lf, lan[-1]['args'][1] == c.AA(lf) or not c.nofact(lf), 'norm-of-factored-matrix', ['A.Stype'], '%slangs must measure the matrix that was factored' % p, lan[-1]['line'])
            # the info = n+1 warning: the comparison of rcond with machine epsilon must lie on every path from the estimate to a return
            # (in particular it may not depend on the number of right-hand sides), and the store it guards must name A's order
            mach = [e for e in lf.calls(lambda nm: nm in ('smach', 'dmach')) if lf.can_reach(con[0]['node'], e['node'])]
            rets = [e for e in lf.returns() if lf.can_reach(con[0]['node'], e['node'])]
            skip = [r for r in rets if lf.can_reach(con[0]['node'], r['node'], avoiding=[e['node'] for e in mach])]
            ex.check(lf, bool(mach) and bool(rets) and not skip, 'warning-test-on-every-path', sel,
                     'after %sgscon every path to a return must compare rcond with machine epsilon (info = n+1 is raised exactly when rcond < eps, whatever nrhs is)' % p,
                     (skip or rets or con)[0]['line'] or con[0]['line'])
            st = [e for e in lf.stores() if e['target'] == '*$%d' % c.k_info and e['rhs'] is not None and '$%d' % c.k_A in _reads(lf, e)
                  and any(lf.can_reach(m['node'], e['node']) for m in mach)]
            ex.check(lf, bool(st), 'warning-store-after-test', sel, 'the rcond < eps test must guard a store of A->ncol + 1 into *info', (mach or con)[0]['line'])
    elif v.get('ConditionNumber') == E['NO']:
        ex.check(lf, not con, 'no-estimate-when-not-asked', sel, 'ConditionNumber = NO: %sgscon must not run' % p, con[0]['line'] if con else None)
        st = [e for e in lf.stores() if e['target'] == '*$%d' % c.k_info and e['rhs'] is not None and '$%d' % c.k_A in _reads(lf, e)]
        ex.check(lf, not st, 'no-warning-without-estimate', sel, 'info = n+1 may only be raised when the condition number was estimated', st[0]['line'] if st else None)
    pg = lf.calls(p + 'PivotGrowth')
    if c.nofact(lf) and 'info' in v and not c.ilu:
        if v['info'] == 3 and v.get('lwork') != -1:
            ok = len(pg) == 1 and ptr_desc(pg[0]['args'][0]) is None and pg[0]['args'][0] == 3
            ex.check(lf, len(pg) == 1 and pg[0]['args'][0] == 3 and pg[0]['args'][2:] == [('p', c.k_perm_c), ('p', c.k_L), ('p', c.k_U)], 'growth-of-leading-columns', ['info'],
                     'singular at column info: the growth factor must be computed over the leading *info columns: %sPivotGrowth(*info, AA, perm_c, L, U)' % p,
                     pg[0]['line'] if pg else None)
        elif v['info'] == 0 and 'PivotGrowth' in v and v.get('PivotGrowth') == E['YES']:
            ok = len(pg) == 1 and pg[0]['args'][0] in (v.get('A.ncol'), ('path', '$%d->ncol' % c.k_A)) and pg[0]['args'][2:] == [('p', c.k_perm_c), ('p', c.k_L), ('p', c.k_U)]
            ex.check(lf, ok, 'growth-over-all-columns', ['PivotGrowth'], '%sPivotGrowth(A->ncol, AA, perm_c, L, U) must run when PivotGrowth = YES' % p, pg[0]['line'] if pg else None)


def _chr(v):
    return chr(v) if isinstance(v, int) and 32 <= v < 127 else str(v)


def _reads(lf, e):
    return e['rhs_reads'] | {s.split('->')[0] for s in lf.engine.scalar_idents(e['rhs'], {})}


# ---------------------------------------------------------------- refinement (C13.D2)
def g_refine(ex, c, lf):
    v, E, p = lf.val, c.E, c.p
    if 'IterRefine' not in v or not c.reached_solve(lf):
        return
    sel = ['IterRefine']
    rf = lf.calls(p + 'gsrfs')
    solve = lf.calls(p + 'gstrs')[0]
    if v['IterRefine'] == E['NOREFINE']:
        ex.check(lf, not rf, 'no-refinement-when-off', sel, 'IterRefine = NOREFINE: %sgsrfs must not run' % p, rf[0]['line'] if rf else None)
        fe = [e for e in lf.stores() if e['base'] == '$%d' % c.k_ferr]
        be = [e for e in lf.stores() if e['base'] == '$%d' % c.k_berr]
        ok = bool(fe) and bool(be) and all(e['value'] == 1.0 for e in fe + be)
        ex.check(lf, ok, 'ferr-berr-are-one', sel, 'IterRefine = NOREFINE: ferr[j] and berr[j] must be set to exactly 1.0', (fe + be)[0]['line'] if (fe + be) else solve['line'])
    else:
        ok = len(rf) == 1
        if ex.check(lf, ok, 'refinement-when-on', sel, 'IterRefine != NOREFINE: %sgsrfs must run once after the solve' % p, solve['line']):
            a = rf[0]['args']
            want = [solve['args'][0], c.AA(lf), ('p', c.k_L), ('p', c.k_U), ('p', c.k_perm_c), ('p', c.k_perm_r), ('p', c.k_equed), ('p', c.k_R), ('p', c.k_C),
                    ('p', c.k_B), ('p', c.k_X), ('p', c.k_ferr), ('p', c.k_berr)]
            ex.check(lf, a[:13] == want, 'refinement-arguments', ['A.Stype'],
                     '%sgsrfs must receive (trant, AA, L, U, perm_c, perm_r, equed, R, C, B, X, ferr, berr, ...) with the same trant as the solve' % p, rf[0]['line'])
            sx = c.scale_stores(lf, c.Xnz)
            ok = lf.must_precede([solve['node']], rf[0]['node']) and all(not lf.can_reach(e['node'], rf[0]['node']) for e in sx)
            ex.check(lf, ok, 'refine-between-solve-and-unscale', [], 'refinement must work on the equilibrated system: after %sgstrs, before X is unscaled' % p, rf[0]['line'])


# ---------------------------------------------------------------- size query (C08.D3)
def g_query(ex, c, lf):
    """collects, per routine, what a size query writes / runs before it returns; reported once per routine by finish_query"""
    v, p = lf.val, c.p
    if v.get('lwork') != -1 or not c.nofact(lf):
        return
    acc = ex.__dict__.setdefault('_query', {'targets': set(), 'phases': set(), 'leaves': 0, 'line': None})
    acc['leaves'] += 1
    allowed = ('$%d' % c.k_info, '$%d' % c.k_mem_usage, '$%d->utime' % c.k_stat, '$%d' % c.k_stat)
    names = {c.k_A: 'A', c.k_equed: 'equed', c.k_R: 'R', c.k_C: 'C', c.k_perm_c: 'perm_c', c.k_perm_r: 'perm_r', c.k_etree: 'etree', c.k_B: 'B', c.k_X: 'X',
             c.k_L: 'L', c.k_U: 'U'}
    for e in lf.stores():
        if e['base'].startswith('$') or e['base'].startswith('*$'):
            if not e['base'].startswith(allowed) and not e['target'].startswith(tuple('*' + a for a in allowed)):
                k = int(''.join(ch for ch in e['base'].lstrip('*$').split('-')[0].split('[')[0] if ch.isdigit()) or 0)
                root = '$%d' % k
                suffix = e['target'].replace('*' + root, '', 1) if e['target'].startswith('*') else e['target'].replace(root, '', 1)
                acc['targets'].add(names.get(k, root) + suffix[:24])
                acc['line'] = acc['line'] or e['line']
    for e in lf.calls(lambda n: n in (p + 'laqgs', p + 'gsequ', 'get_perm_c', 'sp_preorder', p + 'ldperm')):
        acc['phases'].add(e['name'])
        acc['line'] = acc['line'] or e['line']


def finish_query(ex, c):
    acc = ex.__dict__.get('_query')
    if not acc:
        return
    inst = '%s:size-query-has-no-side-effects' % c.f.name
    if acc['targets'] or acc['phases']:
        ex.chk.violate(ex.cid, inst + ':{%s}' % ','.join(sorted(acc['phases'])), '%s:%d' % (c.f.unit, acc['line'] or c.f.line), c.f.name,
                       'lwork = -1 must only report the size estimate in info / mem_usage and leave every other argument as it was; before returning the driver runs %s '
                       '(which overwrite A\'s values/row indices, equed, R, C, perm_c, etree) and itself writes %s; nothing is undone (%d query valuations)'
                       % (sorted(acc['phases']), sorted(acc['targets']), acc['leaves']), cfgname=ex.cfgname)
    else:
        ex.chk.ok(ex.cid, inst, sample='%d query valuations' % acc['leaves'])
