"""C04 Exact singularity is reported, never silently solved  —  pivot rule (?pivotL), first-failure rule (?gstrf), R3 guard group (drivers), R9."""
from ..facts import Program
from ..run import Check, AnalysisBroken
from ..rules import pivot, factor_tail, r9_sibling
from ..rules.effects import PathEffects
from . import _drv, _gssvx, _expert, c01

R9_UNITS = ['pivotL.c', 'gstrf.c', 'gssv.c', 'gssvx.c', 'pivotgrowth.c']


def run(tier):
    chk = Check('C04', tier, level='other')
    chk.explanation = (
        '?pivotL (4 types): the only non-zero return is jcol+1, guarded by an exact `max == 0` test on the running maximum of the '
        'candidate magnitudes; on that path perm_r is not written, nothing is divided and pivot reuse is switched off; a candidate other '
        'than the arg-max can become the pivot only under `mag != 0 && mag >= u*max` of its own entry (so a zero is never chosen while a '
        'non-zero candidate exists). ?gstrf: every ?pivotL result is stored into iinfo only while iinfo == 0 and *info = iinfo follows the '
        'loop (first singular column reported, later columns still processed). Drivers (R3, all valuations): after info != 0 no solve, '
        'refinement or condition estimate is called and B, X are not written (?gssv and ?gssvx). R9 siblings. Not decided: that the leading '
        'block is a valid factorization; that every structurally singular matrix reaches max == 0 (a property of the symbolic phase).')
    cfgs = ['tested'] if tier == 'quick' else ['tested', 'cblas', 'idx64']
    chk.configs = cfgs
    for cfgname in cfgs:
        prog = Program.load(which=('SRC',), cfg=cfgname)
        eff = PathEffects(prog)
        from ..rules import symbolic as _sym
        _sym.dfs_twin_rule(chk, 'C04.dfs', prog, [q + 'column_dfs' for q in 'sdcz'], cfgname)
        chk.clause('C04.D1', 'pivot rule of ?pivotL')
        chk.clause('C04.D2', 'first failing column kept in ?gstrf')
        chk.clause('C04.guard', 'R3 oracle group `guard` of ?gssvx (D3)')
        chk.clause('C01.D1', 'R3 dispatch oracle of ?gssv (no solve / B untouched on failure)')
        # the numerical update kernels decide which pivot candidates are exactly zero: necessary conditions on their index arithmetic
        from ..rules import kernels as _k, r12_supernodal as _r12
        _k.run_factor(chk, 'C04.kern', prog, cfgname)
        chk.clause('C04.kern.index', 'abstract interpretation of the supernodal update kernels in a polynomial index domain: every access to the supernode block is the entry the algebra needs')
        for _p in 'ds':
            _r12.run(chk, 'C04.kern.index', prog, _p, cfgname)
            _r12.run_snode(chk, 'C04.kern.index', prog, _p, cfgname)
        from ..rules import misc as _misc
        chk.clause('C04.cabs', 'the magnitude by which the complex pivot search decides "every candidate is exactly zero" takes the real and the imaginary part')
        _misc.complex_magnitude_rule(chk, 'C04.cabs', prog, cfgname)
        n1 = n2 = n3 = 0
        for p in _drv.PRECS:
            n1 += pivot.run(chk, 'C04.D1', prog, p, cfgname)
            pivot.pivrow_in_sync_rule(chk, 'C04.D1', prog, p, cfgname)
            n2 += factor_tail.run(chk, 'C04.D2', prog, p, cfgname)
            f, fl, leaves = _gssvx.leaves_for(prog, eff, p, ilu=False, tier=tier, split=('Fact', 'Trans', 'Equil', 'A.Stype', 'B.ncol', 'equed', 'info', 'lwork'))
            ctx = _expert.Ctx(prog, f, fl, p, False)
            _expert.run_leaf_groups(chk, 'C04', ctx, leaves, ('guard',), cfgname)
            n3 += len(leaves)
            c01.gssv_oracle(chk, prog, eff, p, cfgname)
        if n1 < 4 * 9 or n2 < 4 * 10 or n3 < 4 * 500:
            raise AnalysisBroken('C04: instance floors not met (pivot %d, gstrf %d, driver leaves %d)' % (n1, n2, n3))
        if cfgname == 'tested':
            r9_sibling.run(chk, prog, 'C04.D4', {p + u for p in 'dz' for u in R9_UNITS}, cfgname)
    return chk.finish()
