"""In-place list consumption hazard (MC64).

MC64's matching routines keep three things in one integer work array q[1..n]: a binary heap growing up from q[1], the set Q2 growing down from
q[n], and - in the first pass over an unmatched column - a temporary list of entry positions.  A loop that *consumes* q as a list
(reads q[v] with v its own counter) while the same loop also stores into q at some other index, or hands q to the heap routines, can
overwrite entries it has not read yet: nothing bounds |heap| + |Q2| + unread entries by n.  (On the pinned tree this happened in mc64wd_ for
columns with several rows tying at the minimum; fixed in ec00b50.)  The rule: no counting loop over v both reads ARR[v] and writes ARR
(directly at an index other than v, or through a callee that may write it), for the work arrays of the MC64 kernels."""
import re
from ..facts import strip, callee_name, loc, root_ref
from ..ir import pretty

HEAP_ROUTINES = {'mc64dd_', 'mc64ed_', 'mc64fd_'}


def run(chk, cid, prog, cfgname, unit='SRC/mc64ad.c', arrays=('q',)):
    chk.clause(cid, 'a loop that consumes a work array as a list does not write that array')
    n = 0
    for f in prog.all_funcs():
        if f.unit != unit:
            continue
        ids = {nm: i for (nm, i, t) in f.params}
        for arr in arrays:
            if arr not in ids:
                continue
            aid = ids[arr]
            chk.saw(unit=f.unit, func=f.unit + ':' + f.name)
            for lp in f.body.walk():
                if lp.k != 'For':
                    continue
                init = strip(lp.c[0])
                if not (init.k == 'Assign' and strip(init.c[0]).k == 'Ref'):
                    continue
                v = strip(init.c[0]).a.get('id')
                body = lp.c[3]
                reads = [x for x in body.walk() if x.k == 'Index' and strip(x.c[0]).k == 'Ref' and strip(x.c[0]).a.get('id') == aid
                         and strip(x.c[1]).k == 'Ref' and strip(x.c[1]).a.get('id') == v]
                lhs = set()
                for x in body.walk():
                    if x.k == 'Assign':
                        for y in x.c[0].walk():
                            lhs.add(id(y))
                reads = [x for x in reads if id(x) not in lhs]
                if not reads:
                    continue
                n += 1
                writes = []
                for x in body.walk():
                    if x.k == 'Assign' and strip(x.c[0]).k == 'Index' and strip(strip(x.c[0]).c[0]).k == 'Ref' and strip(strip(x.c[0]).c[0]).a.get('id') == aid:
                        sub = strip(strip(x.c[0]).c[1])
                        if not (sub.k == 'Ref' and sub.a.get('id') == v):
                            writes.append(x)
                    if x.k == 'Call' and callee_name(x) in HEAP_ROUTINES:
                        if any(root_ref(a) is not None and root_ref(a).a.get('id') == aid for a in x.c[1:]):
                            writes.append(x)
                inst = '%s:list-loop@%s[%s]:%d' % (f.name, arr, strip(init.c[0]).a.get('name'), n)
                if not writes:
                    chk.ok(cid, inst, sample='reads %s, no store into %s[] inside the loop' % (pretty(reads[0]), arr))
                else:
                    chk.violate(cid, inst, loc(f, writes[0]), f.name,
                                'the loop at line %d reads `%s` as a list while `%s` in the same loop stores into %s[]: the heap (from the front) and Q2 (from the '
                                'back) grow inside the same array and can overwrite entries that have not been read yet'
                                % (lp.line, pretty(reads[0]), pretty(writes[0])[:50], arr), cfgname=cfgname)
    if n < 4:
        from ..run import AnalysisBroken
        raise AnalysisBroken('inplace: %d list-consuming loops over the MC64 work arrays found, floor 4' % n)
    return n


def match_count_rule(chk, cid, prog, cfgname, fname='mc64wd_'):
    """*num counts matched columns; mc64ad_ reports a structurally singular matrix exactly when *num < n.  Inside the shortest-augmenting-path
    loop the counter may therefore be advanced only on the path where a path was found: every `++(*num)` in that loop must be cut off from
    the `csp == rinf` test by its false edge (csp != rinf)."""
    from ..facts import const_value
    chk.clause(cid, 'the match counter advances only after an augmenting path was found')
    f = prog.func(fname)
    if f is None:
        from ..run import AnalysisBroken
        raise AnalysisBroken('%s not found' % fname)
    chk.saw(unit=f.unit, func=f.unit + ':' + f.name)
    ids = {nm: i for (nm, i, t) in f.params}
    cfg = prog.cfg(f)
    numid = ids.get('num')
    conds = []
    incs = []
    for cn in cfg.nodes:
        if cn.ast is None:
            continue
        if cn.kind == 'cond':
            c = strip(cn.ast)
            if c.k == 'Binary' and c.a['op'] == '==' and {strip(c.c[0]).a.get('name'), strip(c.c[1]).a.get('name')} == {'csp', 'rinf'}:
                conds.append(cn)
        if cn.kind == 'stmt':
            for x in cn.ast.walk():
                if x.k == 'Unary' and x.a['op'] in ('++', 'post++'):
                    t = strip(x.c[0])
                    if t.k == 'Unary' and t.a['op'] == '*' and strip(t.c[0]).k == 'Ref' and strip(t.c[0]).a.get('id') == numid:
                        incs.append(cn)
    if len(conds) != 1 or not incs:
        from ..run import AnalysisBroken
        raise AnalysisBroken('%s: `csp == rinf` test (%d) / increments of *num (%d) not found as expected' % (fname, len(conds), len(incs)))
    C = conds[0]
    # increments that belong to the augmenting loop: the ones from which C can be reached again (same loop) or that C reaches
    def reach(src, avoid_edge=None):
        seen = set()
        st = [src]
        while st:
            q = st.pop()
            if q in seen:
                continue
            seen.add(q)
            for (s, lab) in cfg.nodes[q].succ:
                if avoid_edge is not None and q == avoid_edge[0] and lab == avoid_edge[1]:
                    continue
                st.append(s)
        return seen
    from_c_any = reach(C.id)
    from_c_true_only = reach(C.id, avoid_edge=(C.id, False))
    n = 0
    for N in incs:
        to_c = C.id in reach(N.id)
        if not (to_c and N.id in from_c_any):
            continue        # the greedy initial matching before the main loop
        n += 1
        inst = '%s:num-advanced-after-success@%d' % (fname, n)
        # violation: N is reachable from C without taking the false edge *before* coming back to C, or N lies on a path into C from the loop head
        bad_after = N.id in _reach_until(cfg, C.id, stop=C.id, avoid_edge=(C.id, False))
        bad_before = not _must_pass_edge(cfg, C, N)
        if bad_after or bad_before:
            chk.violate(cid, inst, loc(f, N.ast), fname,
                        '`%s` is executed in the augmenting loop on a path that does not come from the false edge of `csp == rinf`: a failed search is counted as a '
                        'match, *num reaches n and a structurally singular matrix is reported as success' % pretty(N.ast)[:30], cfgname=cfgname)
        else:
            chk.ok(cid, inst, sample='%s only behind csp != rinf' % pretty(N.ast)[:30])
    if n < 1:
        from ..run import AnalysisBroken
        raise AnalysisBroken('%s: no increment of *num inside the augmenting loop' % fname)
    return n


def _reach_until(cfg, src, stop, avoid_edge):
    """nodes reachable from src without traversing avoid_edge and without passing through `stop` again"""
    seen = set()
    st = [s for (s, lab) in cfg.nodes[src].succ if not (src == avoid_edge[0] and lab == avoid_edge[1])]
    while st:
        q = st.pop()
        if q in seen or q == stop:
            continue
        seen.add(q)
        st.extend(s for (s, _) in cfg.nodes[q].succ)
    return seen


def _must_pass_edge(cfg, C, N):
    """every path from the function entry to N whose last visit of the loop ... simplified: N is not reachable from entry when C's false edge is removed"""
    seen = set()
    st = [cfg.entry.id]
    while st:
        q = st.pop()
        if q in seen:
            continue
        seen.add(q)
        for (s, lab) in cfg.nodes[q].succ:
            if q == C.id and lab is False:
                continue
            st.append(s)
    return N.id not in seen


# ---------------------------------------------------------------- binary heaps of MC64 (mc64dd_ insert, mc64ed_ delete-root, mc64fd_ delete-any)
_FLIP = {'<': '>', '>': '<', '<=': '>=', '>=': '<='}


def _ser(n, flip, labels, out):
    """structural serialisation of a statement tree; floating comparisons mirrored when flip; goto targets / labels numbered by first use"""
    from ..facts import strip
    if n is None:
        out.append('~')
        return
    if n.k in ('Paren', 'Cast', 'ImplicitCast'):
        return _ser(n.c[0], flip, labels, out)
    tag = n.k
    if n.k == 'Binary':
        op = n.a['op']
        if flip and op in _FLIP and any('double' in (strip(c).t or '') or 'float' in (strip(c).t or '') for c in n.c):
            op = _FLIP[op]
        tag += op
    elif n.k in ('Unary', 'Assign'):
        tag += n.a.get('op', '')
    elif n.k == 'Ref':
        tag += ':' + n.a.get('name', '?')
    elif n.k in ('Int', 'Float'):
        tag += ':' + str(n.a.get('value'))
    elif n.k == 'Goto':
        t = n.a.get('target')
        tag += ':%d' % labels.setdefault(t, len(labels))
    elif n.k == 'Label':
        t = n.a.get('id') or n.a.get('declId') or n.a.get('name')
        tag += ':%d' % labels.setdefault(t, len(labels))
    out.append((tag, n.line))
    out.append('(')
    for c in n.c:
        _ser(c, flip, labels, out)
    out.append(')')


def heap_rules(chk, cid, prog, cfgname, unit='SRC/mc64ad.c'):
    """MC64 keeps the candidate rows in a binary heap q[1..qlen] keyed by d[]; iway = 1 is a max-heap (bottleneck job), anything else a
    min-heap (shortest paths).  (H1) the two branches of each heap routine are mirror images: identical statement for statement once
    every floating comparison of the second is reversed - a one-sided change breaks the heap order for one job only.  (H2) sift-down: the
    children of pos are 2*pos and 2*pos+1; the loop leaves when `posk > *qlen` (no child), and looks at the sibling exactly when
    `posk < *qlen`; any other comparison skips a last only child or reads one past the heap.  (H3) sift-up: the parent is pos / 2 and the
    loop leaves when `pos <= 1`."""
    from ..facts import strip, canon, loc, const_value
    from ..ir import pretty
    from ..run import AnalysisBroken
    chk.clause(cid, 'MC64 heap routines: max-heap and min-heap branches are mirror images; child / parent index arithmetic of a 1-based binary heap')
    n = 0
    for fname in ('mc64dd_', 'mc64ed_', 'mc64fd_'):
        f = prog.func(fname)
        if f is None:
            raise AnalysisBroken('%s not found' % fname)
        chk.saw(unit=f.unit, func=f.unit + ':' + f.name)
        # H1
        split = None
        for x in f.body.walk():
            if x.k == 'If' and len(x.c) > 2 and canon(x.c[0], ids=False).replace(' ', '').replace('(', '').replace(')', '') == '*iway==1':
                split = x
                break
        if split is None:
            raise AnalysisBroken('%s: `if (*iway == 1)` not found' % fname)
        a, b = [], []
        _ser(split.c[1], False, {}, a)
        _ser(split.c[2], True, {}, b)
        n += 1
        inst = '%s:max-and-min-branch-mirror' % fname
        ta = [t[0] if isinstance(t, tuple) else t for t in a]
        tb = [t[0] if isinstance(t, tuple) else t for t in b]
        if ta == tb:
            chk.ok(cid, inst, sample='%d nodes per branch' % len([t for t in a if isinstance(t, tuple)]))
        else:
            k = next((i for i in range(min(len(ta), len(tb))) if ta[i] != tb[i]), min(len(ta), len(tb)) - 1)
            la = next((t[1] for t in a[k:] if isinstance(t, tuple) and t[1]), split.line)
            lb = next((t[1] for t in b[k:] if isinstance(t, tuple) and t[1]), split.line)
            chk.violate(cid, inst, '%s:%d' % (f.unit, lb or la), fname,
                        'the iway = 1 (max-heap) branch and the min-heap branch of %s are no longer mirror images: at lines %s / %s the first has `%s`, the '
                        'second (comparisons reversed) `%s`: one of the two heaps orders its elements the wrong way round' % (fname, la, lb, ta[k], tb[k]),
                        cfgname=cfgname)
        # H2 / H3 / H4
        maxnodes = {id(x) for x in split.c[1].walk()}

        def cmps(stmts, lhs):
            # comparisons `lhs OP other` (operands swapped into that order) in the If conditions of a statement list, nested Ifs included
            out = []
            for st in stmts:
                for x in st.walk():
                    if x.k == 'If':
                        c = strip(x.c[0])
                        if c.k == 'Binary' and c.a['op'] in _FLIP:
                            l, r = strip(c.c[0]), strip(c.c[1])
                            if l.k == 'Ref' and l.a.get('name') == lhs:
                                out.append((c.a['op'], canon(r, ids=False).replace(' ', '').replace('(', '').replace(')', '')))
                            elif r.k == 'Ref' and r.a.get('name') == lhs:
                                out.append((_FLIP[c.a['op']], canon(l, ids=False).replace(' ', '').replace('(', '').replace(')', '')))
            return out
        for loop in f.body.walk():
            if loop.k != 'For':
                continue
            body = loop.c[3]
            stmts = body.c if body.k == 'Block' else [body]
            for i, st in enumerate(stmts):
                s0 = strip(st)
                if not (s0.k == 'Assign' and s0.a['op'] == '=' and strip(s0.c[0]).k == 'Ref' and strip(s0.c[0]).a.get('name') == 'posk'):
                    continue
                r = strip(s0.c[1])
                down = r.k == 'Binary' and ((r.a['op'] == '<<' and const_value(r.c[1]) == 1) or (r.a['op'] == '*' and 2 in (const_value(r.c[0]), const_value(r.c[1]))))
                up = r.k == 'Binary' and r.a['op'] == '/' and const_value(r.c[1]) == 2
                if down:
                    n += 1
                    inst = '%s:sift-down-child-tests@%d' % (fname, s0.line and n)
                    tests = ['posk%s%s' % (o, r_) for (o, r_) in cmps(stmts[i + 1:], 'posk') if 'qlen' in r_]
                    want = ['posk>*qlen', 'posk<*qlen']
                    if id(loop) in maxnodes:
                        # orientation of the max-heap: the larger child is taken (`dk < dr` moves to the sibling), the loop leaves when di >= dk
                        n += 1
                        o1 = [(o, r_) for (o, r_) in cmps(stmts[i + 1:], 'dk')]
                        o2 = [(o, r_) for (o, r_) in cmps(stmts[i + 1:], 'di')]
                        inst2 = '%s:max-heap-orientation-down@%d' % (fname, n)
                        if ('<', 'dr') in o1 and ('>=', 'dk') in o2:
                            chk.ok(cid, inst2, sample='sibling when dk < dr, leave when di >= dk')
                        else:
                            chk.violate(cid, inst2, loc(f, s0), fname,
                                        'max-heap (iway = 1) sift-down must move to the sibling when `dk < dr` and leave when `di >= dk`; found %s / %s: '
                                        'the bottleneck job pops rows in the wrong order' % (o1, o2), cfgname=cfgname)
                    if tests[:2] == want:
                        chk.ok(cid, inst, sample='leave when posk > *qlen, sibling when posk < *qlen')
                    else:
                        chk.violate(cid, inst, loc(f, s0), fname,
                                    'sift-down of a 1-based heap of *qlen elements: after `%s` the loop must leave exactly when `posk > *qlen` and look at the '
                                    'sibling exactly when `posk < *qlen`; found %s (a last only child is skipped, or q[*qlen + 1] is read)'
                                    % (pretty(s0), tests[:2] or 'no such tests'), cfgname=cfgname)
                elif up:
                    n += 1
                    inst = '%s:sift-up-root-test@%d' % (fname, n)
                    tests = ['pos%s%s' % (o, r_) for (o, r_) in cmps(stmts[:i], 'pos')]
                    if id(loop) in maxnodes:
                        n += 1
                        o2 = cmps(stmts[i + 1:], 'di')
                        inst2 = '%s:max-heap-orientation-up@%d' % (fname, n)
                        if o2 and o2[0][0] in ('<=', '<') and o2[0][1].startswith('d__['):
                            chk.ok(cid, inst2, sample='leave when di <= d[parent]')
                        else:
                            chk.violate(cid, inst2, loc(f, s0), fname,
                                        'max-heap (iway = 1) sift-up must leave when `di <= d[parent]`; found %s' % (o2[:1],), cfgname=cfgname)
                    if tests and tests[-1] == 'pos<=1':
                        chk.ok(cid, inst, sample='leave when pos <= 1, parent pos / 2')
                    else:
                        chk.violate(cid, inst, loc(f, s0), fname,
                                    'sift-up: the parent `%s` may only be taken after the test `pos <= 1` has left the loop at the root; found %s'
                                    % (pretty(s0), tests[-1:] or 'no test'), cfgname=cfgname)
    if n < 15:
        raise AnalysisBroken('heap_rules: %d instances, expected >= 15 (3 mirrors, 4 sift-down, 4 sift-up loops, 4 orientations)' % n)
    return n


def reset_cover_rule(chk, cid, prog, cfgname):
    """mc64bd_ / mc64wd_ search one augmenting path per column.  Rows that were reached are kept in q[]: a heap in q[1..qlen] and a stack
    that grows downwards from q[n] (`--low; q[low] = i`).  Before the next column every reached row must be un-marked (`d[i] = rinf; l[i] = 0`),
    otherwise the next search treats it as already reached / with a stale distance.  So the epilogue needs a reset loop over the whole stack
    - starting at the very variable that is the store frontier of the stack - up to n, and one over the heap 1..qlen."""
    from ..facts import strip, canon, loc, const_value, root_ref
    from ..ir import pretty
    from ..run import AnalysisBroken
    chk.clause(cid, 'MC64 search epilogue un-marks every row that was pushed: the reset loops cover the whole stack (from its store frontier) and the heap')
    n = 0
    for fname in ('mc64bd_', 'mc64wd_'):
        f = prog.func(fname)
        if f is None:
            raise AnalysisBroken('%s not found' % fname)
        chk.saw(unit=f.unit, func=f.unit + ':' + f.name)
        frontier = set()
        for blk in f.body.walk():
            if blk.k != 'Block':
                continue
            for i, x in enumerate(blk.c[1:], 1):
                x = strip(x)
                if x.k == 'Assign' and x.a['op'] == '=' and strip(x.c[0]).k == 'Index':
                    l = strip(x.c[0])
                    pv = strip(blk.c[i - 1])
                    if root_ref(l) is not None and root_ref(l).a.get('name') == 'q' and strip(l.c[1]).k == 'Ref' and pv.k == 'Unary' \
                            and pv.a['op'] == '--' and strip(pv.c[0]).k == 'Ref' and strip(pv.c[0]).a.get('id') == strip(l.c[1]).a.get('id'):
                        frontier.add(strip(l.c[1]).a.get('name'))      # `--V; q[V] = i`: the downward-growing stack
        if len(frontier) != 1:
            raise AnalysisBroken('%s: store frontier of the q[] stack is %s, expected one variable' % (fname, sorted(frontier)))
        fr = next(iter(frontier))
        resets = []
        for lp in f.body.walk():
            if lp.k != 'For' or lp.c[0] is None or lp.c[1] is None:
                continue
            body = lp.c[3]
            stmts = body.c if body.k == 'Block' else [body]
            if any(x.k in ('If', 'For', 'Call', 'Goto') for st_ in stmts for x in st_.walk()):
                continue                # a reset loop is a straight-line sweep
            st = [x for x in body.walk() if x.k == 'Assign' and x.a['op'] == '=' and strip(x.c[0]).k == 'Index'
                  and root_ref(x.c[0]) is not None and root_ref(x.c[0]).a.get('name') == 'd__' and strip(x.c[1]).k in ('Ref', 'Float', 'Unary', 'Int')]
            rd = [x for x in body.walk() if x.k == 'Assign' and strip(x.c[1]).k == 'Index' and root_ref(x.c[1]) is not None
                  and root_ref(x.c[1]).a.get('name') == 'q']
            if not st or not rd:
                continue
            init, cond = strip(lp.c[0]), strip(lp.c[1])
            if init.k != 'Assign' or cond.k != 'Binary' or cond.a['op'] != '<=':
                continue
            end = strip(cond.c[1])
            # the generated code parks the bound in i__2 just before the loop: resolve it through the statement in front
            endtxt = canon(end, ids=False).replace(' ', '')
            resets.append((lp, canon(strip(init.c[1]), ids=False).replace(' ', ''), endtxt))
        # resolve i__N bounds: the assignment immediately preceding the loop in its block
        resolved = []
        for blk in f.body.walk():
            if blk.k != 'Block':
                continue
            for i, st_ in enumerate(blk.c):
                for (lp, a_, e_) in resets:
                    if st_ is lp:
                        ee = e_
                        prev = strip(blk.c[i - 1]) if i > 0 else None
                        while prev is not None and prev.k == 'Label' and prev.c:
                            prev = strip(prev.c[-1])
                        if prev is not None and prev.k == 'Assign' and canon(prev.c[0], ids=False).replace(' ', '') == e_:
                            ee = canon(prev.c[1], ids=False).replace(' ', '').replace('(', '').replace(')', '')
                        resolved.append((lp, a_, ee))
        spans = [(a_, e_) for (_, a_, e_) in resolved]
        starts = spans

        def covers(lo, hi):
            if (lo, hi) in spans:
                return True
            for (a_, e_) in spans:
                if a_ == lo and e_.endswith('-1') and (e_[:-2], hi) in spans:
                    return True
            return False
        for lo, hi, what in ((fr, '*n', 'stack q[%s..n]' % fr), ('1', 'qlen', 'heap q[1..qlen]')):
            n += 1
            inst = '%s:reset-covers-%s' % (fname, 'stack' if lo == fr else 'heap')
            if covers(lo, hi):
                chk.ok(cid, inst, sample='reset sweeps %s cover %s; store frontier of the stack is `%s`' % (spans, what, fr))
            else:
                chk.violate(cid, inst, loc(f, resolved[0][0]) if resolved else loc(f, f.body), fname,
                            'the reset sweeps of d[] (%s) do not cover the %s: rows are pushed with `--%s; q[%s] = i`, so a row pushed below the first reset '
                            'position keeps its distance from this search when the next column is searched' % (spans, what, fr, fr), cfgname=cfgname)
    return n


def heap_position_typestate(chk, cid, prog, cfgname):
    """In the searches of mc64bd_ / mc64wd_ the mark l[i] of a row is a typestate: 0 = not reached, 1..qlen = its position in the heap, >= low = it
    sits in the stack of finalised rows (>= up: already scanned).  mc64dd_ / mc64fd_ take l[i] as a *heap position*; a finalised row handed to
    them is sifted through the heap from a position that is not in it, and is pushed a second time.  A new distance can round one ulp below
    the final one, so the distance test alone does not keep finalised rows out.  Every call of a heap routine in a column scan must
    therefore be reached only over the false edge of a test `l[i] >= low` made in the same iteration."""
    from ..facts import strip, canon, loc, callee_name
    from ..ir import pretty
    from ..run import AnalysisBroken
    chk.clause(cid, 'MC64 column scans hand a row to the heap routines only after `l[i] >= low` (finalised) has been excluded in the same iteration')
    n = 0
    for fname in ('mc64bd_', 'mc64wd_'):
        f = prog.func(fname)
        if f is None:
            raise AnalysisBroken('%s not found' % fname)
        chk.saw(unit=f.unit, func=f.unit + ':' + f.name)
        cfg = prog.cfg(f)
        node_of = {}
        for cn in cfg.nodes:
            if cn.ast is not None and cn.kind in ('stmt', 'cond'):
                for x in cn.ast.walk():
                    node_of.setdefault(id(x), cn.id)

        def txt(e):
            return canon(e, ids=False).replace(' ', '').replace('(', '').replace(')', '')
        for lp in f.body.walk():
            if lp.k != 'For' or lp.c[1] is None:
                continue
            inner_for = [x for x in lp.c[3].walk() if x.k == 'For']
            calls = [x for x in lp.c[3].walk() if x.k == 'Call' and callee_name(x) in ('mc64dd_', 'mc64fd_')]
            if not calls or inner_for:
                continue
            # the loop's own test
            H = next((cn.id for cn in cfg.nodes if cn.kind == 'cond' and cn.ast is not None and (cn.ast is lp.c[1] or strip(cn.ast) is strip(lp.c[1]))), None)
            if H is None:
                raise AnalysisBroken('%s: loop test of the column scan not found in the CFG' % fname)
            guards = set()
            revisits = False
            for cn in cfg.nodes:
                if cn.kind == 'cond' and cn.ast is not None and any(y is cn.ast or strip(y) is strip(cn.ast) for y in lp.c[3].walk()):
                    t = txt(cn.ast)
                    # mc64wd_: the mark itself says "finalised"; mc64bd_: finalised rows are exactly those whose distance reached the bottleneck
                    if re.match(r'^l\[\w+\]>=low$', t) or (fname == 'mc64bd_' and t == 'di>=bv'):
                        guards.add(cn.id)
                    if re.match(r'^l\[\w+\]>=up$', t):
                        revisits = True
            if not revisits:
                continue        # the scan of the root column meets every row once, before anything was finalised
            for call in calls:
                N = node_of.get(id(call))
                seen = set()
                st = [s for (s, lab) in cfg.nodes[H].succ if lab is True]
                while st:
                    q = st.pop()
                    if q in seen or q == H:
                        continue
                    seen.add(q)
                    for (s, lab) in cfg.nodes[q].succ:
                        if q in guards and lab is False:
                            continue            # paths that passed the exclusion test are fine: do not follow them
                        st.append(s)
                n += 1
                inst = '%s:%s-after-finalised-rows-excluded@%d' % (fname, callee_name(call), n)
                if N is None:
                    raise AnalysisBroken('%s: call node not found' % fname)
                if N not in seen:
                    chk.ok(cid, inst, sample='%d exclusion test(s) `l[i] >= low` in the scan; the call at line %d lies behind one on every path' % (len(guards), call.line))
                else:
                    chk.violate(cid, inst, loc(f, call), fname,
                                '`%s` (line %d) can be reached in a scan iteration without passing the false edge of a test `l[i] >= low`: a row that is '
                                'already in the stack of finalised rows (its new distance can round below the final one) is treated as a heap element, sifted from '
                                'a position outside the heap and pushed twice' % (pretty(call)[:50], call.line), cfgname=cfgname)
    if n < 4:
        raise AnalysisBroken('%s: %d heap calls in column scans found, expected 4' % (cid, n))
    return n


def ldperm_copyout_rule(chk, cid, prog, cfgname):
    """?ldperm returns MC64's scaling vectors by copying dw[0..n) and dw[n..2n) into u and v.  MC64 answers with a *warning* (info[0] = 2,
    "scaling factors large") for a structurally nonsingular matrix of very wide magnitude range: the permutation and the (logarithmic)
    scalings it returns are still the correct ones.  The copy-out must therefore depend on the job only; guarding it with the status leaves
    u and v unwritten exactly for those matrices."""
    from ..facts import strip, canon, loc, root_ref
    from ..ir import pretty
    from ..run import AnalysisBroken
    chk.clause(cid, '?ldperm copies the scaling vectors out whenever the scaling job was requested (not only when MC64 reports no warning)')
    n = 0
    for p in 'sdcz':
        f = prog.func(p + 'ldperm')
        if f is None:
            raise AnalysisBroken('%sldperm not found' % p)
        chk.saw(unit=f.unit, func=f.unit + ':' + f.name)
        uid = {nm: i for (nm, i, t) in f.params}.get('u')
        guards = []

        def walk(x, gs):
            if x.k == 'If':
                walk(x.c[1], gs + [x.c[0]])
                if len(x.c) > 2 and x.c[2] is not None:
                    walk(x.c[2], gs)
                return
            if x.k == 'Assign' and strip(x.c[0]).k == 'Index' and root_ref(x.c[0]) is not None and root_ref(x.c[0]).a.get('id') == uid:
                guards.append((x, list(gs)))
            for c in x.c:
                walk(c, gs)
        walk(f.body, [])
        if not guards:
            raise AnalysisBroken('%sldperm: copy-out of u[] not found' % p)
        x, gs = guards[0]
        n += 1
        inst = '%sldperm:scalings-copied-for-every-status' % p
        bad = [g for g in gs if any(y.k == 'Ref' and y.a.get('name') == 'info' for y in g.walk())]
        if not bad:
            chk.ok(cid, inst, sample='`%s` under %s' % (pretty(x)[:30], ' && '.join(pretty(g)[:20] for g in gs) or 'no guard'))
        else:
            chk.violate(cid, inst, loc(f, x), f.name,
                        '`%s` is executed only under `%s`: for a matrix on which MC64 returns a warning (large scaling factors) the caller gets a valid permutation '
                        'but u and v are never written' % (pretty(x)[:30], pretty(bad[0])[:40]), cfgname=cfgname)
    return n
