"""Repository-specific contradiction lints (Engler et al.: a stated belief contradicted by the code next to it)."""
import re
from ..facts import strip, const_value, loc, canon, root_ref
from ..ir import pretty
from ..run import AnalysisBroken


def _conjuncts(e):
    e = strip(e)
    if e.k == 'Binary' and e.a['op'] == '&&':
        return _conjuncts(e.c[0]) + _conjuncts(e.c[1])
    return [e]


DIMENSIONS = {'n', 'm', 'nrow', 'ncol', 'nnz', 'nz', 'n_col', 'n_row', 'neqns'}
# arrays that are declared one longer than the dimension they are indexed against, so that a[dimension] exists: (function, array) -> reason
ONE_LONGER = {('find_ordering', 'head'): 'COLAMD: head[] has n_col + 1 entries (colamd.c, Col/head set-up in init_scoring)'}


def _bounded_var(c):
    """variable id bounded from above by a dimension of the routine in the conjunct `v < n` / `n > v`"""
    c = strip(c)
    if c.k != 'Binary' or c.a['op'] not in ('<', '>'):
        return None
    l, r = strip(c.c[0]), strip(c.c[1])
    if c.a['op'] == '>':
        l, r = r, l
    if l.k == 'Ref' and l.a.get('dk') in ('VarDecl', 'ParmVarDecl') and r.k == 'Ref' and r.a.get('name') in DIMENSIONS:
        return l.a.get('id')
    return None


def _subscripts_with(e, vid):
    for x in e.walk():
        if x.k == 'Index':
            for y in x.c[1].walk():
                if y.k == 'Ref' and y.a.get('id') == vid:
                    return x
    return None


def bound_before_use_rule(chk, cid, prog, cfgname, units_prefix=('SRC/',), floor=8):
    """In a short-circuit condition that both bounds an index (`j < n`) and subscripts with it (`descendants[j] != 0`), the author believes the
    index can reach the bound; then the bound test has to come first, or the element one past the end is read (and, uninitialised or not,
    decides the branch) before the test can stop it."""
    chk.clause(cid, 'a short-circuit condition bounds an index before it subscripts with it')
    n = 0
    for f in prog.all_funcs():
        if not f.unit.startswith(units_prefix):
            continue
        seen = set()
        for x in f.body.walk():
            if not (x.k == 'Binary' and x.a['op'] == '&&') or id(x) in seen:
                continue
            for y in x.walk():
                if y.k == 'Binary' and y.a['op'] == '&&':
                    seen.add(id(y))
            cs = _conjuncts(x)
            for j, cj in enumerate(cs):
                vid = _bounded_var(cj)
                if vid is None:
                    continue
                before = [(_subscripts_with(ci, vid), ci) for ci in cs[:j]]
                after = [(_subscripts_with(ci, vid), ci) for ci in cs[j + 1:]]
                before = [b for b in before if b[0] is not None]
                after = [a for a in after if a[0] is not None]
                if not before and not after:
                    continue
                n += 1
                chk.saw(unit=f.unit, func=f.unit + ':' + f.name)
                inst = '%s:%s:bound-then-subscript@%d:%s' % (f.unit, f.name, n, pretty(cj)[:30])
                if before and (f.name, (root_ref(before[0][0]).a.get('name') if root_ref(before[0][0]) is not None else None)) in ONE_LONGER:
                    chk.ok(cid, inst, sample='listed: ' + ONE_LONGER[(f.name, root_ref(before[0][0]).a.get('name'))], nontrivial=False)
                elif before:
                    chk.violate(cid, '%s:subscript-before-bound:%s' % (f.name, pretty(before[0][0])[:40]), loc(f, x), f.name,
                                '`%s` reads `%s` before `%s` has bounded the index: when the index has reached the bound, the element one past '
                                'the end is read first (out of bounds for an exactly-sized array, indeterminate otherwise) and can decide the branch'
                                % (pretty(x)[:90], pretty(before[0][0])[:40], pretty(cj)[:30]), cfgname=cfgname)
                else:
                    chk.ok(cid, inst, sample=pretty(x)[:80])
    if n < floor:
        raise AnalysisBroken('%s: only %d bounded-subscript conditions found (floor %d)' % (cid, n, floor))
    return n


from ..facts import callee_name

# scratch/outputs of the relaxed-supernode search that are swept over all n columns of the (possibly wide) matrix
NEEDS_N = {'relax_snode': ('descendants', 'relax_end'), 'heap_relax_snode': ('descendants', 'relax_end'),
           'ilu_relax_snode': ('descendants', 'relax_end', 'relax_fsupc'), 'ilu_heap_relax_snode': ('descendants', 'relax_end', 'relax_fsupc')}
ALLOC_SUFFIX = ('Malloc', 'Calloc', 'superlu_malloc')


def scratch_extent_rule(chk, cid, prog, cfgname, floor=24):
    """?gstrf / ?gsitrf factor general m-by-n matrices; the arrays they hand to the relaxed-supernode search are swept `for (j = 0; j < n; ..)`
    there, so each must be allocated from the column count.  The pieces SetIWork carves out of iwork[] (marker, segrep, ...) are sized by the
    row count m only (NO_MARKER*m for marker): passing one of them overruns the work array as soon as n > 3m."""
    chk.clause(cid, 'arrays handed to the relaxed-supernode search are allocated from the column count')
    n = 0
    for f in prog.all_funcs():
        if not f.unit.startswith('SRC/'):
            continue
        calls = [x for x in f.body.walk() if x.k == 'Call' and callee_name(x) in NEEDS_N]
        if not calls:
            continue
        # locals sized by SetIWork (row count) and locals allocated directly
        by_setiwork = set()
        alloc_size = {}
        for x in f.body.walk():
            if x.k == 'Call' and callee_name(x) == 'SetIWork':
                for a in x.c[1:]:
                    a = strip(a)
                    if a.k == 'Unary' and a.a['op'] == '&' and strip(a.c[0]).k == 'Ref':
                        by_setiwork.add(strip(a.c[0]).a.get('id'))
            if x.k == 'Assign' and x.a['op'] == '=' and strip(x.c[0]).k == 'Ref':
                r = strip(x.c[1])
                if r.k == 'Call' and (callee_name(r) or '').endswith(ALLOC_SUFFIX):
                    alloc_size.setdefault(strip(x.c[0]).a.get('id'), []).append(r)
        for call in calls:
            tgt = prog.resolve(callee_name(call), f.unit)
            if tgt is None:
                raise AnalysisBroken('%s: callee %s not resolved' % (cid, callee_name(call)))
            pnames = [nm for (nm, _, _) in tgt.params]
            ncol = strip(call.c[1 + pnames.index('n')])
            for pn in NEEDS_N[tgt.name]:
                if pn not in pnames:
                    raise AnalysisBroken('%s: %s has no parameter %s any more' % (cid, tgt.name, pn))
                # sanity: the callee sweeps it up to n
                arg = strip(call.c[1 + pnames.index(pn)])
                n += 1
                chk.saw(unit=f.unit, func=f.unit + ':' + f.name)
                inst = '%s:%s(%s)' % (f.name, tgt.name, pn)
                if arg.k != 'Ref':
                    raise AnalysisBroken('%s: argument `%s` of %s in %s is not a plain array variable' % (cid, pretty(arg), tgt.name, f.name))
                vid = arg.a.get('id')
                if vid in by_setiwork:
                    chk.violate(cid, inst + ':row-sized', loc(f, call), f.name,
                                '`%s` is handed to %s as `%s`, which is swept over all %s columns, but it is a piece of iwork[] carved out by SetIWork and '
                                'sized by the row count only: for a wide matrix (n > 3m) the sweep writes past the end of the work array'
                                % (arg.a['name'], tgt.name, pn, pretty(ncol)), cfgname=cfgname)
                    continue
                sizes = alloc_size.get(vid, [])
                okk = sizes and all(any(y.k == 'Ref' and ncol.k == 'Ref' and y.a.get('id') == ncol.a.get('id') for y in s.walk()) for s in sizes)
                if okk:
                    chk.ok(cid, inst, sample='%s = %s' % (arg.a['name'], pretty(sizes[0])[:50]))
                else:
                    chk.violate(cid, inst + ':not-column-sized', loc(f, call), f.name,
                                '`%s` is handed to %s as `%s` (swept over all %s columns) but its allocation %s does not depend on the column count'
                                % (arg.a['name'], tgt.name, pn, pretty(ncol), [pretty(s)[:40] for s in sizes] or 'is not in this routine'), cfgname=cfgname)
    if n < floor:
        raise AnalysisBroken('%s: only %d array arguments of the relaxed-supernode search found (floor %d)' % (cid, n, floor))
    return n


def outparam_on_status_rule(chk, cid, prog, cfgname, callees=None, floor=8):
    """`if ( (*info = ilu_?pivotL(.., &pivrow, ..)) ) { ...; marker[pivrow] = kcol; }`: the caller indexes an array with the variable it lent to the
    callee, on the branch where the callee returned a non-zero status.  Then every path of the callee to a non-zero return must have stored
    through that parameter; a return that leaves it alone hands the caller whatever the variable held before (the remembered row of another
    history, the previous column's pivot, or nothing at all on the first column) as an array index.  Must-assigned dataflow over the
    callee's CFG, one instance per (call site, non-zero return)."""
    chk.clause(cid, 'a lent variable that the caller indexes with after a non-zero status is stored on every path to that status')
    n = 0
    callees = callees or [q + p + 'pivotL' for q in ('', 'ilu_') for p in 'sdcz']
    for f in prog.all_funcs():
        if not f.unit.startswith('SRC/'):
            continue
        for ifn in f.body.walk():
            if ifn.k != 'If':
                continue
            call = None
            for x in ifn.c[0].walk():
                if x.k == 'Call' and callee_name(x) in callees:
                    call = x
            if call is None:
                continue
            tgt = prog.resolve(callee_name(call), f.unit)
            if tgt is None:
                raise AnalysisBroken('%s: %s not resolved' % (cid, callee_name(call)))
            for ai, a in enumerate(call.c[1:]):
                a = strip(a)
                if not (a.k == 'Unary' and a.a['op'] == '&' and strip(a.c[0]).k == 'Ref'):
                    continue
                vid = strip(a.c[0]).a.get('id')
                vname = strip(a.c[0]).a.get('name')
                # is it used as a subscript in the non-zero branch before being reassigned?
                use = None
                for x in ifn.c[1].walk():
                    if x.k == 'Index' and any(y.k == 'Ref' and y.a.get('id') == vid for y in x.c[1].walk()):
                        use = x
                        break
                if use is None:
                    continue
                pid = tgt.params[ai][1]
                cfg = prog.cfg(tgt)
                # state: set of (stored through the parameter?, returned status variable known to be 0?) pairs - one per class of paths,
                # so that "info = 0 on the branch that keeps the caller's row" and "info = jcol+1 on the branch that stores" stay apart
                retvars = {strip(x.c[0]).a.get('id') for x in tgt.body.walk() if x.k == 'Return' and x.c and strip(x.c[0]).k == 'Ref'}

                def step(node, st):
                    out = set()
                    for (asg, zero) in st:
                        if node.ast is not None and node.kind in ('stmt', 'cond', 'return', 'switch'):
                            for x in node.ast.walk():
                                if x.k == 'Assign':
                                    l = strip(x.c[0])
                                    if l.k == 'Unary' and l.a['op'] == '*' and strip(l.c[0]).k == 'Ref' and strip(l.c[0]).a.get('id') == pid:
                                        asg = True
                                    if l.k == 'Ref' and l.a.get('id') in retvars:
                                        zero = (x.a['op'] == '=' and const_value(x.c[1]) == 0)
                        out.add((asg, zero))
                    return frozenset(out)

                IN = {cfg.entry.id: frozenset([(False, False)])}
                work = [cfg.entry.id]
                while work:
                    nid = work.pop()
                    node = cfg.nodes[nid]
                    st = step(node, IN[nid])
                    for (s_, lab) in node.succ:
                        if s_ not in IN:
                            IN[s_] = st
                            work.append(s_)
                        elif not st <= IN[s_]:
                            IN[s_] = IN[s_] | st
                            work.append(s_)
                rets = {}
                for node in cfg.nodes:
                    if node.kind != 'return' or node.id not in IN or not node.ast.c:
                        continue
                    if const_value(node.ast.c[0]) == 0:
                        continue
                    st = step(node, IN[node.id])
                    isvar = strip(node.ast.c[0]).k == 'Ref' and strip(node.ast.c[0]).a.get('id') in retvars
                    live = [(asg, zero) for (asg, zero) in st if not (isvar and zero)]
                    if not live:
                        continue
                    rets[node.id] = all(asg for (asg, zero) in live)
                if not rets:
                    raise AnalysisBroken('%s: %s has no non-zero return' % (cid, tgt.name))
                def guard_of(r):
                    best = None
                    for x in tgt.body.walk():
                        if x.k == 'If' and any(y is r for y in x.walk()):
                            best = x        # walk is pre-order: the last match is the innermost
                    return canon(best.c[0], ids=False).replace(' ', '') if best is not None else 'unconditional'
                for nid, okk in sorted(rets.items(), key=lambda kv: cfg.nodes[kv[0]].ast.line):
                    r = cfg.nodes[nid].ast
                    tag = guard_of(r)
                    n += 1
                    chk.saw(unit=f.unit, func=f.unit + ':' + f.name)
                    inst = '%s:%s->%s:%s@%s' % (f.name, vname, tgt.name, tgt.params[ai][0], tag)
                    if okk:
                        chk.ok(cid, inst, sample='`%s` at %s:%d is reached only after a store through %s' % (pretty(r)[:30], tgt.unit, r.line, tgt.params[ai][0]))
                    else:
                        chk.violate(cid, '%s:%s:unset-on-status:%s:%s@%s' % (f.name, vname, tgt.name, tgt.params[ai][0], tag),
                                    loc(tgt, r), tgt.name,
                                    '%s can reach `%s` (line %d) without storing through `%s`; its caller %s then executes `%s` (line %d) with whatever `%s` held '
                                    'before the call: an array index that no one chose (out-of-range write when it is stale or uninitialised)'
                                    % (tgt.name, pretty(r)[:30], r.line, tgt.params[ai][0], f.name, pretty(use)[:40], use.line, vname), cfgname=cfgname)
    if n < floor:
        raise AnalysisBroken('%s: only %d (call site, status return) pairs found (floor %d)' % (cid, n, floor))
    return n


def inclusive_do_loop_rule(chk, cid, prog, cfgname, units=('SRC/mc64ad.c',), floor=90):
    """mc64ad.c (and mmd.c) are f2c translations: every counted loop is a Fortran DO loop `DO v = a, b`, inclusive at both ends, rendered as
    `for (v = a; v <= b; ++v)`.  An upper test `<` drops the last index - the last matched row that a shortest-path search must be able to
    scan, the last column of a reset sweep - and only matrices that need that last index notice.  Every `for` whose increment is `++v` and
    whose test compares v with a bound must use `<=`."""
    chk.clause(cid, 'counted loops of the f2c-translated sources are inclusive (v <= bound), as the DO loops they came from')
    n = 0
    for f in prog.all_funcs():
        if f.unit not in units:
            continue
        for lp in f.body.walk():
            if lp.k != 'For' or lp.c[1] is None or lp.c[2] is None:
                continue
            inc, cond = strip(lp.c[2]), strip(lp.c[1])
            if not (inc.k == 'Unary' and inc.a['op'] == '++' and strip(inc.c[0]).k == 'Ref'):
                continue
            if not (cond.k == 'Binary' and cond.a['op'] in ('<', '<=') and strip(cond.c[0]).k == 'Ref' and strip(cond.c[0]).a.get('id') == strip(inc.c[0]).a.get('id')):
                continue
            n += 1
            chk.saw(unit=f.unit, func=f.unit + ':' + f.name)
            inst = '%s:%s:do-loop@%d' % (f.unit, f.name, n)
            if cond.a['op'] == '<=':
                chk.ok(cid, inst, nontrivial=False)
            else:
                chk.violate(cid, '%s:exclusive-do-loop:%s' % (f.name, pretty(cond)[:30].replace(' ', '')), loc(f, lp), f.name,
                            'the counted loop `for (%s; %s; %s)` stops one short: the Fortran DO loop it translates includes its upper bound (all other %s '
                            'loops of this file test with <=)' % (pretty(lp.c[0])[:20] if lp.c[0] is not None else '', pretty(cond)[:30], pretty(inc)[:10], 'counted'),
                            cfgname=cfgname)
    if n < floor:
        raise AnalysisBroken('%s: %d counted loops found in %s, floor %d' % (cid, n, units, floor))
    return n


def unused_induction_rule(chk, cid, prog, cfgname, units_prefix=('SRC/',), floor=400):
    """`for (k = a; k < b; k++) xlsub[fsupc+1] = nextl;` - a counted loop whose body never mentions its own induction variable repeats one and the
    same action; where the neighbouring code shows the variable was meant to select the element (`xlsub[k] = nextl`), the slip leaves all
    other elements stale.  Counted loops over a local variable whose body and whose other header parts do not mention that variable are
    reported, except loops that only count iterations on purpose: f2c dummy loops (idum/jdum), loops whose body advances another cursor
    (p++, *p++ = .., x += stride) or calls a routine with the loop bound as argument, and loops that only write through cursors."""
    chk.clause(cid, 'a counted loop uses its induction variable (or visibly advances another cursor)')
    DUMMY = re.compile(r'^(idum|jdum|kdum|dummy|iter|count|it|irep|itry)$')
    n = 0
    for f in prog.all_funcs():
        if not f.unit.startswith(units_prefix):
            continue
        for lp in f.body.walk():
            if lp.k != 'For' or lp.c[0] is None or lp.c[1] is None or lp.c[2] is None:
                continue
            i0 = strip(lp.c[0])
            if not (i0.k == 'Assign' and strip(i0.c[0]).k == 'Ref' and strip(i0.c[0]).a.get('dk') == 'VarDecl'):
                continue
            v = strip(i0.c[0])
            vid = v.a.get('id')
            inc = strip(lp.c[2])
            if not (inc.k == 'Unary' and inc.a['op'] in ('++', '--') and strip(inc.c[0]).k == 'Ref' and strip(inc.c[0]).a.get('id') == vid):
                continue
            n += 1
            body = lp.c[3]
            used = any(y.k == 'Ref' and y.a.get('id') == vid for y in body.walk())
            if used:
                chk.ok(cid, '%s:%s:loop@%d' % (f.unit, f.name, n), nontrivial=False)
                continue
            chk.saw(unit=f.unit, func=f.unit + ':' + f.name)
            advances = any((y.k == 'Unary' and y.a['op'] in ('++', '--')) or (y.k == 'Assign' and y.a['op'] in ('+=', '-=')) or y.k == 'Call'
                           or (y.k == 'Assign' and strip(y.c[0]).k == 'Ref' and any(z.k == 'Ref' and z.a.get('id') == strip(y.c[0]).a.get('id') for z in y.c[1].walk()))
                           for y in body.walk())       # p++, x += s, a call, or a chase `j = pr[j]`
            inst = '%s:%s:loop-without-its-variable@%d' % (f.unit, f.name, n)
            if DUMMY.match(v.a.get('name') or '') or advances:
                chk.ok(cid, inst, sample='counts iterations: `%s`' % pretty(lp.c[1])[:40], nontrivial=True)
            else:
                stores = [y for y in body.walk() if y.k == 'Assign']
                chk.violate(cid, '%s:loop-ignores-%s:%s' % (f.name, v.a.get('name'), pretty(stores[0])[:40].replace(' ', '') if stores else ''), loc(f, lp), f.name,
                            'the loop `for (%s; %s; %s)` never uses %s in its body (`%s`): it repeats one action instead of visiting the elements %s selects'
                            % (pretty(i0)[:30], pretty(lp.c[1])[:30], pretty(inc)[:10], v.a.get('name'), pretty(stores[0])[:50] if stores else pretty(body)[:50],
                               v.a.get('name')), cfgname=cfgname)
    if n < floor:
        raise AnalysisBroken('%s: only %d counted loops found (floor %d)' % (cid, n, floor))
    return n


def scratch_initialised_rule(chk, cid, prog, cfgname):
    """Two places where a routine reads memory it obtained uninitialised, so that its result depends on what earlier calls left there:
    (a) the relaxed-supernode searches accumulate subtree sizes in a scratch array (`descendants[parent] += descendants[j] + 1`) that comes
        from malloc or from the caller's work array: a loop that zeroes descendants[0..n) must precede the accumulation;
    (b) get_colamd hands its local `knobs[]` to colamd(), which reads the dense-row / dense-column thresholds from it: the array must first
        go through colamd_set_defaults().
    With residue in either, the supernode partition resp. the ordering (both valid, so every residual test passes) changes with the history
    of the process."""
    chk.clause(cid, 'scratch that is read is initialised first (descendants[] of the relaxed-supernode searches, knobs[] of COLAMD)')
    n = 0
    for fname in ('relax_snode', 'heap_relax_snode', 'ilu_relax_snode', 'ilu_heap_relax_snode'):
        f = prog.func(fname)
        if f is None:
            raise AnalysisBroken('%s not found' % fname)
        chk.saw(unit=f.unit, func=f.unit + ':' + f.name)
        did = {nm: i for (nm, i, t) in f.params}.get('descendants')
        if did is None:
            raise AnalysisBroken('%s: parameter descendants not found' % fname)
        acc = [x for x in f.body.walk() if x.k == 'Assign' and x.a['op'] == '+=' and strip(x.c[0]).k == 'Index' and root_ref(x.c[0]) is not None
               and root_ref(x.c[0]).a.get('id') == did]
        zero = []
        for lp in f.body.walk():
            if lp.k == 'For':
                for x in lp.c[3].walk() if lp.c[3].k != 'Assign' else [lp.c[3]]:
                    if x.k == 'Assign' and x.a['op'] == '=' and strip(x.c[0]).k == 'Index' and root_ref(x.c[0]) is not None and root_ref(x.c[0]).a.get('id') == did \
                            and const_value(x.c[1]) == 0:
                        zero.append((lp, x))
        if not acc:
            raise AnalysisBroken('%s: accumulation into descendants[] not found' % fname)
        n += 1
        inst = '%s:descendants-zeroed-before-accumulation' % fname
        if any(lp.line <= acc[0].line for (lp, x) in zero):
            chk.ok(cid, inst, sample='zeroing loop at line %d, first accumulation at line %d' % (min(lp.line for (lp, x) in zero), acc[0].line))
        else:
            chk.violate(cid, inst, loc(f, acc[0]), fname,
                        '`%s` accumulates into descendants[], but no loop zeroes the array first: the subtree sizes start from whatever the memory held (recycled heap, '
                        'the work array of the caller), so the relaxed supernodes - and with them L, U and the rounding of X - depend on earlier calls' % pretty(acc[0])[:50],
                        cfgname=cfgname)
    f = next((g for g in prog.all_funcs() if g.name == 'get_colamd'), None)
    if f is None:
        raise AnalysisBroken('get_colamd not found')
    chk.saw(unit=f.unit, func=f.unit + ':' + f.name)
    use = [x for x in f.body.walk() if x.k == 'Call' and (callee_name(x) or '').lower() in ('colamd', 'colamd_l') ]
    init = [x for x in f.body.walk() if x.k == 'Call' and 'set_defaults' in (callee_name(x) or '').lower()]
    if not use:
        raise AnalysisBroken('get_colamd: call of colamd not found')
    n += 1
    inst = 'get_colamd:knobs-go-through-set_defaults'
    kn = [strip(a) for a in use[0].c[1:] if strip(a).k == 'Ref' and 'knobs' in (strip(a).a.get('name') or '')]
    okk = bool(kn) and any(any(strip(a).k == 'Ref' and strip(a).a.get('id') == kn[0].a.get('id') for a in c.c[1:]) and c.line <= use[0].line for c in init)
    if okk:
        chk.ok(cid, inst, sample='%s(%s) before %s(..)' % (callee_name(init[0]), kn[0].a.get('name'), callee_name(use[0])))
    else:
        chk.violate(cid, inst, loc(f, use[0]), 'get_colamd',
                    'colamd() reads its thresholds from `%s`, a local array that was not passed through colamd_set_defaults() first: dense-row / dense-column limits and '
                    'the aggressive-absorption flag are whatever the stack held, and the ordering changes with the call history' % (kn[0].a.get('name') if kn else 'knobs'),
                    cfgname=cfgname)
    return n


def qselect_input_rule(chk, cid, prog, cfgname):
    """`tol = ?qselect(n, W, k)` selects the k-th largest of W[0..n).  W is scratch (a caller work array or recycled heap), so the statement that
    fills it must write exactly the n entries that are read: a BLAS copy `?copy_(&n, src, &1, W, &1)` with the same count, or a counting loop
    `for (i = 0; i < n; ++i..) W[i] = ..` whose condition bounds the subscript variable by the same count.  A shorter fill leaves residue of
    earlier calls in the selection, so the drop tolerance - and with it the incomplete factors - depend on the history of the process."""
    from ..run import AnalysisBroken
    n = 0
    for f in prog.all_funcs():
        if not f.unit.startswith('SRC/ilu_'):
            continue
        for blk in f.body.walk():
            if blk.k != 'Block':
                continue
            sts = [s for s in blk.c if s.k != 'Empty']
            for i, s in enumerate(sts):
                call = None
                if s.k == 'Assign' and strip(s.c[1]).k == 'Call' and (callee_name(strip(s.c[1])) or '').endswith('qselect'):
                    call = strip(s.c[1])
                if call is None:
                    continue
                chk.saw(unit=f.unit, func=f.unit + ':' + f.name)
                cnt, W = call.c[1], root_ref(call.c[2])
                if W is None:
                    raise AnalysisBroken('%s: array argument of %s not a plain array' % (f.name, callee_name(call)))
                cnt_c = canon(cnt, ids=False)
                n += 1
                inst = '%s:%s(%s,%s)-input-filled' % (f.name, callee_name(call), cnt_c, W.a.get('name'))
                if i == 0:
                    chk.violate(cid, inst, loc(f, s), f.name, 'no statement before `%s` fills %s[0..%s)' % (pretty(s)[:50], W.a.get('name'), cnt_c), cfgname=cfgname)
                    continue
                prev = sts[i - 1]
                ok, why = False, 'the statement before the selection (`%s`) is neither a copy nor a counting loop into %s' % (pretty(prev)[:50], W.a.get('name'))
                pc = strip(prev) if prev.k != 'For' else None
                if pc is not None and pc.k == 'Call' and (callee_name(pc) or '').rstrip('_').endswith('copy') and len(pc.c) >= 6:
                    c0 = strip(pc.c[1])
                    c0 = c0.c[0] if c0.k == 'Unary' and c0.a['op'] == '&' else c0
                    dst = root_ref(pc.c[4])
                    ok = canon(c0, ids=False) == cnt_c and dst is not None and dst.a.get('id') == W.a.get('id')
                    why = '`%s` copies %s entries into %s, the selection reads %s' % (pretty(pc)[:60], canon(c0, ids=False), dst.a.get('name') if dst is not None else '?', cnt_c)
                elif prev.k == 'For':
                    body = prev.c[3]
                    asg = [x for x in ([body] if body.k == 'Assign' else body.walk()) if x.k == 'Assign' and strip(x.c[0]).k == 'Index'
                           and root_ref(x.c[0]) is not None and root_ref(x.c[0]).a.get('id') == W.a.get('id')]
                    cond = strip(prev.c[1])
                    if not (asg and cond.k == 'Binary' and cond.a['op'] == '<'):
                        raise AnalysisBroken('%s: the loop before %s is not a counting loop `for (..; v < n; ..) %s[v] = ..` this rule can read' % (f.name, callee_name(call), W.a.get('name')))
                    if asg and cond.k == 'Binary' and cond.a['op'] == '<':
                        sub = strip(strip(asg[0].c[0]).c[1])
                        lhs = strip(cond.c[0])
                        zero = any(x.k == 'Assign' and strip(x.c[0]).k == 'Ref' and sub.k == 'Ref' and strip(x.c[0]).a.get('id') == sub.a.get('id') and const_value(x.c[1]) == 0
                                   for x in prev.c[0].walk())
                        ok = sub.k == 'Ref' and lhs.k == 'Ref' and lhs.a.get('id') == sub.a.get('id') and canon(cond.c[1], ids=False) == cnt_c and zero
                        why = 'fill loop `for (%s; %s; ..) %s` against a selection over %s[0..%s)' % (pretty(prev.c[0])[:20], pretty(cond), pretty(asg[0])[:40], W.a.get('name'), cnt_c)
                if not ok and why.startswith('the statement before'):
                    raise AnalysisBroken('%s: %s' % (f.name, why))
                if ok:
                    chk.ok(cid, inst, sample=why)
                else:
                    chk.violate(cid, inst, loc(f, prev), f.name,
                                why + ': the scratch array must be written for exactly the entries the selection reads, or the drop tolerance is computed from residue of earlier calls',
                                cfgname=cfgname)
    if n < 8:
        raise AnalysisBroken('qselect_input_rule: %d selection call sites, floor 8' % n)
    return n
