"""Small repository-specific consistency rules (each with the belief it encodes)."""
from ..facts import strip, callee_name, const_value, loc, root_ref, canon
from ..ir import pretty


def relax_end_inclusive(chk, cid, prog, cfgname):
    """relax_end[j] holds the LAST column of the relaxed supernode that starts at j (relax_snode / heap_relax_snode write it so,
    ?gstrf / ?gsitrf / mark_relax read it).  Hence every loop that runs a column index up to a value read from relax_end[] must
    include that value (`<=`)."""
    chk.clause(cid, 'loops up to relax_end[] are inclusive')
    n = 0
    for f in prog.all_funcs():
        if f.unit.startswith(('CBLAS/', 'FORTRAN/')):
            continue
        ends = set()
        for x in f.body.walk():
            if x.k == 'Assign' and x.a['op'] == '=' and strip(x.c[0]).k == 'Ref':
                r = strip(x.c[1])
                if r.k == 'Index' and strip(r.c[0]).k == 'Ref' and strip(r.c[0]).a['name'] == 'relax_end':
                    ends.add(strip(x.c[0]).a['id'])
        if not ends:
            continue
        for lp in f.body.walk():
            if lp.k != 'For':
                continue
            c = strip(lp.c[1])
            if c.k == 'Binary' and c.a['op'] in ('<', '<=') and strip(c.c[1]).k == 'Ref' and strip(c.c[1]).a.get('id') in ends:
                n += 1
                chk.saw(unit=f.unit, func=f.unit + ':' + f.name)
                inst = '%s:loop-to-relax_end:%s' % (f.name, canon(c, ids=False))
                if c.a['op'] == '<=':
                    chk.ok(cid, inst, sample=pretty(c))
                else:
                    chk.violate(cid, inst, loc(f, lp), f.name,
                                'relax_end[] stores the last column of a relaxed supernode (inclusive); the loop `%s` stops one column short, so the last column of every '
                                'relaxed supernode (and the only column of a singleton) is skipped' % pretty(c), cfgname=cfgname)
    return n
