"""C13: ?gsrfs  -  transpose letters of residual / correction / estimator solves (R3), stopping rule and BERR recomputation (CFG rules)."""
from ..facts import strip, callee_name, const_value, loc, root_ref
from ..ir import pretty
from . import r3_dispatch as r3
from . import r2_argcheck as r2
from ..props._drv import Flags, Expect, ppos, set_through


def gsrfs_oracle(chk, cid, prog, eff, p, cfgname):
    f = prog.func(p + 'gsrfs')
    if f is None:
        from ..run import AnalysisBroken
        raise AnalysisBroken('%sgsrfs not found' % p)
    chk.saw(unit=f.unit, func=f.unit + ':' + f.name)
    E = prog.enums
    fl = Flags(prog, f, p)
    fl.enum('trans', '$1', ['NOTRANS', 'TRANS', 'CONJ'])
    fl.matrix('A', ['SLU_NC'], 'SLU_GE')
    fl.matrix('L', ['SLU_SC'], 'SLU_TRLU')
    fl.matrix('U', ['SLU_NC'], 'SLU_TRU')
    fl.dense('B', ncols=(2,), lda=1013)
    fl.dense('X', ncols=(2,), lda=1217)
    fl.add('equed', '*$%d' % ppos(f, 'equed'), [ord(c) for c in 'NRCB'], list('NRCB'))
    fl.add('kase', None, [0, 1, 2], ['0(done)', '1', '2'])
    lacon = {'s': 'slacon2_', 'd': 'dlacon2_', 'c': 'clacon2_', 'z': 'zlacon2_'}[p]

    def after_lacon(eng, call, vals, env):
        set_through(env, vals[len(vals) - 2], 'kase')
    gemv, gstrs, axpy = 'sp_' + p + 'gemv', p + 'gstrs', p + 'axpy_'
    eng = r3.Engine(prog, f, fl.flags, havoc=[(lambda n: n == lacon, after_lacon)], callees=lambda n: n in (gemv, gstrs, axpy, lacon), eff=eff)
    leaves = eng.run()
    ex = Expect(chk, cid, f, fl, cfgname)
    kA, kL, kU, kpc, kpr = (ppos(f, x) for x in ('A', 'L', 'U', 'perm_c', 'perm_r'))
    Rp, Cp = '$%d' % ppos(f, 'R'), '$%d' % ppos(f, 'C')
    for lf in leaves:
        v = lf.val
        t = v['trans']
        sel = ['trans']
        gm = lf.calls(gemv)
        want_letter = {E['NOTRANS']: 'N', E['TRANS']: 'T', E['CONJ']: 'C'}[t]
        ok = len(gm) == 1 and gm[0]['args'][0] == ord(want_letter) and gm[0]['args'][2] == ('p', kA)
        alpha_beta = len(gm) == 1 and _num(gm[0]['args'][1], p) == -1.0 and _num(gm[0]['args'][5], p) == 1.0
        ex.check(lf, ok, 'residual-uses-op(A)', sel, 'the residual B - op(A) X must be formed with sp_%sgemv("%s", -1, A, X, 1, 1, work, 1); got flag %s'
                 % (p, want_letter, _chr(gm[0]['args'][0]) if gm else 'no call'), gm[0]['line'] if gm else None)
        if len(gm) == 1:
            ex.check(lf, alpha_beta or _num(gm[0]['args'][1], p) is None, 'residual-alpha-beta', [], 'the residual needs alpha = -1, beta = 1', gm[0]['line'])
        so = lf.calls(gstrs)
        la = lf.calls(lacon)
        if not la:
            continue
        # estimator solves are dominated by the ?lacon2 call; the correction solve is reachable without it
        est = [e for e in so if lf.must_precede([la[0]['node']], e['node'])]
        corr = [e for e in so if e not in est]
        ok = len(corr) == 1 and corr[0]['args'][0] == t and corr[0]['args'][1:5] == [('p', kL), ('p', kU), ('p', kpc), ('p', kpr)]
        ex.check(lf, ok, 'correction-solve', sel, 'the correction must be solved with the same trans as the system (and L, U, perm_c, perm_r)', (corr or so or gm)[0]['line'] if (corr or so or gm) else None)
        k = v.get('kase')
        if k in (1, 2):
            transt = E['TRANS'] if t == E['NOTRANS'] else E['NOTRANS']
            want = transt if k == 1 else t
            ok = len(est) == 1 and est[0]['args'][0] == want and est[0]['args'][1:5] == [('p', kL), ('p', kU), ('p', kpc), ('p', kpr)]
            ex.check(lf, ok, 'estimator-solve', ['trans', 'kase'],
                     'error-bound estimator, kase = %d: the solve must use the %s sense (trans value %s); got %s'
                     % (k, 'opposite' if k == 1 else 'same', want, [e['args'][0] for e in est]), est[0]['line'] if est else la[0]['line'])
            # scaling of work by C (no-transpose, column-equilibrated) or R (transpose, row-equilibrated) around the estimator solve
            eq = chr(v['equed']) if 'equed' in v else None
            if eq is not None and len(est) == 1:
                nt = t == E['NOTRANS']
                wantf = Cp if (nt and eq in 'CB') else (Rp if ((not nt) and eq in 'RB') else None)
                sc = [e for e in lf.stores() if (Rp in e['rhs_reads'] or Cp in e['rhs_reads']) and e['inloop']]
                near = [e for e in sc if (lf.can_reach(e['node'], est[0]['node']) if k == 1 else lf.can_reach(est[0]['node'], e['node']))
                        and lf.can_reach(la[0]['node'], e['node'])]
                used = set()
                for e in near:
                    used |= e['rhs_reads'] & {Rp, Cp}
                ex.check(lf, used == ({wantf} if wantf else set()), 'estimator-scaling', ['trans', 'equed', 'kase'],
                         'the estimator works in the original variables: work must be scaled by %s %s the solve; the code uses %s'
                         % ({Rp: 'R', Cp: 'C', None: 'nothing'}[wantf], 'before' if k == 1 else 'after', sorted({Rp: 'R', Cp: 'C'}[u] for u in used) or 'nothing'),
                         (near or est)[0]['line'])
    return len(leaves)


def _chr(v):
    return chr(v) if isinstance(v, int) and 32 <= v < 127 else str(v)


def _num(v, p):
    if isinstance(v, (int, float)):
        return float(v)
    return None


def stopping_rule(chk, cid, prog, p, cfgname):
    """the update branch is guarded by count < 5; count starts at 0 per right-hand side and is incremented once per update;
    BERR is recomputed after every update (every path from the update to the loop exit passes through the store to berr[j])"""
    f = prog.func(p + 'gsrfs')
    cfg = prog.cfg(f)
    gstrs, axpy = p + 'gstrs', p + 'axpy_'
    berr = f.params[ppos(f, 'berr') - 1][1]
    n = 0
    # the update If: then-branch contains the axpy into X
    upd = None
    for x in f.body.walk():
        if x.k == 'If' and any(y.k == 'Call' and callee_name(y) == axpy for y in x.c[1].walk()) and \
                any(y.k == 'Call' and callee_name(y) == gstrs for y in x.c[1].walk()):
            upd = x
    n += 1
    if upd is None:
        chk.violate(cid, '%s:update-branch' % f.name, loc(f, f.body), f.name, 'cannot find the refinement update (solve + axpy) under a stopping test', cfgname=cfgname)
        return n
    atoms = r2.dnf(upd.c[0])
    cnt = None
    itmax = None
    if len(atoms) == 1:
        for (a, pol) in atoms[0]:
            a = strip(a)
            if pol and a.k == 'Binary' and a.a['op'] == '<' and strip(a.c[0]).k == 'Ref' and const_value(a.c[1]) is not None:
                cnt = strip(a.c[0]).a['id']
                itmax = const_value(a.c[1])
    if cnt is None or itmax != 5:
        chk.violate(cid, '%s:at-most-five-steps' % f.name, loc(f, upd), f.name,
                    'the update must be guarded by `count < ITMAX` with ITMAX = 5 (guard is `%s`)' % pretty(upd.c[0])[:120], cfgname=cfgname)
    else:
        chk.ok(cid, '%s:at-most-five-steps' % f.name, sample=pretty(upd.c[0])[:100])
    if cnt is not None:
        n += 1
        incs = [x for x in f.body.walk() if ((x.k == 'Unary' and x.a['op'] == '++') or (x.k == 'Assign' and x.a['op'] == '+=')) and strip(x.c[0]).k == 'Ref'
                and strip(x.c[0]).a.get('id') == cnt]
        in_upd = [x for x in upd.c[1].walk() if any(x is y for y in incs)]
        zero = [x for x in f.body.walk() if x.k == 'Assign' and x.a['op'] == '=' and strip(x.c[0]).k == 'Ref' and strip(x.c[0]).a.get('id') == cnt and const_value(x.c[1]) == 0]
        if len(incs) == 1 and len(in_upd) == 1 and len(zero) == 1:
            chk.ok(cid, '%s:count-discipline' % f.name)
        else:
            chk.violate(cid, '%s:count-discipline' % f.name, loc(f, upd), f.name,
                        'count must be reset to 0 for each right-hand side and incremented exactly once per update (resets %d, increments %d, in update %d)'
                        % (len(zero), len(incs), len(in_upd)), cfgname=cfgname)
    # BERR recomputed after every update
    n += 1
    node_of = {}
    for cn in cfg.nodes:
        if cn.ast is not None and cn.kind in ('stmt', 'cond', 'return', 'switch', 'abort'):
            for x in cn.ast.walk():
                node_of.setdefault(id(x), cn.id)
    ax = [node_of.get(id(y)) for y in upd.c[1].walk() if y.k == 'Call' and callee_name(y) == axpy]
    bst = {node_of.get(id(x)) for x in f.body.walk() if x.k == 'Assign' and strip(x.c[0]).k == 'Index' and root_ref(x.c[0]) is not None
           and root_ref(x.c[0]).a.get('id') == berr}
    ok = bool(ax) and bool(bst)
    if ok:
        seen = set()
        st = [ax[0]]
        while st:
            k = st.pop()
            if k in seen or (k in bst and k != ax[0]):
                continue
            seen.add(k)
            if k == cfg.exit.id:
                ok = False
                break
            st.extend(s for (s, _) in cfg.nodes[k].succ)
    if ok:
        chk.ok(cid, '%s:berr-recomputed-after-update' % f.name)
    else:
        chk.violate(cid, '%s:berr-recomputed-after-update' % f.name, loc(f, upd), f.name,
                    'after the solution is updated the residual and BERR must be recomputed before the loop can exit: there is a path from the update to the '
                    'function exit that does not store berr[j] (BERR would describe the previous iterate)', cfgname=cfgname)
    return n


def _zero(e):
    e = strip(e)
    if e.k == 'Float':
        return 0 if e.a['value'] == 0.0 else None
    v = const_value(e)
    return 0 if v == 0 else None


def _addends(e):
    e = strip(e)
    if e.k == 'Binary' and e.a['op'] == '+':
        return _addends(e.c[0]) + _addends(e.c[1])
    return [e]


def guarded_division(chk, cid, prog, p, cfgname):
    """BERR is a maximum of ratios |r_i| / (|op(A)||x| + |b|)_i.  A denominator that is exactly zero means the true residual is zero too and the
    entry must be skipped: every division by an element of the denominator array must sit under a test that excludes zero for that very element
    (`d > e` or `d != 0` on the true side, `d == 0` / `d <= 0`-style tests on the false side do not count unless they are exact)."""
    f = prog.func(p + 'gsrfs')
    berr = f.params[ppos(f, 'berr') - 1][1]
    from ..facts import canon
    n = [0]
    sym = [0]

    def excludes_zero(cond, d, positive):
        for conj in r2.dnf(cond, positive):
            ok = False
            for (a, pol) in conj:
                a = strip(a)
                if a.k != 'Binary':
                    continue
                op, l, r = a.a['op'], canon(a.c[0]), canon(a.c[1])
                lz, rz = _zero(a.c[0]), _zero(a.c[1])
                if pol and ((op in ('>',) and l == d) or (op == '<' and r == d)):
                    ok = True        # d > something non-negative (safe2 >= 0 by construction) - accepted idiom of the routine
                if pol and op == '!=' and ((l == d and rz == 0) or (r == d and lz == 0)):
                    ok = True
                if (not pol) and op == '==' and ((l == d and rz == 0) or (r == d and lz == 0)):
                    ok = True
            if not ok:
                return False
        return True

    def walk(x, guards):
        if x.k == 'If':
            walk(x.c[0], guards)
            walk(x.c[1], guards + [(x.c[0], True)])
            if len(x.c) > 2:
                walk(x.c[2], guards + [(x.c[0], False)])
            return
        if x.k == 'Cond':
            walk(x.c[0], guards)
            walk(x.c[1], guards + [(x.c[0], True)])
            walk(x.c[2], guards + [(x.c[0], False)])
            return
        if x.k == 'Binary' and x.a['op'] == '/':
            dv = strip(x.c[1])
            nterms, dterms = _addends(x.c[0]), _addends(x.c[1])
            dref = [t for t in dterms if strip(t).k == 'Index' and root_ref(t) is not None and root_ref(t).a.get('name') == 'rwork']
            if dref:
                # guard-term symmetry: a scalar added to the residual in the numerator must be added to the denominator as well, else the
                # ratio is unbounded (safe1 / rwork[i]) instead of at most one
                nsc = sorted(canon(t, ids=False) for t in nterms if strip(t).k == 'Ref')
                dsc = sorted(canon(t, ids=False) for t in dterms if strip(t).k == 'Ref')
                sym[0] += 1
                key = '%s:guard-term-symmetric@%d' % (f.name, sym[0])
                if nsc == dsc:
                    chk.ok(cid, key, sample=pretty(x)[:90], nontrivial=bool(nsc))
                else:
                    chk.violate(cid, key, loc(f, x), f.name,
                                'the backward-error ratio `%s` adds %s to the numerator but %s to the denominator: with a denominator below the '
                                'guard threshold the ratio is about guard/denominator, so BERR exceeds one (a componentwise relative backward '
                                'error never does) for a solution that may be exact' % (pretty(x)[:90], nsc or 'nothing', dsc or 'nothing'),
                                cfgname=cfgname)
            if dref:
                # a row whose |op(A)||x|+|b| is exactly zero has an exactly zero residual and must not contribute: with the guard term in the
                # denominator the ratio would be safe1/safe1 = 1 instead of a division by zero, which is just as wrong for BERR
                dv = strip(dref[0])
                n[0] += 1
                d = canon(dv)
                key = '%s:denominator-nonzero@%d' % (f.name, n[0])
                if any(excludes_zero(c, d, pos) for (c, pos) in guards):
                    chk.ok(cid, key, sample=pretty(x)[:80])
                else:
                    chk.violate(cid, key, loc(f, x), f.name,
                                'division by %s without a test that excludes an exactly-zero denominator on this path: BERR becomes inf/NaN for a row '
                                'whose |op(A)||x|+|b| is zero' % pretty(dv), cfgname=cfgname)
        for c in x.c:
            walk(c, guards)
    walk(f.body, [])
    if n[0] < 2:
        from ..run import AnalysisBroken
        raise AnalysisBroken('%s: %d divisions by rwork[] found, expected >= 2' % (f.name, n[0]))
    return n[0]


def accumulator_init_rule(chk, cid, prog, p, cfgname):
    """The BERR denominator |op(A)||x| + |b| is built in rwork[] inside the refinement loop: set to |b|, then the products are added.  Because the loop
    runs once per iterate, the initialising store (one whose right-hand side does not read rwork[]) must be inside the `while (1)` loop and come
    before the accumulating stores; hoisting it makes every later BERR use the sum over all iterates."""
    f = prog.func(p + 'gsrfs')
    n = 0
    loops = [x for x in f.body.walk() if x.k == 'While' and const_value(x.c[0]) == 1]
    inst = '%s:denominator-reinitialised-per-iterate' % f.name
    if len(loops) != 1:
        chk.violate(cid, inst, loc(f, f.body), f.name, 'cannot find the single `while (1)` refinement loop (found %d)' % len(loops), cfgname=cfgname)
        return 1
    lp = loops[0]

    def stores(root):
        out = []
        for x in root.walk():
            if x.k == 'Assign' and strip(x.c[0]).k == 'Index' and root_ref(x.c[0]) is not None and root_ref(x.c[0]).a.get('name') == 'rwork':
                reads_self = x.a['op'] != '=' or any(y.k == 'Ref' and y.a.get('name') == 'rwork' for y in x.c[1].walk())
                out.append((x, reads_self))
        return out
    inside = stores(lp.c[1])
    init_in = [x for (x, rs) in inside if not rs]
    acc_in = [x for (x, rs) in inside if rs]
    # the error-bound part after the loop re-uses rwork for a different purpose; only the part up to the berr store matters
    berr_line = min([x.line for x in lp.c[1].walk() if x.k == 'Assign' and strip(x.c[0]).k == 'Index' and root_ref(x.c[0]) is not None
                     and root_ref(x.c[0]).a.get('name') == 'berr'] or [10 ** 9])
    init_in = [x for x in init_in if x.line <= berr_line]
    acc_in = [x for x in acc_in if x.line <= berr_line]
    n += 1
    if init_in and acc_in and min(x.line for x in init_in) < min(x.line for x in acc_in):
        chk.ok(cid, inst, sample='%s ... then %d accumulating store(s)' % (pretty(init_in[0])[:50], len(acc_in)))
    else:
        chk.violate(cid, inst, loc(f, (acc_in or [lp])[0]), f.name,
                    'inside the refinement loop rwork[] must be set to |b| (a store that does not read rwork[]) before |op(A)||x| is added to it; found %d '
                    'initialising and %d accumulating store(s) before the BERR store: without the reset the denominator grows with every iterate and BERR is '
                    'under-reported' % (len(init_in), len(acc_in)), cfgname=cfgname)
    return n


def matvec_pairing_rule(chk, cid, prog, fnames, cfgname, floor=8):
    """Sum over the stored entries of column k of a compressed-column matrix: `for (i = colptr[k]; i < colptr[k+1]; ++i)`; entry i sits in row
    rowind[i].  Whatever is accumulated - A*x, A'*x, |A||x|, |A'||x| - pairs each entry with one vector element and one target element, and
    the two subscripts are the column index k and the row index rowind[i], one each (which is which selects op(A)).  Using the same one
    twice (y[k] += |a| * x[k]) is neither A nor A': it is diag-like garbage that still has the right magnitude on easy inputs."""
    from ..facts import canon
    chk.clause(cid, 'a sum over the entries of a stored column pairs the column index with the row index (one for the vector, one for the target)')
    n = 0
    for fname in fnames:
        f = prog.func(fname)
        if f is None:
            from ..run import AnalysisBroken
            raise AnalysisBroken('%s not found' % fname)
        chk.saw(unit=f.unit, func=f.unit + ':' + f.name)
        for blk in f.body.walk():
            if blk.k != 'Block':
                continue
            for bi, lp in enumerate(blk.c):
                if lp.k != 'For' or lp.c[0] is None or lp.c[1] is None:
                    continue
                init, cond = strip(lp.c[0]), strip(lp.c[1])
                if init.k != 'Assign' or strip(init.c[0]).k != 'Ref' or cond.k != 'Binary' or cond.a['op'] != '<':
                    continue
                ivar = strip(init.c[0]).a.get('id')
                lo, hi = strip(init.c[1]), strip(cond.c[1])
                if lo.k != 'Index' or hi.k != 'Index' or 'colptr' not in canon(lo.c[0], ids=False) or strip(lo.c[1]).k != 'Ref':
                    continue
                kvar = strip(lo.c[1]).a.get('id')
                kname = strip(lo.c[1]).a.get('name')
                body = lp.c[3]
                rowvars = set()
                for x in body.walk():
                    if x.k == 'Assign' and x.a['op'] == '=' and strip(x.c[0]).k == 'Ref' and strip(x.c[1]).k == 'Index' \
                            and 'rowind' in canon(strip(x.c[1]).c[0], ids=False):
                        rowvars.add(strip(x.c[0]).a.get('id'))

                def kind(sub):
                    sub = strip(sub)
                    if sub.k == 'Ref':
                        if sub.a.get('id') == kvar:
                            return 'col'
                        if sub.a.get('id') in rowvars:
                            return 'row'
                    if sub.k == 'Index' and 'rowind' in canon(sub.c[0], ids=False):
                        return 'row'
                    return None

                def vec_kind(e):
                    """kind of the vector element inside e (|x[..]|, x[..], a scalar that was loaded from x[k] just before the loop)"""
                    for y in e.walk():
                        if y.k == 'Index' and strip(y.c[1]).k == 'Ref' and strip(y.c[1]).a.get('id') == ivar:
                            return 'entry'
                    for y in e.walk():
                        if y.k == 'Index':
                            kd = kind(y.c[1])
                            if kd:
                                return kd
                    for y in e.walk():
                        if y.k == 'Ref' and y.a.get('dk') == 'VarDecl':
                            for prev in reversed(blk.c[:bi]):
                                p0 = strip(prev)
                                if p0.k == 'Assign' and strip(p0.c[0]).k == 'Ref' and strip(p0.c[0]).a.get('id') == y.a.get('id'):
                                    for z in p0.c[1].walk():
                                        if z.k == 'Index' and kind(z.c[1]):
                                            return kind(z.c[1])
                                    break
                    return None
                for asg in body.walk():
                    if asg.k != 'Assign' or asg.a['op'] not in ('+=', '-='):
                        continue
                    prods = [y for y in asg.c[1].walk() if y.k == 'Binary' and y.a['op'] == '*']
                    q = None
                    for pr in prods:
                        ka, kb = vec_kind(pr.c[0]), vec_kind(pr.c[1])
                        if ka == 'entry' and kb in ('row', 'col'):
                            q = kb
                        elif kb == 'entry' and ka in ('row', 'col'):
                            q = ka
                    if q is None:
                        continue
                    lhs = strip(asg.c[0])
                    r = None
                    tgt = asg
                    if lhs.k == 'Index':
                        r = kind(lhs.c[1])
                    elif lhs.k == 'Ref':
                        for later in blk.c[bi + 1:]:
                            l0 = strip(later)
                            if l0.k == 'Assign' and strip(l0.c[0]).k == 'Index' and any(y.k == 'Ref' and y.a.get('id') == lhs.a.get('id') for y in l0.c[1].walk()):
                                r = kind(strip(l0.c[0]).c[1])
                                tgt = l0
                                break
                    if r is None:
                        continue
                    n += 1
                    inst = '%s:column-sum-pairs-row-with-column@%d' % (fname, n)
                    if {q, r} == {'row', 'col'}:
                        chk.ok(cid, inst, sample='vector element by %s index, target `%s` by %s index' % (q, pretty(tgt)[:40], r))
                    else:
                        chk.violate(cid, inst, loc(f, asg), fname,
                                    'the sum over the entries of column %s multiplies each entry by a vector element taken at the %s index and adds the result '
                                    'to a target element at the %s index as well (`%s` ... `%s`): that is neither op(A) = A nor its transpose; the entry in row '
                                    'rowind[i] must meet the other index' % (kname, q, r, pretty(asg)[:60], pretty(tgt)[:40]), cfgname=cfgname)
    if n < floor:
        from ..run import AnalysisBroken
        raise AnalysisBroken('%s: %d column sums found, floor %d' % (cid, n, floor))
    return n
