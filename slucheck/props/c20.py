"""C20 Fortran-callable bridge: factor once, solve many, free all  —  R3 oracle per iopt, R10 (caller arrays untouched), ledger iopt 1 <-> 3, R4, R1, R9."""
from ..facts import Program, strip, const_value
from ..run import Check, AnalysisBroken
from ..rules import r3_dispatch as r3, r9_sibling, r10, r1_state, kernels
from ..rules.effects import PathEffects
from . import _drv, c19
from ._drv import Flags, Expect, ppos, DT


def bridge_oracle(chk, cid, prog, eff, p, cfgname):
    f = prog.func('c_fortran_%sgssv_' % p)
    if f is None:
        raise AnalysisBroken('c_fortran_%sgssv_ not found' % p)
    chk.saw(unit=f.unit, func=f.unit + ':' + f.name)
    E = prog.enums
    k = {nm: ppos(f, nm) for nm in ('iopt', 'n', 'nnz', 'nrhs', 'values', 'rowind', 'colptr', 'b', 'ldb', 'f_factors', 'info')}
    fl = Flags(prog, f, p)
    fl.add('iopt', '*$%d' % k['iopt'], [1, 2, 3])
    fl.add('n', '*$%d' % k['n'], [1009])
    fl.add('nnz', '*$%d' % k['nnz'], [2003])
    fl.add('nrhs', '*$%d' % k['nrhs'], [3])
    fl.add('ldb', '*$%d' % k['ldb'], [1217])
    fl.add('info', None, [0, 5], ['0', 'singular'])
    names = {'get_perm_c', 'sp_preorder', p + 'gstrf', p + 'gstrs', p + 'Create_CompCol_Matrix', p + 'Create_Dense_Matrix', 'superlu_free',
             'Destroy_SuperNode_Matrix', 'Destroy_CompCol_Matrix', 'Destroy_SuperMatrix_Store', 'Destroy_CompCol_Permuted', 'set_default_options', 'StatInit', 'StatFree'}
    eng = r3.Engine(prog, f, fl.flags, havoc=[(lambda n: n == p + 'gstrf', _drv.havoc_last_arg('info'))], callees=lambda n: n in names, eff=eff)
    leaves = eng.run()
    ex = Expect(chk, cid, f, fl, cfgname)
    H = '*$%d' % k['f_factors']
    for lf in leaves:
        v = dict({'n': 1009, 'nnz': 2003, 'nrhs': 3, 'ldb': 1217}, **lf.val)     # single-valued flags that this path never read
        io = v['iopt']
        sel = ['iopt']
        st = lf.stores()
        cw = [e for e in st if e['base'] in ('$%d' % k['values'], '$%d' % k['rowind'], '$%d' % k['colptr'])]
        ex.check(lf, not cw, 'caller-matrix-untouched', sel, 'the caller\'s 1-based values / rowind / colptr must never be written', cw[0]['line'] if cw else None)
        fac, sol = lf.calls(p + 'gstrf'), lf.calls(p + 'gstrs')
        if io == 1:
            cre = lf.calls(p + 'Create_CompCol_Matrix')
            if not ex.check(lf, len(cre) == 1 and len(fac) == 1 and not sol, 'factor-request', sel, 'iopt = 1: build A, factor once, no solve'):
                continue
            a = cre[0]['args']
            # 0-based private copies
            cp = {}
            for e in st:
                if e['base'].startswith('fresh') and e['rhs'] is not None:
                    for src, nm in (('$%d' % k['rowind'], 'rowind'), ('$%d' % k['colptr'], 'colptr')):
                        if src in e['rhs_reads']:
                            r = strip(e['rhs'])
                            minus1 = r.k == 'Binary' and r.a['op'] == '-' and const_value(r.c[1]) == 1
                            d, b, op, bx = e['loops'][-1] if e['loops'] else (None, None, None, None)
                            cnt = b + (1 if op == '<=' else 0) if isinstance(b, int) else None
                            cp[nm] = (e['base'], minus1, cnt)
            ok = set(cp) == {'rowind', 'colptr'} and cp['rowind'][1] and cp['colptr'][1] and cp['rowind'][2] == v['nnz'] and cp['colptr'][2] == v['n'] + 1
            ex.check(lf, ok, 'zero-based-copies', sel, 'the 1-based index arrays must be copied to private arrays as value - 1 over all nnz / n+1 entries (found %s)' % cp, cre[0]['line'])
            if ok:
                okm = a[1] == v['n'] and a[2] == v['n'] and a[3] == v['nnz'] and a[4] == ('p', k['values']) and r3.ptr_desc(a[5]) == cp['rowind'][0] \
                    and r3.ptr_desc(a[6]) == cp['colptr'][0] and a[7] == E['SLU_NC'] and a[8] == E[DT[p]] and a[9] == E['SLU_GE']
                ex.check(lf, okm, 'matrix-built-from-copies', sel, 'A must be (n x n, nnz, values, rowind0, colptr0, SLU_NC, %s, SLU_GE)' % DT[p], cre[0]['line'])
            gp, pre = lf.calls('get_perm_c'), lf.calls('sp_preorder')
            g = fac[0]['args']
            ok = len(gp) == 1 and len(pre) == 1 and gp[0]['args'][1] == cre[0]['args'][0] and pre[0]['args'][1] == cre[0]['args'][0] \
                and gp[0]['args'][2] == pre[0]['args'][2] == g[7] and pre[0]['args'][4] == g[1] and pre[0]['args'][3] == g[4] and g[5] == 0 and g[6] == 0 \
                and lf.must_precede([gp[0]['node']], pre[0]['node']) and lf.must_precede([pre[0]['node']], fac[0]['node'])
            ex.check(lf, ok, 'same-phases-as-simple-driver', sel, 'iopt = 1 must order (get_perm_c), pre-order (sp_preorder) and factor (%sgstrf, malloc storage) the matrix built above, in this order' % p,
                     fac[0]['line'])
            # handle
            hs = [e for e in st if e['target'] == H]
            flds = {e['target'].split('->')[-1]: e['value'] for e in st if e['base'].startswith('fresh') and '->' in e['target']}
            ok = len(hs) == 1 and r3.ptr_desc(hs[0]['value']) is not None and flds.get('L') == g[9] and flds.get('U') == g[10] and flds.get('perm_c') == g[7] and flds.get('perm_r') == g[8]
            ex.check(lf, ok, 'handle-holds-factors', sel, 'the handle stored in *f_factors must hold exactly the L, U, perm_c, perm_r that were factored', (hs or fac)[0]['line'])
        elif io == 2:
            den = lf.calls(p + 'Create_Dense_Matrix')
            if not ex.check(lf, len(sol) == 1 and len(den) == 1 and not fac, 'solve-request', sel, 'iopt = 2: one dense wrap of b and one %sgstrs, no factorization' % p):
                continue
            d = den[0]['args']
            ok = d[1] == v['n'] and d[2] == v['nrhs'] and d[3] == ('p', k['b']) and d[4] == v['ldb']
            ex.check(lf, ok, 'rhs-wrapped-with-ldb', sel, 'B must be the caller\'s b as an n x nrhs matrix with leading dimension *ldb (got n=%s nrhs=%s lda=%s)' % (d[1], d[2], d[4]), den[0]['line'])
            s = sol[0]['args']
            want = [E['NOTRANS'], ('path', H + '->L'), ('path', H + '->U'), ('path', H + '->perm_c'), ('path', H + '->perm_r'), den[0]['args'][0]]
            ex.check(lf, s[:6] == want, 'solve-from-handle', sel, '%sgstrs(NOTRANS, L, U, perm_c, perm_r, &B) with the four objects read back from the handle' % p, sol[0]['line'])
        elif io == 3:
            fr = lf.calls('superlu_free')
            freed = {r3.ptr_desc(e['args'][0]) for e in fr}
            dl, du = lf.calls('Destroy_SuperNode_Matrix'), lf.calls('Destroy_CompCol_Matrix')
            want = {H + '->perm_r', H + '->perm_c', H + '->L', H + '->U', H}
            ok = want <= freed and len(dl) == 1 and dl[0]['args'][0] == ('path', H + '->L') and len(du) == 1 and du[0]['args'][0] == ('path', H + '->U')
            ex.check(lf, ok, 'free-releases-the-handle', sel, 'iopt = 3 must release perm_r, perm_c, the contents of L and U (Destroy_SuperNode_Matrix / Destroy_CompCol_Matrix), L, U and the '
                     'handle itself; missing: %s' % sorted(want - freed), (fr or [{'line': None}])[0]['line'])
            if ok:
                hfree = [e for e in fr if r3.ptr_desc(e['args'][0]) == H][0]
                early = [e for e in fr + dl + du if e is not hfree and lf.can_reach(hfree['node'], e['node'])]
                ex.check(lf, not early, 'handle-freed-last', sel, 'the handle must be released after everything it points to', hfree['line'])
    return len(leaves)


def run(tier):
    chk = Check('C20', tier, level='other')
    chk.explanation = (
        'R3 on c_fortran_?gssv_ (4 types) per request: iopt = 1 copies the 1-based index arrays as value-1 over all nnz / n+1 entries, builds '
        'A from the caller\'s values and the copies, runs get_perm_c, sp_preorder, ?gstrf (malloc storage) on it in order, and parks exactly '
        'the factored L, U, perm_c, perm_r in a fresh handle; iopt = 2 wraps b with leading dimension *ldb and calls ?gstrs(NOTRANS, ...) '
        'with the four objects read back from the handle; iopt = 3 releases perm_r, perm_c, the contents of L and U through their '
        'destroyers, L, U and finally the handle. No request writes values / rowind / colptr (also as a sound may-write set, R10). R4: every '
        'temporary of each branch is released; R1: no file-scope state, so handles cannot interfere; R9: four bridges agree. Not decided: '
        'numerical equality with the C driver.')
    cfgs = ['tested'] if tier == 'quick' else ['tested', 'idx64']
    chk.configs = cfgs
    for cfgname in cfgs:
        prog = Program.load(which=('SRC', 'FORTRAN'), cfg=cfgname)
        eff = PathEffects(prog)
        chk.clause('C20.D1', 'R3 oracle of the bridge per request')
        chk.clause('C20.D2', 'R10 caller arrays never written')
        kernels.run_factor(chk, 'C20.kern', prog, cfgname)
        from ..rules import r12_supernodal as _r12
        chk.clause('C20.kern.index', 'abstract interpretation of the supernodal update kernels in a polynomial index domain: every access to the supernode block is the entry the algebra needs')
        for _p in 'ds':
            _r12.run(chk, 'C20.kern.index', prog, _p, cfgname)
            _r12.run_snode(chk, 'C20.kern.index', prog, _p, cfgname)
        kernels.leading_dimension_agreement(chk, 'C20.ld', prog, [q + 'gstrs' for q in 'sdcz'], cfgname, floor=4)
        from ..rules import expand as _expand
        chk.clause('C20.kern.copy', 'growth of factor storage carries the old contents over')
        _expand.copy_helper_rule(chk, 'C20.kern.copy', prog, cfgname)
        # the bridge always orders with COLAMD and post-orders: the perm_c it stores in the handle must be post o perm_c
        from ..rules import preorder as _pre
        chk.clause('C20.preorder', 'R3 oracle of sp_preorder (the handle keeps its perm_c)')
        _pre.run(chk, 'C20.preorder', prog, eff, cfgname)
        from ..rules import r4_path
        r4_path.run(chk, 'C20.D3.path', prog, cfgname, units_prefix=('FORTRAN/',))
        n = 0
        for p in _drv.PRECS:
            n += bridge_oracle(chk, 'C20.D1', prog, eff, p, cfgname)
            r10.maywrite(chk, 'C20.D2', prog, eff, 'c_fortran_%sgssv_' % p, {'b': ['[]'], 'f_factors': [''], 'info': ['[]']}, cfgname)
        if n < 4 * 4:
            raise AnalysisBroken('C20: %d leaves, floor 16' % n)
        fnames = {f.name for f in prog.all_funcs() if f.unit.startswith('FORTRAN/')}
        c19.run_r4(chk, prog, cfgname, funcs=fnames, cid='C20.D3')
        from ..rules import ledger
        ledger.run(chk, prog, 'C20.ledger', cfgname)
        # D4: no static storage in the bridge units
        sub = Program([u for u in prog.units if u.rel.startswith('FORTRAN/')])
        probe = Check('C20', tier)
        cen = r1_state.run(probe, sub, fixture=True)
        cl = chk.clause('C20.D4', 'no file-scope state in the bridge')
        if cen['mutable']:
            for o in cen['mutable']:
                chk.violate('C20.D4', '%s:%s' % (o['unit'], o['name']), '%s:%s' % (o['unit'], o.get('line', 0)), '-', 'static-storage object `%s` in the bridge: handles of different matrices would share it' % o['name'], cfgname=cfgname)
        else:
            chk.ok('C20.D4', 'bridge-units', sample='%d static-storage objects' % cen['objects'])
        if cfgname == 'tested':
            r9_sibling.run(chk, prog, 'C20.D5', {'c_fortran_dgssv.c', 'c_fortran_zgssv.c'}, cfgname)
    return chk.finish()
