#!/usr/bin/env python3
"""Run the claimed checks against every seeded change (scratch copy per seed, never /repo) and print the detection matrix.
   tools/seedmatrix.py [--props C09,C18] [--seeds C05-1,C09-2] [--json out.json]"""
import sys, os, json, glob, subprocess, shutil, tempfile
from concurrent.futures import ThreadPoolExecutor
VERIF = os.path.dirname(os.path.dirname(os.path.abspath(__file__)))


def one(seed, props):
    d = tempfile.mkdtemp(prefix='slu_seed_')
    try:
        for sub in ('SRC', 'CBLAS', 'FORTRAN', 'EXAMPLE'):
            shutil.copytree(os.path.join(os.environ.get('SLU_SEED_BASE', '/repo'), sub), os.path.join(d, sub))
        r = subprocess.run(['patch', '-p1', '-s', '-d', d, '-i', os.path.join(VERIF, 'seeded', seed, 'patch.diff')], stdout=subprocess.PIPE, stderr=subprocess.STDOUT)
        if r.returncode != 0:
            return seed, {'_patch': r.stdout.decode()[-300:]}
        env = dict(os.environ, SLU_REPO=d, SLU_EVIDENCE_DIR=os.path.join(d, '_ev'), SLU_REPORTS_DIR=os.path.join(d, '_rep'))
        out = {}
        for p in props:
            r = subprocess.run([os.path.join(VERIF, 'check'), p], env=env, stdout=subprocess.PIPE, stderr=subprocess.STDOUT, cwd=VERIF)
            txt = r.stdout.decode()
            first = [l for l in txt.split('\n') if (': %s: ' % p) in l][:1]
            out[p] = (r.returncode, first[0][:260].replace(d, '') if first else ('' if r.returncode in (0, 1) else txt[-300:]))
        return seed, out
    finally:
        shutil.rmtree(d, ignore_errors=True)


def main():
    a = sys.argv[1:]
    man = json.load(open(os.path.join(VERIF, 'MANIFEST.json')))
    props = [c['property_id'] for c in man['checks']]
    seeds = sorted(os.path.basename(os.path.dirname(p)) for p in glob.glob(os.path.join(VERIF, 'seeded', '*', 'patch.diff')))
    js = None
    own_only = False
    merge = None
    i = 0
    while i < len(a):
        if a[i] == '--props':
            props = a[i + 1].split(','); i += 2
        elif a[i] == '--seeds':
            seeds = a[i + 1].split(','); i += 2
        elif a[i] == '--json':
            js = a[i + 1]; i += 2
        elif a[i] == '--own':
            own_only = True; i += 1
        elif a[i] == '--merge':
            merge = a[i + 1]; i += 2
        else:
            i += 1
    res = {}
    with ThreadPoolExecutor(max_workers=int(os.environ.get('SLU_SEED_JOBS', '8'))) as ex:
        for seed, out in ex.map(lambda s: one(s, [s.split('-')[0]] if own_only else props), seeds):
            res[seed] = out
            hits = [p for p, v in out.items() if isinstance(v, tuple) and v[0] == 1]
            broken = [p for p, v in out.items() if isinstance(v, tuple) and v[0] not in (0, 1)]
            own = seed.split('-')[0]
            print('%-7s own=%s detected_by=%s%s' % (seed, 'HIT ' if own in hits else ('n/a ' if own not in out else 'MISS'), ','.join(hits) or '-',
                                                   (' BROKEN=' + ','.join(broken)) if broken else ''), flush=True)
            for p in hits[:2]:
                print('        %s' % out[p][1][:230])
    if js:
        if merge and os.path.exists(merge):
            old = json.load(open(merge))
            for k, v in res.items():
                old.setdefault(k, {}).update(v)
            res = old
        json.dump(res, open(js, 'w'), indent=1)


if __name__ == '__main__':
    main()
