"""C06 Refactor / re-solve histories are as good as a fresh factorization  —  R3 phases (drivers, sp_preorder), reuse-branch twin, R10 may-write, pivot fallback, R9."""
from ..facts import Program
from ..run import Check, AnalysisBroken
from ..rules import pivot, factor_tail, r9_sibling, preorder, r10, misc, r6_wspace, r5_grow, expand
from ..rules.effects import PathEffects
from . import _drv, _gssvx, _expert

R9_UNITS = ['gssvx.c', 'gstrf.c', 'memory.c', 'pivotL.c', 'gstrs.c', 'gsrfs.c', 'gscon.c']


def run(tier):
    chk = Check('C06', tier, level='other')
    chk.explanation = (
        'Which phases run for each Fact value, decided for every flag valuation by R3: ?gssvx runs get_perm_c only for DOFACT (and not '
        'MY_PERMC), sp_preorder + ?gstrf for every Fact != FACTORED with the documented arguments, and nothing but the solve phases for '
        'FACTORED; sp_preorder recomputes and post-orders the tree only for DOFACT and never writes perm_c / etree otherwise. The '
        'SamePattern_SameRowPerm tail of ?gstrf must refresh every field of L and U that the creators bind to a count or a growable array '
        '(binding read from ?Create_SuperNode_Matrix / ?Create_CompCol_Matrix). R10: the solve-side routines (?gstrs ?gsrfs ?gscon sp_?trsv '
        '?PivotGrowth ?QuerySpace ?langs) have a may-write set that contains no path under L or U - "re-solving never alters the factors" '
        '(sound under the no-alias contract). Pivot fallback of ?pivotL (reuse abandoned -> threshold pivoting). Reuse of storage: every local mirror of a GlobalLU_t field is loaded from / stored to the field of its own name (603 sites; ?LUMemInit restores nzlmax, nzumax, nzlumax from the previous factorization this way), and the workspace stack bookkeeping (R6: used = top1 + size - top2, ?LUWorkFree returns exactly what ?LUWorkInit took) is preserved, so that a re-factorization starts from a consistent stack. R9 siblings. Not decided: '
        'accuracy of each step; that abandoned pivots still give a valid factorization.')
    cfgs = ['tested'] if tier == 'quick' else ['tested', 'cblas', 'idx64']
    chk.configs = cfgs
    for cfgname in cfgs:
        prog = Program.load(which=('SRC',), cfg=cfgname)
        eff = PathEffects(prog)
        from ..rules import spblas as _sb
        _sb.conjugate_branch_rule(chk, 'C06.conj', prog, cfgname)
        chk.clause('C06.phases', 'R3 oracle group `phases` of ?gssvx (D1)')
        chk.clause('C06.preorder', 'R3 oracle of sp_preorder (D1)')
        chk.clause('C06.D2', 'reuse branch refreshes what the creators bind')
        chk.clause('C06.D3', 'R10 solve-side routines do not write L, U')
        chk.clause('C06.D4', 'pivot fallback')
        nl = preorder.run(chk, 'C06.preorder', prog, eff, cfgname)
        n = 0
        for p in _drv.PRECS:
            f, fl, leaves = _gssvx.leaves_for(prog, eff, p, ilu=False, tier=tier, split=('Fact', 'ColPerm', 'A.Stype', 'Equil', 'info', 'lwork'))
            ctx = _expert.Ctx(prog, f, fl, p, False)
            _expert.run_leaf_groups(chk, 'C06', ctx, leaves, ('phases',), cfgname)
            n += len(leaves)
            factor_tail.run(chk, 'C06.D2', prog, p, cfgname)
            pivot.run(chk, 'C06.D4', prog, p, cfgname)
            ro = {'stat': ['->'], 'info': ['[]']}
            r10.maywrite(chk, 'C06.D3', prog, eff, p + 'gstrs', dict(ro, B=['->Store->nzval']), cfgname)
            r10.maywrite(chk, 'C06.D3', prog, eff, p + 'gsrfs', dict(ro, X=['->Store->nzval'], ferr=['[]'], berr=['[]']), cfgname)
            r10.maywrite(chk, 'C06.D3', prog, eff, p + 'gscon', dict(ro, rcond=['[]']), cfgname)
            r10.maywrite(chk, 'C06.D3', prog, eff, 'sp_' + p + 'trsv', dict(ro, x=['[]']), cfgname)
            r10.maywrite(chk, 'C06.D3', prog, eff, p + 'PivotGrowth', {}, cfgname)
            r10.maywrite(chk, 'C06.D3', prog, eff, p + 'QuerySpace', {'mem_usage': ['->']}, cfgname)
            r10.maywrite(chk, 'C06.D3', prog, eff, p + 'langs', {}, cfgname)
        misc.glu_mirror_rule(chk, 'C06.mirror', prog, cfgname, floor=500)
        chk.clause('C06.options', 'option-controlled choices of ?gstrf / ?gsitrf (relaxation routine, use of remembered pivots)')
        for _p in _drv.PRECS:
            misc.option_choice_rules(chk, 'C06.options', prog, _p, cfgname)
        if r6_wspace.run(chk, 'R6', prog, cfgname) < 32:
            raise AnalysisBroken('C06: workspace allocator routines not found')
        r5_grow.run(chk, 'R5', prog, cfgname)
        chk.clause('C06.xpand', 'structure of ?expand (storage grown during a re-factorization keeps its contents)')
        for p in _drv.PRECS:
            expand.run(chk, 'C06.xpand', prog, p, cfgname)
            expand.moved_block_extent_rule(chk, 'C06.xpand', prog, p, cfgname)
            expand.reuse_keeps_stack_rule(chk, 'C06.xpand', prog, p, cfgname)
        if n < 4 * 200 or nl < 5:
            raise AnalysisBroken('C06: %d driver leaves / %d sp_preorder leaves, floors 800 / 5' % (n, nl))
        if cfgname == 'tested':
            r9_sibling.run(chk, prog, 'C06.D5', {p + u for p in 'dz' for u in R9_UNITS}, cfgname)
        r9_sibling.run_twins(chk, prog, 'C06.twins', [('SRC/relax_snode.c', 'relax_snode', 'SRC/ilu_relax_snode.c', 'ilu_relax_snode', 'ext'),
                                                 ('SRC/heap_relax_snode.c', 'heap_relax_snode', 'SRC/ilu_heap_relax_snode.c', 'ilu_heap_relax_snode', 'ext')], cfgname)
    return chk.finish()
