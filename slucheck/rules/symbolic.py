"""Rules on the symbolic depth-first searches (?column_dfs, ilu_?column_dfs, ?panel_dfs, ilu_?panel_dfs).

The DFS routines contain the same piece of logic twice: once for a row krow met directly in A(:,j) and once for a row kchild met while
walking the structure of an earlier supernode.  In both places an unmarked row is either appended to L(:,j) (with the capacity test and
the supernode-membership test) or, when it is already pivotal, lowers the first-nonzero mark of its supernode representative.  The two
copies differ only in the names (krow/kmark/kperm/krep vs kchild/chmark/chperm/chrep).  A slip in one of them - a dropped membership
test, a comparison against the representative instead of the pivot position, a statement that slid into the braces of the capacity
test - is wrong only for rows reached through the DFS, which small test matrices with 3-column panels never produce.

Rule: the two copies are compared statement by statement with the sibling comparer (alpha-renaming, commutativity), after pairing
 * the then-branch of `if (kperm == EMPTY)` with the then-branch of `if (chperm == EMPTY)`;
 * the first statements of the two else-branches up to and including the `visited before` branch of `if (myfnz != EMPTY)`.
"""
from ..facts import strip, const_value, loc, canon
from ..ir import pretty
from ..run import AnalysisBroken
from .r9_sibling import Comparer, Mismatch


def _is_empty_test(c):
    c = strip(c)
    return c.k == 'Binary' and c.a['op'] == '==' and strip(c.c[0]).k == 'Ref' and (const_value(c.c[1]) == -1 or 'EMPTY' in str(c.c[1].mac or '') or 'EMPTY' in pretty(c.c[1]))


def _body(s):
    return s.c if s.k == 'Block' else [s]


def _candidates(f):
    """If statements `if (X == EMPTY) {append to lsub ...} else {...}` whose then-branch stores into lsub[nextl++]"""
    out = []
    for x in f.body.walk():
        if x.k == 'If' and len(x.c) > 2 and _is_empty_test(x.c[0]):
            th = x.c[1]
            if any(y.k == 'Assign' and strip(y.c[0]).k == 'Index' and strip(strip(y.c[0]).c[0]).k == 'Ref' and strip(strip(y.c[0]).c[0]).a.get('name') in ('lsub', 'panel_lsub')
                   for y in th.walk()):
                out.append(x)
    return out


def dfs_twin_rule(chk, cid, prog, fnames, cfgname, floor=None):
    chk.clause(cid, 'the two copies of the row-handling logic in a symbolic DFS (row met in A(:,j) / row met through a supernode) agree up to renaming')
    n = 0
    for fname in fnames:
        f = prog.func(fname)
        if f is None:
            raise AnalysisBroken('%s not found' % fname)
        chk.saw(unit=f.unit, func=f.unit + ':' + f.name)
        cands = _candidates(f)
        if len(cands) != 2:
            raise AnalysisBroken('%s: %d `if (perm == EMPTY) append-to-L else ...` statements found, expected the direct and the DFS copy' % (fname, len(cands)))
        a, b = sorted(cands, key=lambda s: s.line)
        pairs = [('append-branch', _body(a.c[1]), _body(b.c[1]))]
        ea, eb = _body(a.c[2]), _body(b.c[2])

        def prefix(stmts):
            out = []
            for st in stmts:
                if st.k == 'If':
                    out.append(('cond', st.c[0]))
                    out.append(('visited', _body(st.c[1])))
                    break
                out.append(('stmt', st))
            return out
        pa, pb = prefix(ea), prefix(eb)
        cmp_ = Comparer(f, f, 'sdcz', None)
        cmp_.ab, cmp_.ba = {}, {}        # no parameter pre-binding: the copies live in one function
        cmp_.trial = False               # differences in controlling expressions are recorded in cmp_.div, others raise Mismatch
        n += 1
        inst = '%s:direct-and-dfs-copy-agree' % fname
        try:
            la, lb = pairs[0][1], pairs[0][2]
            if len(la) != len(lb):
                raise Mismatch(la[min(len(la), len(lb)) - 1] if min(len(la), len(lb)) else a, lb[min(len(la), len(lb)) - 1] if min(len(la), len(lb)) else b,
                               'the append branch has %d statements in the direct copy and %d in the DFS copy' % (len(la), len(lb)))
            for x, y in zip(la, lb):
                cmp_.stmt(x, y)
            if len(pa) != len(pb):
                raise Mismatch(a.c[2], b.c[2], 'the pivotal-row branch starts with %d items in the direct copy and %d in the DFS copy' % (len(pa), len(pb)))
            for (ka, xa), (kb, xb) in zip(pa, pb):
                if ka != kb:
                    raise Mismatch(a.c[2], b.c[2], 'different statement kinds in the pivotal-row branch')
                if ka == 'stmt':
                    cmp_.stmt(xa, xb)
                elif ka == 'cond':
                    cmp_.expr(xa, xb)
                else:
                    if len(xa) != len(xb):
                        raise Mismatch(xa[0] if xa else a, xb[0] if xb else b, 'the visited-before branch differs in length')
                    for x, y in zip(xa, xb):
                        cmp_.stmt(x, y)
            if cmp_.div:
                d0 = cmp_.div[0]
                chk.violate(cid, inst, '%s:%d' % (f.unit, d0['b_line'] or b.line), fname,
                            'the handling of a row met directly in A(:,j) and of a row met through an earlier supernode differ at lines %d / %d: %s - `%s` vs `%s`. '
                            'The two copies implement the same step; the DFS copy is exercised only by rows reached through a column pivoted earlier in the panel'
                            % (d0['a_line'], d0['b_line'], d0['why'], d0['a'][:60], d0['b'][:60]), cfgname=cfgname)
            else:
                chk.ok(cid, inst, sample='copies at lines %d and %d: %d + %d statements compared' % (a.line, b.line, len(la), len(pa)))
        except Mismatch as m:
            la_ = getattr(m.a, 'line', 0) or a.line
            lb_ = getattr(m.b, 'line', 0) or b.line
            chk.violate(cid, inst, '%s:%d' % (f.unit, lb_), fname,
                        'the handling of a row met directly in A(:,j) (line %d) and of a row met through an earlier supernode (line %d) differ: %s - `%s` vs `%s`. '
                        'The two copies implement the same step; the DFS copy is exercised only by rows reached through a column pivoted earlier in the panel'
                        % (la_, lb_, m.why, pretty(m.a)[:60] if m.a is not None else '', pretty(m.b)[:60] if m.b is not None else ''), cfgname=cfgname)
    if floor and n < floor:
        raise AnalysisBroken('%s: %d DFS routines compared, floor %d' % (cid, n, floor))
    return n
