/* Positive control for rule R6.e / R6.d (expected count on the repaired tree is zero): the pre-fix retry loop of ?LUMemInit.
 * Parsed with -I<repo>/SRC, never compiled into anything.  The engine must report release-amount and null-honoured here. */
#include "slu_ddefs.h"
extern void *duser_malloc(int, int, GlobalLU_t *);
extern void duser_free(int, int, GlobalLU_t *);
extern void *dexpand(int_t *, MemType, int_t, int, GlobalLU_t *);

int_t dLUMemInit(fact_t fact, void *work, int_t lwork, int m, int n, int_t annz, int panel_size, double fill_ratio,
                 SuperMatrix *L, SuperMatrix *U, GlobalLU_t *Glu, int **iwork, double **dwork)
{
    int iword = sizeof(int), dword = sizeof(double);
    int_t nzlumax = 30 * annz, nzumax = nzlumax, nzlmax = nzlumax;
    int *xsup = (int *) duser_malloc((n + 1) * iword, HEAD, Glu);
    double *lusup = (double *) dexpand(&nzlumax, LUSUP, 0, 0, Glu);
    double *ucol = (double *) dexpand(&nzumax, UCOL, 0, 0, Glu);
    int_t *lsub = (int_t *) dexpand(&nzlmax, LSUB, 0, 0, Glu);
    int_t *usub = (int_t *) dexpand(&nzumax, USUB, 0, 1, Glu);
    while (!lusup || !ucol || !lsub || !usub) {
        duser_free((nzlumax + nzumax) * dword + (nzlmax + nzumax) * iword, HEAD, Glu);
        nzlumax /= 2; nzumax /= 2; nzlmax /= 2;
        if (nzlumax < annz) return 1;
        lusup = (double *) dexpand(&nzlumax, LUSUP, 0, 0, Glu);
        ucol = (double *) dexpand(&nzumax, UCOL, 0, 0, Glu);
        lsub = (int_t *) dexpand(&nzlmax, LSUB, 0, 0, Glu);
        usub = (int_t *) dexpand(&nzumax, USUB, 0, 1, Glu);
    }
    Glu->xsup = xsup;
    Glu->lusup = lusup; Glu->ucol = ucol; Glu->lsub = lsub; Glu->usub = usub;
    return 0;
}
