"""Reverse-communication state of ?lacon2: every slot of the caller-provided isave[] is written before it is read, over every call history.

?lacon2 is re-entered by its caller: the first call has *kase == 0; every later call resumes at the label selected by isave[0], which the previous
call stored before returning.  isave[] lives in the caller (?gscon, ?gsrfs) and is *not* initialised there, so a slot that is read on some
history before any call of that history wrote it makes the estimate depend on stack residue (non-deterministic rcond / ferr).

The analysis is a must-be-written dataflow over the CFG, run once per entry mode: mode `first` follows the true edge of `*kase == 0` with nothing
written; mode j follows the false edge and the `case j` edge of `switch (isave[0])`, starting from the intersection of the written-sets of all
returns that stored the constant j into isave[0].  Modes are discovered from the returns; the iteration ends when no summary changes.
"""
from ..facts import strip, const_value, loc, root_ref
from ..ir import pretty


def _slot(e, sid):
    """constant slot number if e is isave[c]"""
    e = strip(e)
    if e.k == 'Index' and strip(e.c[0]).k == 'Ref' and strip(e.c[0]).a.get('id') == sid:
        return const_value(e.c[1])
    return None


def run(chk, cid, prog, p, cfgname):
    f = prog.func(p + 'lacon2_')
    if f is None:
        from ..run import AnalysisBroken
        raise AnalysisBroken('%slacon2_ not found' % p)
    chk.saw(unit=f.unit, func=f.unit + ':' + f.name)
    ids = {nm: i for (nm, i, t) in f.params}
    if 'isave' not in ids or 'kase' not in ids:
        from ..run import AnalysisBroken
        raise AnalysisBroken('%s: parameters isave / kase not found' % f.name)
    sid, kid = ids['isave'], ids['kase']
    cfg = prog.cfg(f)

    def is_kase_zero(ast):
        c = strip(ast)
        if c.k == 'Binary' and c.a['op'] == '==' and const_value(c.c[1]) == 0:
            l = strip(c.c[0])
            return l.k == 'Unary' and l.a['op'] == '*' and strip(l.c[0]).k == 'Ref' and strip(l.c[0]).a.get('id') == kid
        return False

    def is_dispatch(node):
        return node.kind == 'switch' and node.ast is not None and _slot(node.ast.c[0] if node.ast.k == 'Switch' else node.ast, sid) == 0

    reads = {}      # (slot, line) -> node, modes in which it is read unwritten
    nreads = [0]

    def transfer(ast, D, J, mode, record):
        """returns (D, J) after evaluating the statement/condition ast; record unwritten reads"""
        D = set(D)

        def rd(e):
            k = _slot(e, sid)
            if k is not None:
                if record:
                    nreads[0] += 1
                if k not in D and record:
                    reads.setdefault((k, e.line), (e, set()))[1].add(mode)

        def visit(e):
            nonlocal J
            e = strip(e)
            if e.k == 'Assign':
                k = _slot(e.c[0], sid)
                visit(e.c[1])
                if k is not None:
                    if e.a['op'] != '=':
                        rd(e.c[0])
                    D.add(k)
                    if k == 0:
                        J = const_value(e.c[1]) if e.a['op'] == '=' else None
                    return
                visit(e.c[0])
                return
            if e.k == 'Unary' and e.a['op'] in ('++', '--', 'post++', 'post--') and _slot(e.c[0], sid) is not None:
                rd(e.c[0])
                D.add(_slot(e.c[0], sid))
                return
            if e.k == 'Index' and _slot(e, sid) is not None:
                rd(e)
                return
            for c in e.c:
                visit(c)
        visit(ast)
        return frozenset(D), J

    summaries = {}          # j -> frozenset
    modes = ['first']
    done = set()
    changed = True
    rounds = 0
    while changed:
        changed = False
        rounds += 1
        if rounds > 50:
            from ..run import AnalysisBroken
            raise AnalysisBroken('%s: re-entry summaries do not stabilise' % f.name)
        reads.clear()
        nreads[0] = 0
        for mode in list(modes):
            start = frozenset() if mode == 'first' else summaries.get(mode)
            if start is None:
                continue
            IN = {cfg.entry.id: (start, None if mode == 'first' else mode)}
            work = [cfg.entry.id]
            while work:
                nid = work.pop()
                node = cfg.nodes[nid]
                D, J = IN[nid]
                if node.ast is not None and node.kind in ('stmt', 'cond', 'return', 'switch'):
                    ast = node.ast.c[0] if (node.kind == 'switch' and node.ast.k == 'Switch') else node.ast
                    D, J = transfer(ast, D, J, mode, False)
                if node.kind == 'return' or (node.kind != 'exit' and any(s == cfg.exit.id for (s, _) in node.succ)):
                    if J is not None:
                        cur = summaries.get(J)
                        new = D if cur is None else (cur & D)
                        if new != cur:
                            summaries[J] = new
                            changed = True
                        if J not in modes:
                            modes.append(J)
                            changed = True
                for (s, lab) in node.succ:
                    if node.kind == 'cond' and is_kase_zero(node.ast):
                        if (mode == 'first') != (lab is True):
                            continue
                    if is_dispatch(node) and mode != 'first':
                        if not (isinstance(lab, tuple) and lab[0] == 'case' and lab[1] == mode):
                            continue
                    if s not in IN:
                        IN[s] = (D, J)
                        work.append(s)
                    else:
                        cd, cj = IN[s]
                        nd, nj = cd & D, (cj if cj == J else None)
                        if (nd, nj) != (cd, cj):
                            IN[s] = (nd, nj)
                            work.append(s)
            # recording pass with the fixpoint of this mode
            for nid, (D, J) in IN.items():
                node = cfg.nodes[nid]
                if node.ast is not None and node.kind in ('stmt', 'cond', 'return', 'switch'):
                    ast = node.ast.c[0] if (node.kind == 'switch' and node.ast.k == 'Switch') else node.ast
                    transfer(ast, D, J, mode, True)
    n = 0
    jm = sorted(m for m in modes if m != 'first')
    if len(jm) < 3 or nreads[0] < 3:
        from ..run import AnalysisBroken
        raise AnalysisBroken('%s: only %d resume states and %d reads of isave[] found; the rule needs to be re-anchored' % (f.name, len(jm), nreads[0]))
    bad = {k: v for k, v in reads.items() if v[1]}
    for slot in (0, 1, 2):
        n += 1
        inst = '%s:isave[%d]-written-before-read' % (f.name, slot)
        b = [(k, v) for k, v in bad.items() if k[0] == slot]
        if not b:
            chk.ok(cid, inst, sample='resume states %s; written on entry to each: %s' % (jm, {j: sorted(summaries[j]) for j in jm}))
        else:
            (k, (node, ms)) = sorted(b, key=lambda kv: kv[0][1])[0]
            chk.violate(cid, inst, loc(f, node), f.name,
                        'isave[%d] is read at line %d when the routine is resumed in state %s, but no earlier call of that history has stored it: the '
                        'caller does not initialise isave[], so the iteration count / index depends on what the stack held'
                        % (slot, node.line, sorted(map(str, ms))), cfgname=cfgname)
    return n
