"""R1 `state`: no mutable process-wide state; only reentrant external callees;
indirect calls only through caller-supplied pointers."""
import os, subprocess, tempfile, shutil
from .. import front
from ..facts import strip, root_ref, callee_name, loc
from .effects import Effects

# External callees, classified by reading their specification.  'R' reentrant /
# thread-safe on distinct objects; stdio is 'R' on the assumption stated in
# DESIGN.md (libc streams lock internally).  'N' = keeps hidden process-wide state
# or is otherwise unsafe/non-deterministic: a call is a violation.
REENTRANT = set('''
malloc free calloc realloc exit abort _exit
printf fprintf sprintf snprintf fputs fputc putc puts putchar fflush fgets fgetc getc ungetc fscanf sscanf scanf fopen fclose fread fwrite
perror vfprintf vsnprintf vsprintf
strcmp strncmp strlen strcpy strncpy strcat strncat strchr strrchr strstr strspn strcspn strpbrk strdup strtol strtoul strtod strtof strtoll
memcpy memmove memset memcmp memchr
tolower toupper isalpha isdigit isspace isupper islower isalnum isprint ispunct
atoi atof atol abs labs llabs
fabs fabsf sqrt sqrtf pow powf exp expf log logf log10 log2 ceil ceilf floor floorf sin cos tan sinf cosf fmod fmax fmin hypot
cabs cabsf creal cimag conj
copysign frexp ldexp modf round lround trunc isnan isinf
gettimeofday clock_gettime
__builtin_flt_rounds __assert_fail __errno_location __ctype_tolower_loc __ctype_toupper_loc __ctype_b_loc
__builtin_expect __builtin_unreachable __builtin_inf __builtin_inff __builtin_nan __builtin_nanf __builtin_huge_val __builtin_huge_valf
__builtin_fabs __builtin_fabsf __builtin_isnan __builtin_isinf
qsort_r bsearch
'''.split())
NONREENTRANT = set('''
rand srand random srandom drand48 srand48 lrand48 erand48
strtok getenv setenv putenv unsetenv secure_getenv
localtime gmtime ctime asctime strerror setlocale tmpnam tempnam mktemp
time clock getpid gethostname getrusage times
signal raise atexit system popen
omp_get_thread_num omp_get_num_threads
'''.split())
# BLAS / LAPACK kernels from the vendor library: pure functions of their arguments
BLAS_STEMS = set('''swap scal copy axpy dot dotc dotu nrm2 asum amax trsv gemv ger gerc geru trsm gemm symv hemv syr2 her2 rot
trmv trmm syrk herk'''.split())
ALLOWED_EXTERN_OBJECTS = {'stdin', 'stdout', 'stderr'}


def classify_external(name):
    if name in NONREENTRANT:
        return 'N'
    if name in REENTRANT:
        return 'R'
    n = name
    if n.endswith('_'):
        n = n[:-1]
        for pre in ('s', 'd', 'c', 'z', 'is', 'id', 'ic', 'iz', 'sc', 'dz'):
            if n.startswith(pre) and n[len(pre):] in BLAS_STEMS:
                return 'R'
        if n in ('lsame', 'xerbla', 'scnrm2', 'dznrm2', 'scasum', 'dzasum', 'csscal', 'zdscal', 'cdotc', 'zdotc'):
            return 'R'
    if name in ('qsort',):
        return 'Q'   # needs a look at the comparator
    return None


def is_const(t):
    """const-qualified object type (top level or element type of an array)"""
    if not t:
        return False
    t = t.strip()
    if '*' in t:
        # pointer object itself must be const:  T *const p
        return t.rsplit('*', 1)[1].strip().startswith('const')
    return t.startswith('const ') or ' const' in t.split('[')[0]


def run(chk, prog, cid_prefix='R1', cfgname='tested', fixture=False):
    """records obligations on Check `chk`; returns census dict"""
    ci = chk.clause(cid_prefix + '.i', 'no mutable static-storage object')
    cii = chk.clause(cid_prefix + '.ii', 'external callees reentrant')
    ciii = chk.clause(cid_prefix + '.iii', 'indirect calls via parameters only')
    civ = chk.clause(cid_prefix + '.iv', 'function touches only argument/local/own memory')
    eff = Effects(prog)
    # ---------------- (i) census of static-storage objects
    objs = {}   # id -> info
    defined_names = set()
    for u in prog.units:
        chk.saw(unit=u.rel)
        for g in u.globals:
            if g['storage'] == 'extern' and not g['hasinit']:
                continue
            objs[g['id'] + u.rel] = dict(g, unit=u.rel, kind='file-scope', ident=g['id'])
            defined_names.add(g['name'])
        for s in u.statics:
            objs[s['id'] + u.rel] = dict(s, unit=u.rel, kind='static local of ' + s['func'], ident=s['id'], storage='static',
                                         dtype=s['type'])
    extern_refs = {}
    # writes / escapes per object
    byident = {}
    byname = {}   # external-linkage file-scope objects are one object across units
    for k, o in objs.items():
        byident.setdefault((o['unit'], o['ident']), o)
        o['writes'] = []
        if o['kind'] == 'file-scope' and o.get('storage') != 'static':
            byname.setdefault(o['name'], o)
    class _ByIdent(dict):
        pass
    for u in prog.units:
        for g in u.globals:
            if g['storage'] == 'extern' and not g['hasinit'] and g['name'] in byname:
                byident.setdefault((u.rel, g['id']), byname[g['name']])
    nfun = 0
    ext_callees = {}
    indirect = []
    for f in prog.all_funcs():
        nfun += 1
        chk.saw(func=f.unit + ':' + f.name)
        pids = {pid for (_, pid, _) in f.params}
        localids = set(f.locals)
        touched_global = []
        for n in f.body.walk():
            if n.k in ('Assign',) or (n.k == 'Unary' and n.a['op'] in ('++', '--')):
                r = root_ref(n.c[0])
                if r is not None:
                    o = byident.get((f.unit, r.a.get('id')))
                    if o is not None:
                        o['writes'].append((f, n, 'store'))
            elif n.k == 'Unary' and n.a['op'] == '&':
                r = root_ref(n.c[0])
                if r is not None and (f.unit, r.a.get('id')) in byident:
                    byident[(f.unit, r.a['id'])]['writes'].append((f, n, 'address taken'))
            elif n.k == 'Call':
                name = callee_name(n)
                args = n.c[1:]
                if name is None:
                    indirect.append((f, n))
                    continue
                tgt = prog.resolve(name, f.unit)
                if tgt is None:
                    ext_callees.setdefault(name, []).append((f, n))
                    wr = None
                    from .effects import external_writes
                    wr = external_writes(name, len(args))
                    wr = range(len(args)) if wr is None else wr
                else:
                    wr = eff.summary.get((tgt.unit, tgt.name), set())
                for i in wr:
                    if i < len(args):
                        r = root_ref(args[i])
                        if r is not None and (f.unit, r.a.get('id')) in byident:
                            byident[(f.unit, r.a['id'])]['writes'].append((f, n, 'passed to %s which writes through argument %d' % (name, i + 1)))
            if n.k == 'Ref' and n.a.get('dk') == 'VarDecl':
                vid = n.a['id']
                if vid not in pids and vid not in localids:
                    if (f.unit, vid) not in byident:
                        extern_refs.setdefault(n.a['name'], []).append((f, n))
                    touched_global.append(n.a['name'])
        # (iv) per function: every object it names is a parameter, a local, a const/never-written static or an allowed extern
        bad = [g for g in touched_global if g not in ALLOWED_EXTERN_OBJECTS and g not in defined_names]
        if bad and not fixture:
            chk.violate(cid_prefix + '.iv', '%s:extern-object:%s' % (f.name, bad[0]), loc(f, f.body), f.name,
                        'reads or writes object `%s` that is neither a parameter, a local nor a library object' % bad[0], cfgname=cfgname)
        else:
            chk.ok(cid_prefix + '.iv', f.unit + ':' + f.name, nontrivial=True)
    found = []
    for k, o in sorted(objs.items(), key=lambda kv: (kv[1]['unit'], kv[1]['name'] or '')):
        t = o.get('dtype') or o.get('type')
        inst = '%s:%s(%s)' % (o['unit'], o['name'], o['kind'])
        if is_const(t):
            chk.ok(cid_prefix + '.i', inst, sample='const-qualified %s' % t)
            continue
        if not o['writes']:
            chk.ok(cid_prefix + '.i', inst, sample='never written, address never passed to a writer')
            continue
        f, n, how = o['writes'][0]
        found.append(o)
        if fixture:
            continue
        chk.violate(cid_prefix + '.i', '%s:%s' % (os.path.basename(o['unit']), o['name']),
                    loc(f, n), f.name,
                    'static-storage object `%s` (%s, type %s) is mutable process-wide state: %s in %s (%d such site(s))'
                    % (o['name'], o['kind'], t, how, f.name, len(o['writes'])),
                    {'object': o['name'], 'declared': '%s:%s' % (o.get('file'), o.get('line'))}, cfgname=cfgname)
    # ---------------- (ii) external callees
    for name in sorted(ext_callees):
        cl = classify_external(name)
        sites = ext_callees[name]
        f, n = sites[0]
        if cl == 'R':
            chk.ok(cid_prefix + '.ii', name, sample='%d call site(s), first %s' % (len(sites), loc(f, n)))
        elif cl == 'N':
            if not fixture:
                for (f, n) in sites:
                    chk.violate(cid_prefix + '.ii', '%s:calls:%s' % (f.name, name), loc(f, n), f.name,
                                'call to `%s`, which keeps hidden process-wide state / is not reentrant or deterministic' % name, cfgname=cfgname)
        elif cl == 'Q':
            for (f, n) in sites:
                # comparator must not read file-scope objects: with (i) holding there are none that are mutable; accept if comparator resolves
                cmpf = strip(n.c[4]) if len(n.c) > 4 else None
                if cmpf is not None and cmpf.k == 'Ref' and prog.resolve(cmpf.a['name'], f.unit) is not None:
                    chk.ok(cid_prefix + '.ii', 'qsort@' + f.name)
                elif not fixture:
                    chk.violate(cid_prefix + '.ii', '%s:calls:qsort-unresolved-comparator' % f.name, loc(f, n), f.name,
                                'qsort with a comparator that cannot be resolved', cfgname=cfgname)
        else:
            if not fixture:
                from ..run import AnalysisBroken
                raise AnalysisBroken('external callee `%s` (first call %s in %s) is not classified as reentrant or not; '
                                     'classify it in rules/r1_state.py' % (name, loc(f, n), f.name))
    # extern objects referenced but not defined in the library
    for name, sites in sorted(extern_refs.items()):
        if name in ALLOWED_EXTERN_OBJECTS or name in defined_names:
            continue
    # ---------------- (iii) indirect calls
    for (f, n) in indirect:
        r = root_ref(n.c[0])
        pids = {pid for (_, pid, _) in f.params}
        okk = r is not None and (r.a.get('id') in pids or r.a.get('id') in f.locals)
        if okk:
            chk.ok(cid_prefix + '.iii', '%s:%d' % (f.name, len([1 for (g, m) in indirect if g is f and m.line <= n.line])))
        elif not fixture:
            chk.violate(cid_prefix + '.iii', '%s:indirect-call' % f.name, loc(f, n), f.name,
                        'indirect call through an object that is not a parameter or local', cfgname=cfgname)
    return {'functions': nfun, 'units': len(prog.units), 'objects': len(objs), 'mutable': found,
            'externals': sorted(ext_callees), 'indirect': len(indirect), 'unknown_effects': sorted(eff.unknown_ext)}


def nm_census(paths, cfg='tested', jobs=16):
    """independent cross-check: compile every unit to an object (not linked, not run) and list
    data/bss/common symbols with llvm-nm"""
    from concurrent.futures import ThreadPoolExecutor
    tmp = tempfile.mkdtemp(prefix='slucheck_nm_')
    out = {}

    def one(p):
        o = os.path.join(tmp, str(abs(hash(p))) + '.o')
        r = subprocess.run([front.CLANG, '-c', '-O0'] + front.flags_for(cfg) + [p, '-o', o], stdout=subprocess.PIPE, stderr=subprocess.PIPE)
        if r.returncode != 0:
            return (p, None)
        r = subprocess.run(['llvm-nm-14', o], stdout=subprocess.PIPE, stderr=subprocess.PIPE)
        syms = []
        for line in r.stdout.decode().split('\n'):
            parts = line.split()
            if len(parts) >= 2 and parts[-2] in ('b', 'B', 'd', 'D', 'C'):
                syms.append((parts[-2], parts[-1]))
        try:
            os.unlink(o)
        except OSError:
            pass
        return (p, syms)
    try:
        with ThreadPoolExecutor(max_workers=jobs) as ex:
            for p, syms in ex.map(one, paths):
                out[p] = syms
    finally:
        shutil.rmtree(tmp, ignore_errors=True)
    return out
