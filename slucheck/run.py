"""Check runner plumbing: violations, known findings, evidence, exit protocol.

exit 0  every obligation of the claimed clauses discharged (known findings are
        printed as KNOWN-FINDING lines)
exit 1  + 'VIOLATION property=<id> replay=<path>' for each unlisted violation
exit 2  analysis broken (anchor vanished, instance floor not met, parse failure);
        never a pass, never a violation
"""
import os, sys, json, time, re, hashlib

VERIF = os.path.dirname(os.path.dirname(os.path.abspath(__file__)))
KNOWN = os.path.join(VERIF, 'known_findings.txt')
REPORTS = os.environ.get('SLU_REPORTS_DIR') or os.path.join(VERIF, 'reports')
EVIDENCE = os.environ.get('SLU_EVIDENCE_DIR') or os.path.join(VERIF, 'evidence')


class AnalysisBroken(Exception):
    pass


def load_known():
    """returns {(property, key): what} for 'finding:' lines; 'fixed:' lines suppress nothing"""
    out = {}
    if not os.path.exists(KNOWN):
        return out
    for line in open(KNOWN):
        line = line.strip()
        if not line or line.startswith('#'):
            continue
        if line.startswith('finding:'):
            m = re.match(r'finding:\s+property=(\S+)\s+rule=(\S+)\s+key=(\S+)\s+what=(.*)$', line)
            if not m:
                raise AnalysisBroken('unparsable line in known_findings.txt: ' + line)
            out[(m.group(1), m.group(3))] = m.group(4)
    return out


LAST_CHECK = None


class Check(object):
    def __init__(self, prop, tier='quick', level='other'):
        global LAST_CHECK
        if LAST_CHECK is None:
            LAST_CHECK = self     # the first Check of the process is the real one; positive-control probes are created after it
        self.prop = prop
        self.tier = tier
        self.level = level
        self.t0 = time.time()
        self.violations = []      # dicts
        self.obligations = 0      # rule instances examined
        self.discharged = 0
        self.nontrivial = set()   # distinct non-trivial instance keys
        self.samples = []
        self.clauses = {}         # clause id -> {'rule':..., 'instances': n, 'nontrivial': n, 'violations': n}
        self.analysed = {'units': set(), 'functions': set()}
        self.notes = []
        self.assumptions = []
        self.trusted = []
        self.explanation = ''
        self.configs = []

    # ------------------------------------------------------------ recording
    def clause(self, cid, rule):
        c = self.clauses.setdefault(cid, {'rule': rule, 'instances': 0, 'nontrivial': 0, 'violations': 0, 'known': 0})
        return c

    def ok(self, cid, instance, nontrivial=True, sample=None):
        """an obligation examined and discharged"""
        c = self.clauses[cid]
        c['instances'] += 1
        self.obligations += 1
        self.discharged += 1
        if nontrivial:
            key = cid + '|' + instance
            if key not in self.nontrivial:
                self.nontrivial.add(key)
                c['nontrivial'] += 1
        if sample is not None and len([s for s in self.samples if s.startswith(cid + ' ')]) < 4:
            self.samples.append('%s %s -> ok%s' % (cid, instance, (' (' + sample + ')') if sample else ''))

    def violate(self, cid, key, where, func, what, detail=None, cfgname='tested'):
        """an obligation examined and failed.  key: semantic identity (no line numbers)"""
        c = self.clauses[cid]
        c['instances'] += 1
        self.obligations += 1
        k = cid + '|' + key
        self.nontrivial.add(k)
        c['nontrivial'] += 1
        for v in self.violations:
            if v['key'] == key and v['clause'] == cid:
                if cfgname not in v['configs']:
                    v['configs'].append(cfgname)
                return
        self.violations.append({'property': self.prop, 'clause': cid, 'rule': c['rule'], 'key': key, 'where': where,
                                'function': func, 'what': what, 'detail': detail or {}, 'configs': [cfgname]})

    def floor(self, cid, n, what=''):
        c = self.clauses.get(cid)
        have = c['instances'] if c else 0
        if have < n:
            raise AnalysisBroken('%s clause %s: %d instance(s) matched, floor is %d %s' % (self.prop, cid, have, n, what))

    def saw(self, unit=None, func=None):
        if unit:
            self.analysed['units'].add(unit)
        if func:
            self.analysed['functions'].add(func)

    # ------------------------------------------------------------ finishing
    def finish(self):
        known = load_known()
        os.makedirs(REPORTS, exist_ok=True)
        os.makedirs(EVIDENCE, exist_ok=True)
        new, old = [], []
        for v in self.violations:
            kk = (self.prop, v['clause'] + ':' + v['key'])
            if kk in known:
                v['known'] = known[kk]
                old.append(v)
                self.clauses[v['clause']]['known'] += 1
            else:
                new.append(v)
                self.clauses[v['clause']]['violations'] += 1
        for v in old:
            print('KNOWN-FINDING: property=%s %s [%s at %s in %s]' % (self.prop, v['known'], v['clause'], v['where'], v['function']))
        for v in new:
            h = hashlib.sha1((v['clause'] + v['key']).encode()).hexdigest()[:10]
            path = os.path.join(REPORTS, '%s_%s_%s.json' % (self.prop, v['clause'].replace('.', '_'), h))
            with open(path, 'w') as f:
                json.dump(v, f, indent=1, sort_keys=True)
            print('%s: %s: in %s: [%s %s] %s (key=%s:%s)' % (v['where'], self.prop, v['function'], v['clause'], v['rule'], v['what'],
                                                           v['clause'], v['key']))
            print('VIOLATION property=%s replay=%s' % (self.prop, path))
        wall = time.time() - self.t0
        cov = {
            'explanation': self.explanation,
            'evaluations': self.obligations,
            'distinct_nontrivial': len(self.nontrivial),
            'rule': 'an evaluation is one rule instance examined on the current tree (call site, store, exit, flag valuation, '
                    'parameter, table row ...); it is non-trivial when the rule had something to decide there, and distinct by '
                    '(clause, function, semantic instance key)',
            'samples': self.samples[:40] or ['(no instance)'],
            'obligations': self.obligations,
            'discharged': self.discharged + len(old),
            'checker_cmd': './check %s --tier %s' % (self.prop, self.tier),
            'trusted_base': self.trusted or ['clang 14 parser and constant folding', 'slucheck CFG builder and rule engines',
                                             'oracle tables in slucheck/props'],
            'exhaustive': True,
            'clauses': self.clauses,
            'configurations': self.configs,
            'units_analysed': len(self.analysed['units']),
            'functions_analysed': len(self.analysed['functions']),
            'functions': sorted(self.analysed['functions'])[:400],
            'known_findings_rederived': ['%s:%s' % (v['clause'], v['key']) for v in old],
            'notes': self.notes,
        }
        ev = {'property_id': self.prop, 'tier': self.tier, 'seed': int(os.environ.get('VERIF_SEED', '0') or 0),
              'level': self.level, 'coverage': cov, 'assumptions': self.assumptions, 'wall_s': round(wall, 2),
              'violations': len(new)}
        with open(os.path.join(EVIDENCE, self.prop + '.json'), 'w') as f:
            json.dump(ev, f, indent=1, sort_keys=True)
        tot = sum(c['instances'] for c in self.clauses.values())
        print('%s [%s]: %d clause(s), %d rule instance(s) examined, %d non-trivial, %d violation(s), %d known finding(s), %.1fs'
              % (self.prop, self.tier, len(self.clauses), tot, len(self.nontrivial), len(new), len(old), wall))
        for cid in sorted(self.clauses):
            c = self.clauses[cid]
            print('  %-10s %-28s instances=%-5d nontrivial=%-5d violations=%d known=%d' % (cid, c['rule'], c['instances'], c['nontrivial'],
                                                                                     c['violations'], c['known']))
        return 1 if new else 0
