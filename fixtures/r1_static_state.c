/* Positive control for rule R1 (expected count on a healthy SuperLU tree is zero).
 * The engine must report `work` and `calls` on every run, otherwise the rule is
 * considered blind and the check exits 2.  Never compiled into anything. */
static double work[8];
static const double table[2] = {1.0, 2.0};

double r1_fixture_accumulate(int n, const double *x)
{
    static int calls = 0;
    int i;
    for (i = 0; i < n && i < 8; ++i) work[i] += x[i] * table[i & 1];
    ++calls;
    return work[0] + calls;
}
