"""C12: ?gscon dispatch (norm -> kase1 -> which triangular solves), rcond formula; ?PivotGrowth column discipline."""
from ..facts import strip, callee_name, const_value, loc, root_ref, canon
from ..ir import pretty
from . import r3_dispatch as r3, r7_perm
from ..props._drv import Flags, Expect, ppos, set_through


def gscon_oracle(chk, cid, prog, eff, p, cfgname):
    f = prog.func(p + 'gscon')
    if f is None:
        from ..run import AnalysisBroken
        raise AnalysisBroken('%sgscon not found' % p)
    chk.saw(unit=f.unit, func=f.unit + ':' + f.name)
    fl = Flags(prog, f, p)
    fl.add('norm', '*$1', [ord('1'), ord('O'), ord('I')], ['1', 'O', 'I'])
    fl.matrix('L', ['SLU_SC'], 'SLU_TRLU')
    fl.matrix('U', ['SLU_NC'], 'SLU_TRU')
    fl.add('kase', None, [0, 1, 2], ['0(done)', '1', '2'])
    lacon = {'s': 'slacon2_', 'd': 'dlacon2_', 'c': 'clacon2_', 'z': 'zlacon2_'}[p]

    def after_lacon(eng, call, vals, env):
        set_through(env, vals[len(vals) - 2], 'kase')      # (..., est, kase, isave)
    trsv = 'sp_' + p + 'trsv'
    eng = r3.Engine(prog, f, fl.flags, havoc=[(lambda n: n == lacon, after_lacon)], callees=lambda n: n in (trsv, lacon), eff=eff)
    leaves = eng.run()
    ex = Expect(chk, cid, f, fl, cfgname)
    kL, kU = ppos(f, 'L'), ppos(f, 'U')
    for lf in leaves:
        v = lf.val
        one = v['norm'] in (ord('1'), ord('O'))
        sel = ['norm', 'kase']
        tr = lf.calls(trsv)
        sig = [[a[1].strip('"')[:1].upper() for a in e['args'][:3] if isinstance(a, tuple) and a[0] == 'str'] for e in tr]
        if v.get('kase') == 0 or 'kase' not in v:
            ex.check(lf, not tr, 'no-solve-when-done', sel, 'kase == 0 ends the reverse-communication loop: no solve may follow', tr[0]['line'] if tr else None)
            continue
        kase1 = 1 if one else 2
        if v['kase'] == kase1:
            want = [['L', 'N', 'U'], ['U', 'N', 'N']]
            txt = 'inv(L) then inv(U)'
        else:
            want = [['U', 'T', 'N'], ['L', 'T', 'U']]
            txt = 'inv(U^T) then inv(L^T)'
        ok = sig == want or (sig == [['U', 'C', 'N'], ['L', 'C', 'U']] and v['kase'] != kase1)
        ex.check(lf, ok, 'estimator-solves', sel, '%s-norm estimate, kase = %d: the estimator needs %s, i.e. %s; the code calls %s'
                 % ('one' if one else 'infinity', v['kase'], txt, want, sig), tr[0]['line'] if tr else None)
        if ok:
            ex.check(lf, lf.can_reach(tr[0]['node'], tr[1]['node']) and all(e['args'][3:5] == [('p', kL), ('p', kU)] for e in tr)
                     and r3.ptr_desc(tr[0]['args'][5]) == r3.ptr_desc(tr[1]['args'][5]) and r3.ptr_desc(tr[0]['args'][5]) is not None, 'estimator-solve-operands', sel,
                     'both solves must use (L, U) and the same work vector, in this order', tr[0]['line'])
    # rcond = (1/ainvnm)/anorm  (structural)
    rc = ppos(f, 'rcond')
    an = ppos(f, 'anorm')
    st = [n for n in f.body.walk() if n.k == 'Assign' and strip(n.c[0]).k == 'Unary' and strip(strip(n.c[0]).c[0]).k == 'Ref'
          and strip(strip(n.c[0]).c[0]).a.get('id') == f.params[rc - 1][1]]
    final = [n for n in st if const_value(n.c[1]) is None and strip(n.c[1]).k == 'Binary']
    okf = False
    if len(final) == 1:
        e = strip(final[0].c[1])
        if e.k == 'Binary' and e.a['op'] == '/' and strip(e.c[1]).k == 'Ref' and strip(e.c[1]).a.get('id') == f.params[an - 1][1]:
            num = strip(e.c[0])
            if num.k == 'Binary' and num.a['op'] == '/' and strip(num.c[0]).k in ('Float', 'Int') and float(strip(num.c[0]).a['value']) == 1.0 \
                    and strip(num.c[1]).k == 'Ref' and strip(num.c[1]).a.get('dk') == 'VarDecl':
                okf = True
    if okf:
        chk.ok(cid, '%s:rcond-formula' % f.name, sample=pretty(final[0]))
    else:
        chk.violate(cid, '%s:rcond-formula' % f.name, loc(f, (final or st or [f.body])[0]), f.name,
                    'rcond must be (1 / ainvnm) / anorm with ainvnm the estimate returned by ?lacon2', cfgname=cfgname)
    return len(leaves)


def pivotgrowth_rules(chk, cid, prog, p, cfgname):
    f = prog.func(p + 'PivotGrowth')
    if f is None:
        from ..run import AnalysisBroken
        raise AnalysisBroken('%sPivotGrowth not found' % p)
    chk.saw(unit=f.unit, func=f.unit + ':' + f.name)
    # the scan of the U part held inside the supernode (luval[i]) must stay within the rows of the supernode: after a zero pivot a relaxed
    # supernode can have fewer rows than columns, and the values behind the block were never written (repaired in fd138c9)
    from ..facts import canon
    scans = []
    for lp in f.body.walk():
        if lp.k == 'For' and any(y.k == 'Index' and strip(y.c[0]).a.get('name') == 'luval' for y in lp.c[3].walk()) \
                and not any(z.k == 'For' and any(y.k == 'Index' and strip(y.c[0]).a.get('name') == 'luval' for y in z.walk()) for z in lp.c[3].walk()):
            scans.append(lp)
    for lp in scans:
        ctext = canon(lp.c[1], ids=False)
        inst = '%s:supernode-scan-within-its-rows' % f.name
        if 'nsupr' in ctext:
            chk.ok(cid, inst, sample=ctext)
        else:
            chk.violate(cid, inst, loc(f, lp), f.name,
                        'the loop over the part of U stored inside the supernode is bounded by `%s` only; it must also stay below nsupr (a supernode cut short by a '
                        'zero pivot has fewer rows than columns, and the scan then reads values that were never written)' % ctext, cfgname=cfgname)
    if not scans:
        from ..run import AnalysisBroken
        raise AnalysisBroken('%s: scan of luval[] not found' % f.name)
    n = 0
    n += r7_perm.check_inverse(chk, cid, f, 'inv_perm_c', 'perm_c', cfgname)
    ncols = f.params[0][1]
    Aid = f.params[ppos(f, 'A') - 1][1]
    # the returned variable
    rets = [strip(x.c[0]) for x in f.body.walk() if x.k == 'Return' and x.c]
    R = rets[0].a['id'] if rets and rets[0].k == 'Ref' else None

    def walk(node, loops, out):
        if node.k in ('For', 'While'):
            loops = loops + [node]
        if node.k == 'Assign' and strip(node.c[0]).k == 'Ref' and strip(node.c[0]).a.get('id') == R and loops:
            out.append((node, loops))
        for c in node.c:
            walk(c, loops, out)
    ups = []
    walk(f.body, [], ups)
    n += 1
    bad = []
    for (node, loops) in ups:
        inner = loops[-1]
        cond = inner.c[1] if inner.k == 'For' else inner.c[0]
        atoms = []

        def conj(e):
            e = strip(e)
            if e.k == 'Binary' and e.a['op'] == '&&':
                conj(e.c[0]); conj(e.c[1])
            else:
                atoms.append(e)
        conj(cond)
        ok = any(a.k == 'Binary' and a.a['op'] == '<' and strip(a.c[1]).k == 'Ref' and strip(a.c[1]).a.get('id') == ncols for a in atoms)
        if not ok:
            bad.append(node)
    if R is None or not ups or bad:
        chk.violate(cid, '%s:growth-limited-to-leading-columns' % f.name, loc(f, (bad or [f.body])[0]), f.name,
                    'every update of the growth factor must sit in the column loop that is bounded by `j < ncols` (the leading ncols columns only - also inside a supernode)',
                    cfgname=cfgname)
    else:
        chk.ok(cid, '%s:growth-limited-to-leading-columns' % f.name, sample='%d update site(s)' % len(ups))
    # A is read through the inverse column permutation
    n += 1
    ok = True
    sites = 0
    inv_defs = {}
    for x in f.body.walk():
        if x.k == 'Assign' and x.a['op'] == '=' and strip(x.c[0]).k == 'Ref':
            r = strip(x.c[1])
            if r.k == 'Index' and strip(r.c[0]).k == 'Ref' and strip(r.c[0]).a['name'] == 'inv_perm_c':
                inv_defs[strip(x.c[0]).a['id']] = x
    astore = {vid for vid, v in f.locals.items()}
    for x in f.body.walk():
        if x.k == 'Index':
            b = strip(x.c[0])
            if b.k == 'Member' and b.a['name'] == 'colptr':
                rr = root_ref(b)
                # which Store is it: the local initialised from A->Store
                owner = None
                for y in f.body.walk():
                    if y.k == 'Assign' and strip(y.c[0]).k == 'Ref' and rr is not None and strip(y.c[0]).a.get('id') == rr.a.get('id'):
                        r2_ = root_ref(y.c[1])
                        owner = r2_.a.get('id') if r2_ is not None else None
                if owner == Aid:
                    sites += 1
                    sub = root_ref(x.c[1]) if strip(x.c[1]).k != 'Ref' else strip(x.c[1])
                    if sub is None or sub.a.get('id') not in inv_defs:
                        ok = False
    if ok and sites >= 2:
        chk.ok(cid, '%s:A-read-through-inverse-perm_c' % f.name, sample='%d colptr subscripts' % sites)
    else:
        chk.violate(cid, '%s:A-read-through-inverse-perm_c' % f.name, loc(f, f.body), f.name,
                    'column j of the factors corresponds to column inv_perm_c[j] of A: A->colptr must be subscripted with a value read from inv_perm_c', cfgname=cfgname)
    return n


def norm_sum_rule(chk, cid, prog, cfgname):
    """?lacon2 estimates ||inv(A)||_1; for complex vectors its 1-norm is the sum of the moduli (LAPACK xZSUM1 / xCSUM1: "takes the sum of the
    absolute values ... uses the true absolute value"), not the |re|+|im| of the BLAS asum.  With |re|+|im| the estimate can exceed the true
    norm by a factor up to sqrt(2), and RCOND then falls below the true value although the factorization is accurate.  Every addend of the
    running sum in scsum1 / dzsum1 must be one call of the modulus function of the precision on an element of the vector."""
    from ..run import AnalysisBroken
    chk.clause(cid, 'the complex 1-norm used by the estimator sums true moduli')
    n = 0
    for (names, mag) in ((('scsum1_slu', 'scsum1_'), 'c_abs'), (('dzsum1_slu', 'dzsum1_'), 'z_abs')):
        f = None
        for nm in names:
            f = f or prog.func(nm)
        if f is None:
            raise AnalysisBroken('%s not found' % names[0])
        chk.saw(unit=f.unit, func=f.unit + ':' + f.name)
        rets = {strip(x.c[0]).a.get('id') for x in f.body.walk() if x.k == 'Return' and x.c and strip(x.c[0]).k == 'Ref'}
        # the returned variable may be a copy of the running sum (ret_val = stemp)
        for x in f.body.walk():
            if x.k == 'Assign' and x.a['op'] == '=' and strip(x.c[0]).k == 'Ref' and strip(x.c[0]).a.get('id') in rets and strip(x.c[1]).k == 'Ref':
                rets = rets | {strip(x.c[1]).a.get('id')}
        adds = [x for x in f.body.walk() if x.k == 'Assign' and x.a['op'] == '+=' and strip(x.c[0]).k == 'Ref' and strip(x.c[0]).a.get('id') in rets]
        plain = [x for x in f.body.walk() if x.k == 'Assign' and x.a['op'] == '=' and strip(x.c[0]).k == 'Ref' and strip(x.c[0]).a.get('id') in rets
                 and strip(x.c[1]).k == 'Binary' and strip(x.c[1]).a['op'] == '+']
        adds = [(a, strip(a.c[1])) for a in adds]
        for a in plain:        # s = s + term  /  s = term + s
            l, r_ = strip(strip(a.c[1]).c[0]), strip(strip(a.c[1]).c[1])
            if l.k == 'Ref' and l.a.get('id') == strip(a.c[0]).a.get('id'):
                adds.append((a, r_))
            elif r_.k == 'Ref' and r_.a.get('id') == strip(a.c[0]).a.get('id'):
                adds.append((a, l))
        if not adds:
            raise AnalysisBroken('%s: no accumulation into the returned sum found' % f.name)
        for (a, r) in adds:
            n += 1
            inst = '%s:sum-of-moduli@%d' % (f.name, n)
            if r.k == 'Call' and callee_name(r) == mag and len(r.c) == 2:
                chk.ok(cid, inst, sample=pretty(a)[:60])
            else:
                chk.violate(cid, inst, loc(f, a), f.name,
                            '`%s` does not add the modulus %s(element): the estimator then measures a different norm (|re|+|im| over-estimates the '
                            '1-norm by up to sqrt(2)), and RCOND drops below the true value' % (pretty(a)[:70], mag), cfgname=cfgname)
    return n


NONNEG_CALLS = {'fabs', 'fabsf', 'dasum_', 'sasum_', 'dzsum1_slu', 'scsum1_slu', 'dzsum1_', 'scsum1_', 'z_abs', 'c_abs', 'z_abs1', 'c_abs1', 'dzasum_', 'scasum_'}


def estimate_nonnegative_rule(chk, cid, prog, p, cfgname):
    """?lacon2 returns an estimate of a norm in *est; ?gscon turns it into RCOND and ?gsrfs into FERR, which are documented non-negative.  Every
    value stored into *est must be non-negative by construction: a magnitude or a sum of magnitudes (fabs, ?asum, ?sum1, ?_abs), possibly scaled
    by counts and positive constants, or a local that only ever receives such values.  The n = 1 shortcut `*est = v[0]` takes the sign of
    the single entry of inv(A)."""
    from ..run import AnalysisBroken
    f = prog.func(p + 'lacon2_')
    if f is None:
        raise AnalysisBroken('%slacon2_ not found' % p)
    chk.saw(unit=f.unit, func=f.unit + ':' + f.name)
    est = {nm: i for (nm, i, t) in f.params}.get('est')
    if est is None:
        raise AnalysisBroken('%s: parameter est not found' % f.name)
    defs = {}
    for x in f.body.walk():
        if x.k == 'Assign' and x.a['op'] == '=' and strip(x.c[0]).k == 'Ref':
            defs.setdefault(strip(x.c[0]).a.get('id'), []).append(x.c[1])

    def nonneg(e, depth=0):
        e = strip(e)
        if e.k in ('Int', 'Float'):
            try:
                return float(e.a.get('value')) >= 0
            except (TypeError, ValueError):
                return False
        if e.k == 'Cast':
            return nonneg(e.c[0], depth)
        if e.k == 'Call':
            return callee_name(e) in NONNEG_CALLS
        if e.k == 'Unary' and e.a['op'] == '*':       # *n, *est
            inner = strip(e.c[0])
            if inner.k == 'Ref' and inner.a.get('id') == est:
                return True         # its own previous value: decided at the stores
            return inner.k == 'Ref' and inner.a.get('name') in ('n',)
        if e.k == 'Binary' and e.a['op'] in ('*', '/', '+'):
            return nonneg(e.c[0], depth) and nonneg(e.c[1], depth)
        if e.k == 'Cond':
            return nonneg(e.c[1], depth) and nonneg(e.c[2], depth)
        if e.k == 'Ref' and e.a.get('dk') == 'VarDecl' and depth < 3:
            ds = defs.get(e.a.get('id'), [])
            return bool(ds) and all(nonneg(d, depth + 1) for d in ds)
        return False
    n = 0
    for x in f.body.walk():
        if x.k == 'Assign' and x.a['op'] == '=' and strip(x.c[0]).k == 'Unary' and strip(x.c[0]).a['op'] == '*' and strip(strip(x.c[0]).c[0]).k == 'Ref' \
                and strip(strip(x.c[0]).c[0]).a.get('id') == est:
            n += 1
            inst = '%s:estimate-is-a-magnitude@%d' % (f.name, n)
            if nonneg(x.c[1]):
                chk.ok(cid, inst, sample=pretty(x)[:60])
            else:
                chk.violate(cid, inst, loc(f, x), f.name,
                            '`%s` stores a value that is not a magnitude by construction: the estimate (and with it FERR / RCOND) takes the sign of an entry of '
                            'inv(A)' % pretty(x)[:60], cfgname=cfgname)
    if n < 3:
        raise AnalysisBroken('%s: %d stores to *est found, expected >= 3' % (f.name, n))
    return n


def alt_vector_rule(chk, cid, prog, p, cfgname):
    """The last stage of ?lacon2 tries Higham's alternating vector x_i = (-1)^(i+1) (1 + (i-1)/(n-1)), i = 1..n: a ramp from 1 to 2.  In the
    1-based loop the element stored is x[i-1]; the numerator of the ramp must be that same zero-based index.  With `i` the ramp runs from
    1 + 1/(n-1) to 2 + 1/(n-1), its 1-norm grows while the result is still scaled by 2/(3n): the safeguard value is inflated (x1.67 for n = 2)
    and can exceed the true norm, so RCOND falls below the true value for small matrices whose inverse has alternating columns."""
    from ..run import AnalysisBroken
    f = prog.func(p + 'lacon2_')
    if f is None:
        raise AnalysisBroken('%slacon2_ not found' % p)
    chk.saw(unit=f.unit, func=f.unit + ':' + f.name)
    n = 0
    for x in f.body.walk():
        if x.k != 'Assign' or x.a['op'] != '=':
            continue
        if not any(y.k == 'Ref' and y.a.get('name') == 'altsgn' for y in x.c[1].walk()):
            continue
        lhs = strip(x.c[0])
        while lhs.k == 'Member':
            lhs = strip(lhs.c[0])
        if lhs.k != 'Index':
            continue
        divs = [y for y in x.c[1].walk() if y.k == 'Binary' and y.a['op'] == '/']
        if not divs:
            continue

        def unc(e):
            e = strip(e)
            while e.k == 'Cast':
                e = strip(e.c[0])
            return e
        num = unc(divs[0].c[0])
        n += 1
        inst = '%s:ramp-uses-the-index-of-the-element-it-fills' % f.name
        if canon(num, ids=False) == canon(unc(lhs.c[1]), ids=False):
            chk.ok(cid, inst, sample=pretty(x)[:70])
        else:
            chk.violate(cid, inst, loc(f, x), f.name,
                        '`%s`: element %s is filled from the ramp position %s; the alternating test vector must run from 1 to 2 (position = zero-based '
                        'index of the element), otherwise the safeguard estimate is inflated and can exceed the true norm' % (pretty(x)[:70], pretty(lhs.c[1]), pretty(num)),
                        cfgname=cfgname)
    if n < 1:
        raise AnalysisBroken('%s: the alternating test vector was not found' % f.name)
    return n
