"""Compact IR produced by front.py from clang's JSON AST.

Every node is an `N`.  Leaves are resolved: a DeclRefExpr carries the id, kind
and name of the declaration it refers to (never just a spelling), a MemberExpr
the field name and whether it is `->`, a call its callee through the callee
expression.  Implicit casts and parentheses are removed; explicit casts stay
(kind 'Cast') because `(NCformat *) A->Store` matters to the access-path rules.
"""


class N(object):
    __slots__ = ('k', 't', 'c', 'a', 'line', 'mac')

    def __init__(self, k, t=None, c=None, a=None, line=0, mac=None):
        self.k = k          # kind
        self.t = t          # desugared qualType (string) or None
        self.c = c if c is not None else []    # children
        self.a = a if a is not None else {}    # attributes
        self.line = line    # expansion (use-site) line in the main file
        self.mac = mac      # name of the macro whose body spells this node, or None

    def __repr__(self):
        return 'N(%s%s%s)' % (self.k, (' ' + repr(self.a)) if self.a else '', (' #%d' % len(self.c)) if self.c else '')

    def walk(self):
        st = [self]
        while st:
            n = st.pop()
            yield n
            st.extend(reversed(n.c))

    # convenience -----------------------------------------------------
    @property
    def name(self):
        return self.a.get('name')

    @property
    def op(self):
        return self.a.get('op')


class Func(object):
    __slots__ = ('name', 'params', 'body', 'file', 'line', 'rtype', 'static', 'unit', 'locals', 'endline')

    def __init__(self):
        self.locals = {}


class Unit(object):
    __slots__ = ('path', 'rel', 'cfg', 'funcs', 'globals', 'statics', 'enums', 'records', 'typedefs', 'protos', 'sizes')


def pretty(n, depth=0):
    """C-like rendering of an expression/statement for reports."""
    k = n.k
    if k == 'Ref':
        return n.a['name']
    if k == 'Int':
        return str(n.a['value'])
    if k == 'Float':
        return str(n.a['value'])
    if k == 'Char':
        v = n.a['value']
        return "'%s'" % chr(v) if 32 <= v < 127 else "'\\x%02x'" % v
    if k == 'Str':
        return n.a['value']
    if k == 'Member':
        return pretty(n.c[0]) + ('->' if n.a['arrow'] else '.') + n.a['name']
    if k == 'Index':
        return '%s[%s]' % (pretty(n.c[0]), pretty(n.c[1]))
    if k == 'Unary':
        if n.a.get('postfix'):
            return '%s%s' % (pretty(n.c[0]), n.a['op'])
        return '%s%s' % (n.a['op'], pretty(n.c[0]))
    if k in ('Binary', 'Assign'):
        return '%s %s %s' % (pretty(n.c[0]), n.a['op'], pretty(n.c[1]))
    if k == 'Call':
        return '%s(%s)' % (pretty(n.c[0]), ', '.join(pretty(x) for x in n.c[1:]))
    if k == 'Cast':
        return '(%s)%s' % (n.t, pretty(n.c[0]))
    if k == 'Cond':
        return '%s ? %s : %s' % tuple(pretty(x) for x in n.c)
    if k == 'Sizeof':
        return 'sizeof(%s)' % n.a.get('argtype', '?')
    if k == 'Paren':
        return '(%s)' % pretty(n.c[0])
    if k == 'Return':
        return 'return %s' % (pretty(n.c[0]) if n.c else '')
    if k == 'Decl':
        return 'decl ' + ', '.join(v.a['name'] + ((' = ' + pretty(v.c[0])) if v.c else '') for v in n.c)
    if k == 'Var':
        return n.a['name']
    if k == 'InitList':
        return '{%s}' % ', '.join(pretty(x) for x in n.c)
    return '<%s>' % k
