"""R4 ledger: a destroyer releases every pointer field of the storage format it is written for.

The set of pointer fields comes from the struct definition in supermatrix.h as parsed (not from a frozen list);
the set of released fields from the free calls in the destroyer.  Exceptions are the two documented partial
destroyers, one line of reason each."""
from ..facts import strip, callee_name, loc
from .r4_own import BASE_FREE

PARTIAL = {
    'Destroy_CompCol_Permuted': {'nzval', 'rowind'},   # the permuted view shares nzval/rowind with the caller's A (sp_preorder)
    'Destroy_SuperMatrix_Store': None,                 # releases the Store header only, by contract
}


def struct_fields(unit, tname):
    tname = tname.replace('*', '').replace('struct', '').strip()
    td = unit.typedefs.get(tname)
    if td and td[1] and td[1] in unit.records:
        return unit.records[td[1]][1]
    for rid, (name, fields) in unit.records.items():
        if name == tname:
            return fields
    return None


def run(chk, prog, cid='R4.ledger', cfgname='tested'):
    chk.clause(cid, 'destroyer frees every pointer field of its format')
    n = 0
    for f in prog.all_funcs():
        if not f.name.startswith('Destroy_'):
            continue
        unit = prog.by_rel[f.unit]
        freed = {}      # struct type -> set(fields)
        frees_store = False
        aliases = {}    # local var id -> struct type (SCformat *Astore = A->Store)
        for nnode in f.body.walk():
            if nnode.k == 'Call' and callee_name(nnode) in BASE_FREE and len(nnode.c) > 1:
                a = strip(nnode.c[1])
                if a.k == 'Member':
                    base = a.c[0]
                    bt = (base.t or '').strip()
                    if a.a['name'] == 'Store':
                        frees_store = True
                    else:
                        freed.setdefault(bt, set()).add(a.a['name'])
        n += 1
        chk.saw(unit=f.unit, func=f.unit + ':' + f.name)
        if f.name in PARTIAL and PARTIAL[f.name] is None:
            if frees_store:
                chk.ok(cid, f.name, sample='releases the Store header only (by contract)')
            else:
                chk.violate(cid, '%s:Store' % f.name, loc(f, f.body), f.name, 'destroyer does not release A->Store', cfgname=cfgname)
            continue
        if not freed:
            chk.violate(cid, '%s:nothing' % f.name, loc(f, f.body), f.name, 'destroyer releases no field of the storage format', cfgname=cfgname)
            continue
        for bt, fields in sorted(freed.items()):
            sf = struct_fields(unit, bt)
            if sf is None:
                continue
            ptr = {name for (name, t) in sf if t and '*' in t}
            expect = ptr - (PARTIAL.get(f.name) or set())
            missing = sorted(expect - fields)
            inst = '%s:%s' % (f.name, bt.replace(' ', ''))
            if missing:
                for m in missing:
                    chk.violate(cid, '%s:%s' % (inst, m), loc(f, f.body), f.name,
                                'destroyer for %s never releases field `%s` (it releases %s): the array is leaked when the caller destroys the object'
                                % (bt, m, sorted(fields)), cfgname=cfgname)
            else:
                chk.ok(cid, inst, sample='releases %s' % sorted(fields))
        if not frees_store:
            chk.violate(cid, '%s:Store' % f.name, loc(f, f.body), f.name, 'destroyer does not release A->Store', cfgname=cfgname)
    return n
