"""C14 Sparse triangular solve / multiply kernels compute the documented operation  —  R3 (sp_?trsv, sp_?gemv), R10 (only the output is written), R9."""
from ..facts import Program
from ..run import Check, AnalysisBroken
from ..rules import spblas, r9_sibling, r10, kernels
from ..rules.effects import PathEffects
from . import _drv, c01

R9_UNITS = ['sp_blas2.c', 'sp_blas3.c', 'gstrs.c', 'myblas2.c']


def run(tier):
    chk = Check('C14', tier, level='other')
    chk.explanation = (
        'R3 on sp_?trsv for every documented spelling of uplo x trans x diag: accepted (no info < 0), the supernodal blocks solved with '
        '?trsv_(uplo, N|T|C, U for L / N for U), off-diagonal updates with ?gemv_ of the same transpose letter (C for conjugate-transpose in '
        'complex units), supernodes swept first-to-last for (L,N),(U,T/C) and last-to-first for (U,N),(L,T/C). R3 on sp_?gemv for every '
        'documented spelling of trans x alpha in {0, 2.5} x beta in {0, 1, 3} x incy in {1, -1} on a 7 x 11 matrix: accepted; lenx/leny = '
        '(ncol, nrow) for N/n and (nrow, ncol) otherwise; start of y for a negative stride; beta scaling over leny elements; alpha = 0 and '
        '(alpha = 0, beta = 1) short-cuts. R10: sp_?gemv writes only y, sp_?trsv only x/stat/info, sp_?gemm only c, ?gstrs only B\'s values/'
        'stat/info (sound may-write sets). ?gstrs permutation roles and kernel order (as C01.D2). Kernel rules: after every accumulating dense call (?gemv_/?gemm_ with beta = 1, ?matvec) into the scratch vector of sp_?trsv / ?gstrs every path to the next such call or to the return passes a loop that zeroes it; every cursor advanced by a stride parameter in sp_?gemv is advanced unconditionally once per iteration. The bundled kernels ?lsolve / ?matvec (used when no vendor BLAS is linked): the column pointers of each unrolled block start at M0 + j*ldm (+ j+1 for the triangular solve) and M0 advances by the block width, decided by linear-form evaluation of the pointer assignments. R9 siblings. Not decided: the computed '
        'values; independence of right-hand-side columns in the level-3 path.')
    cfgs = ['tested'] if tier == 'quick' else ['tested', 'cblas', 'idx64']
    chk.configs = cfgs
    for cfgname in cfgs:
        prog = Program.load(which=('SRC',), cfg=cfgname)
        eff = PathEffects(prog)
        from ..rules import spblas as _sb
        _sb.conjugate_branch_rule(chk, 'C14.conj', prog, cfgname)
        from ..rules import kernels as _kc
        _kc.paired_cursor_rule(chk, 'C14.cursor', prog, ['sp_%strsv' % q for q in 'sdcz'], cfgname, floor=4)
        chk.clause('C14.trsv', 'R3 dispatch table of sp_?trsv (D1, D3)')
        chk.clause('C14.gemv', 'R3 lengths / short-cuts / spellings of sp_?gemv (D1, D3)')
        chk.clause('C14.D2', 'R10 only the output operand is written')
        chk.clause('C01.D2', 'R3/R7 permutation roles and solve order of ?gstrs')
        n1 = n2 = 0
        for p in _drv.PRECS:
            n1 += spblas.trsv_oracle(chk, 'C14.trsv', prog, eff, p, cfgname)
            n2 += spblas.gemv_oracle(chk, 'C14.gemv', prog, eff, p, cfgname)
            ro = {'stat': ['->'], 'info': ['[]']}
            r10.maywrite(chk, 'C14.D2', prog, eff, 'sp_' + p + 'gemv', {'y': ['[]']}, cfgname)
            r10.maywrite(chk, 'C14.D2', prog, eff, 'sp_' + p + 'trsv', dict(ro, x=['[]']), cfgname)
            r10.maywrite(chk, 'C14.D2', prog, eff, 'sp_' + p + 'gemm', {'c': ['[]']}, cfgname)
            r10.maywrite(chk, 'C14.D2', prog, eff, p + 'gstrs', dict(ro, B=['->Store->nzval']), cfgname)
            c01.gstrs_oracle(chk, prog, eff, p, cfgname)
        kernels.run_basic(chk, 'C14.kern', prog, cfgname, ('trsv', 'gemv', 'solve'), floor_scratch=8, floor_cursor=10)
        chk.clause('C14.kern.const', 'locals that stand for constants are not also used as scratch')
        kernels.constant_names_rule(chk, 'C14.kern.const', prog, cfgname)
        chk.clause('C14.kern.sweep', 'sp_?trsv solves every supernode; sp_?gemv assigns zero for beta = 0')
        for p in _drv.PRECS:
            kernels.supernode_sweep_rule(chk, 'C14.kern.sweep', prog, p, cfgname)
            kernels.beta_zero_rule(chk, 'C14.kern.sweep', prog, p, cfgname)
        from ..rules import r12_supernodal
        chk.clause('C14.kern.index', 'dense kernels of the solve routines are applied to the right part of each supernode block (polynomial index domain)')
        for p in _drv.PRECS:
            r12_supernodal.run_solve(chk, 'C14.kern.index', prog, p + 'gstrs', cfgname)
            r12_supernodal.run_solve(chk, 'C14.kern.index', prog, 'sp_%strsv' % p, cfgname)
        chk.clause('C14.kern.unrolled', 'column pointers of the bundled unrolled kernels start where the block layout puts them')
        nu = sum(kernels.unrolled_kernel_rule(chk, 'C14.kern.unrolled', prog, p, cfgname) for p in _drv.PRECS)
        if nu < 80:
            raise AnalysisBroken('C14: %d column-pointer obligations in ?lsolve / ?matvec, floor 80' % nu)
        if n1 < 4 * 30 or n2 < 4 * 6:
            raise AnalysisBroken('C14: %d sp_?trsv leaves, %d sp_?gemv leaves' % (n1, n2))
        if cfgname == 'tested':
            r9_sibling.run(chk, prog, 'C14.D4', {p + u for p in 'dz' for u in R9_UNITS}, cfgname)
    return chk.finish()
