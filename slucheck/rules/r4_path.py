"""R4.path  use of an access path after it was released, within one statement list.

R4 tracks blocks held in local variables.  Blocks reached through a path (`LUfactors->L`, `Astore->colptr`) are released by statements such as
`SUPERLU_FREE(LUfactors->L)`; a later statement of the same list that still mentions the very same path (same canonical text, roots not
reassigned in between) dereferences or re-releases freed memory: `SUPERLU_FREE(h->L); Destroy_SuperNode_Matrix(h->L);`.  Syntactic must-alias
only (identical path text), so every report is definite."""
from ..facts import strip, callee_name, canon, loc, root_ref, const_value
from ..ir import pretty

FREES = {'superlu_free', 'free'}


def run(chk, cid, prog, cfgname, units_prefix=('SRC/', 'FORTRAN/', 'EXAMPLE/')):
    chk.clause(cid, 'no access path is used after the statement that released it')
    n = 0
    for f in prog.all_funcs():
        if not f.unit.startswith(units_prefix):
            continue
        for blk in f.body.walk():
            if blk.k != 'Block':
                continue
            for i, st in enumerate(blk.c):
                s0 = strip(st)
                if not (s0.k == 'Call' and callee_name(s0) in FREES and len(s0.c) == 2):
                    continue
                arg = strip(s0.c[1])
                if arg.k not in ('Member',) or root_ref(arg) is None:
                    continue
                path = canon(arg)
                rid = root_ref(arg).a.get('id')
                n += 1
                chk.saw(unit=f.unit, func=f.unit + ':' + f.name)
                bad = None
                for later in blk.c[i + 1:]:
                    l0 = strip(later)
                    # reassignment of the path or of its root ends the window
                    if l0.k == 'Assign' and (canon(l0.c[0]) == path or (strip(l0.c[0]).k == 'Ref' and strip(l0.c[0]).a.get('id') == rid)):
                        if any(canon(y) == path for y in l0.c[1].walk()):
                            bad = later
                        break
                    if any(y.k == 'Member' and canon(y) == path for y in later.walk()):
                        bad = later
                        break
                inst = '%s:%s:released-path:%s@%d' % (f.unit, f.name, pretty(arg)[:30], n)
                if bad is None:
                    chk.ok(cid, inst, nontrivial=False)
                else:
                    chk.violate(cid, '%s:use-after-release:%s' % (f.name, pretty(arg)[:40]), loc(f, bad), f.name,
                                '`%s` is released at line %d and `%s` still uses it afterwards (the path is not reassigned in between)'
                                % (pretty(arg)[:40], st.line or s0.line, pretty(bad)[:60]), cfgname=cfgname)
    return n


ALLOCS = {'superlu_malloc', 'malloc', 'calloc', 'intMalloc', 'int32Malloc', 'intCalloc', 'int32Calloc', 'floatMalloc', 'floatCalloc',
          'doubleMalloc', 'doubleCalloc', 'complexMalloc', 'complexCalloc', 'doublecomplexMalloc', 'doublecomplexCalloc',
          'singlecomplexMalloc', 'singlecomplexCalloc'}


def field_held_rule(chk, cid, prog, cfgname, units_prefix=('SRC/',), floor=4):
    """A block that a status-returning routine parks in a field of a caller-owned structure (`Glu->expanders = SUPERLU_MALLOC(..)`) is the
    routine's to release whenever it does not report success: the caller sees a non-zero status (a size answer for lwork == -1, or a
    failure) and never runs the epilogue that would release the field.  Must-analysis over the CFG: at every return whose value is not the
    constant 0, on every path from the allocating store, a release of that very path has been executed."""
    chk.clause(cid, 'a block parked in a caller-owned structure is released on every return that does not report success')
    n = 0
    for f in prog.all_funcs():
        if not f.unit.startswith(units_prefix) or f.rtype is None or f.rtype.strip() == 'void':
            continue
        pids = {pid for (_, pid, _) in f.params}
        sites = []
        for a in f.body.walk():
            if a.k == 'Assign' and a.a['op'] == '=' and strip(a.c[0]).k == 'Member':
                r = root_ref(a.c[0])
                rhs = strip(a.c[1])
                if r is not None and r.a.get('id') in pids and rhs.k == 'Call' and callee_name(rhs) in ALLOCS:
                    sites.append(a)
        if not sites:
            continue
        cfg = prog.cfg(f)
        for a in sites:
            path = canon(a.c[0])
            n += 1
            chk.saw(unit=f.unit, func=f.unit + ':' + f.name)
            # state: None = not allocated yet, 'held', 'freed'; join: held wins (may-held)
            IN = {cfg.entry.id: None}
            work = [cfg.entry.id]
            bad = []
            nret = 0
            order = {None: 0, 'freed': 1, 'held': 2}
            seen_ret = set()
            while work:
                nid = work.pop()
                node = cfg.nodes[nid]
                st = IN[nid]
                if node.ast is not None and node.kind in ('stmt', 'cond', 'return', 'switch'):
                    for x in node.ast.walk():
                        if x is a:
                            st = 'held'
                        elif x.k == 'Call' and callee_name(x) in FREES and len(x.c) == 2 and canon(x.c[1]) == path and st == 'held':
                            st = 'freed'
                    if node.kind == 'return' and st == 'held':
                        v = const_value(node.ast.c[0]) if node.ast.c else None
                        if v != 0 and nid not in seen_ret:
                            seen_ret.add(nid)
                            bad.append(node.ast)
                for (s, lab) in node.succ:
                    if s not in IN:
                        IN[s] = st
                        work.append(s)
                    elif order[st] > order[IN[s]]:
                        IN[s] = st
                        work.append(s)
            nret = sum(1 for nd in cfg.nodes if nd.kind == 'return' and IN.get(nd.id) is not None)
            inst = '%s:%s:parked:%s' % (f.unit, f.name, pretty(a.c[0])[:40])
            if not bad:
                chk.ok(cid, inst, sample='%d returns reachable after the allocation; all that are not `return 0` release it first' % nret)
            for r in sorted(bad, key=lambda r: r.line)[:3]:
                chk.violate(cid, '%s:parked-block-not-released:%s@%s' % (f.name, pretty(a.c[0])[:40], pretty(r)[:50].replace(' ', '')), loc(f, r), f.name,
                            '`%s` (line %d) may still hold its block at `%s` (line %d), which does not report success: the caller returns on the non-zero '
                            'status without the epilogue that releases it, so the block is lost'
                            % (pretty(a.c[0]), a.line, pretty(r)[:70], r.line), cfgname=cfgname)
    if n < floor:
        from ..run import AnalysisBroken
        raise AnalysisBroken('%s: %d parked allocations found, floor %d' % (cid, n, floor))
    return n
