"""R2 `argcheck`: argument-screening decision tables.

In a routine f the statements from entry to the first
    if (*info != 0) { ...; input_error/xerbla_(...); return; }
form a decision list  cond_i -> info = -k_i .  The table is extracted from the
AST (not from text): each store of a negative constant into *info (or of a
positive constant into a local `info` later handed to xerbla_/input_error) with
the branch conditions that guard it, local aliases (Bstore = B->Store, notran =
(trans == NOTRANS), rowequ = ...) substituted by their single definition.
"""
from ..facts import strip, canon, callee_name, root_ref, const_value, loc
from ..ir import N, pretty

ERROR_REPORTERS = {'input_error', 'xerbla_', 'input_error_dist'}
ALLOCATORS = {'superlu_malloc', 'malloc', 'calloc', 'intMalloc', 'int32Malloc', 'intCalloc', 'int32Calloc',
              'floatMalloc', 'floatCalloc', 'doubleMalloc', 'doubleCalloc', 'singlecomplexMalloc', 'singlecomplexCalloc', 'complexMalloc', 'complexCalloc',
              'doublecomplexMalloc', 'doublecomplexCalloc', 'StatInit', 'sp_preorder', 'SetIWork'}
PURE_CALLS = {'strncmp', 'strcmp', 'dmach', 'smach', 'dlamch_', 'slamch_', 'lsame_', 'sp_ienv', 'fabs', 'fabsf', 'SuperLU_timer_',
              'tolower', 'toupper', 'strlen', 'printf', 'fprintf', 'fflush'}


def is_info_test(cond, info_id):
    """*info != 0, *info, info != 0, info  (non-zero test of the info object)"""
    c = strip(cond)
    if c.k == 'Binary' and c.a['op'] == '!=' and const_value(c.c[1]) == 0:
        c = strip(c.c[0])
    if c.k == 'Unary' and c.a['op'] == '*':
        c = strip(c.c[0])
    return c.k == 'Ref' and c.a.get('id') == info_id


def is_info_lvalue(lv, info_id):
    lv = strip(lv)
    if lv.k == 'Unary' and lv.a['op'] == '*':
        lv = strip(lv.c[0])
    return lv.k == 'Ref' and lv.a.get('id') == info_id


def find_info(f):
    """the info object: a parameter named info (pointer) or a local int named info"""
    for (name, pid, t) in f.params:
        if name == 'info':
            return pid, True
    for vid, v in f.locals.items():
        if v.a['name'] == 'info':
            return vid, False
    return None, None


def contains_call(n, names):
    for x in n.walk():
        if x.k == 'Call' and callee_name(x) in names:
            return True
    return False


def contains_return(n):
    return any(x.k == 'Return' for x in n.walk())


class Table(object):
    def __init__(self, f):
        self.f = f
        self.rows = []        # dicts: k, guard (list of (canon, polarity, node)), store node, chain id, order index
        self.region = []      # top-level statements before the screening if
        self.errblock = None
        self.info_id = None
        self.defs = {}


def single_defs(f, upto_stmts):
    """locals assigned exactly once in the whole function (by `v = e` or initialiser) whose definition lies in the region:
    id -> defining expression"""
    count = {}
    where = {}
    texts = {}

    def define(vid, rhs, plain=True):
        tx = canon(rhs)
        if plain and vid in texts and texts[vid] == tx:
            return                      # re-assignment of the very same expression (ldb = Bstore->lda twice)
        count[vid] = count.get(vid, 0) + (1 if plain else 2)
        if vid not in where:
            where[vid] = rhs
            texts[vid] = tx
    # &v handed to a Fortran-style external kernel at a position it only reads (dtrsm_(..., &ldb)) is not a definition
    from .effects import external_writes
    byref_reads = set()
    for n in f.body.walk():
        if n.k == 'Call':
            name = callee_name(n)
            if name and name.endswith('_'):
                wr = external_writes(name, len(n.c) - 1)
                if wr is not None:
                    for i, a in enumerate(n.c[1:]):
                        a = strip(a)
                        if i not in wr and a.k == 'Unary' and a.a['op'] == '&':
                            byref_reads.add(id(a))
    def region_walk():
        # definitions are counted inside the screening region only: conditions there are evaluated before anything later runs
        for st in upto_stmts:
            for n in st.walk():
                yield n
    for n in region_walk():
        if n.k == 'Var' and n.c:
            define(n.a['id'], n.c[0])
        elif n.k == 'Assign':
            l = strip(n.c[0])
            if l.k == 'Ref':
                define(l.a['id'], n.c[1], n.a['op'] == '=')
        elif n.k == 'Unary' and n.a['op'] in ('++', '--', '&'):
            l = strip(n.c[0])
            if l.k == 'Ref' and not (n.a['op'] == '&' and id(n) in byref_reads):
                count[l.a['id']] = count.get(l.a['id'], 0) + 2
    region_nodes = set()
    for s in upto_stmts:
        for n in s.walk():
            region_nodes.add(id(n))
    return {vid: e for vid, e in where.items() if count.get(vid) == 1 and id(e) in region_nodes}


def subst(e, defs, depth=0):
    """expression with single-definition locals replaced by their definitions (bounded depth)"""
    e = strip(e)
    if depth > 6:
        return e
    if e.k == 'Ref' and e.a.get('id') in defs:
        return subst(defs[e.a['id']], defs, depth + 1)
    if not e.c:
        return e
    m = N(e.k, e.t, [subst(c, defs, depth) for c in e.c], e.a, e.line, e.mac)
    return m


def norm(e):
    """canonical text of a condition: names (no ids), casts dropped, commutative operands sorted, !(a) pushed in,
    MAX/MIN macro shapes folded"""
    e = strip(e)
    k = e.k
    if k == 'Unary' and e.a['op'] == '!':
        return neg(e.c[0])
    if k == 'Binary':
        op = e.a['op']
        a, b = norm(e.c[0]), norm(e.c[1])
        if op in ('==', '!=', '+', '*', '&&', '||'):
            a, b = sorted((a, b))
        elif op == '>':
            a, b, op = b, a, '<'
        elif op == '>=':
            a, b, op = b, a, '<='
        return '(%s %s %s)' % (a, op, b)
    if k == 'Cond':
        # (a) > (b) ? (a) : (b)   ->  max(a,b)
        c = strip(e.c[0])
        if c.k == 'Binary' and c.a['op'] in ('>', '<', '>=', '<='):
            x, y = norm(c.c[0]), norm(c.c[1])
            t, f = norm(e.c[1]), norm(e.c[2])
            if {x, y} == {t, f}:
                bigger = (c.a['op'] in ('>', '>=')) == (t == x)
                return '%s(%s)' % ('max' if bigger else 'min', ', '.join(sorted((x, y))))
        return '(%s ? %s : %s)' % tuple(norm(x) for x in e.c)
    if k == 'Call':
        return '%s(%s)' % (callee_name(e) or norm(e.c[0]), ', '.join(norm(x) for x in e.c[1:]))
    if k == 'Unary':
        return '%s%s' % (e.a['op'], norm(e.c[0]))
    if k == 'Member':
        return norm(e.c[0]) + ('->' if e.a['arrow'] else '.') + e.a['name']
    if k == 'Index':
        return '%s[%s]' % (norm(e.c[0]), norm(e.c[1]))
    if k == 'Ref':
        return e.a['name']
    if k == 'Int':
        return str(e.a['value'])
    if k == 'Float':
        return repr(float(e.a['value']))
    if k == 'Char':
        return "'%s'" % chr(e.a['value'])
    if k == 'Str':
        return e.a['value']
    return canon(e, ids=False)


NEG = {'==': '!=', '!=': '==', '<': '>=', '>=': '<', '>': '<=', '<=': '>'}


def neg(e):
    e = strip(e)
    if e.k == 'Unary' and e.a['op'] == '!':
        return norm(e.c[0])
    if e.k == 'Binary' and e.a['op'] in NEG:
        m = N('Binary', e.t, e.c, dict(e.a, op=NEG[e.a['op']]), e.line, e.mac)
        return norm(m)
    if e.k == 'Binary' and e.a['op'] in ('&&', '||'):
        a, b = sorted((neg(e.c[0]), neg(e.c[1])))
        return '(%s %s %s)' % (a, '||' if e.a['op'] == '&&' else '&&', b)
    return '!' + norm(e)


def dnf(e, positive=True):
    """list of disjuncts, each a list of atom nodes with polarity: [[(node, pol), ...], ...]"""
    e = strip(e)
    if e.k == 'Unary' and e.a['op'] == '!':
        return dnf(e.c[0], not positive)
    if e.k == 'Binary' and e.a['op'] in ('&&', '||'):
        is_or = (e.a['op'] == '||') == positive
        l, r = dnf(e.c[0], positive), dnf(e.c[1], positive)
        if is_or:
            return l + r
        out = [x + y for x in l for y in r]
        return out if len(out) <= 64 else [[(e, positive)]]
    return [[(e, positive)]]


def atom_text(a):
    node, pol = a
    return norm(node) if pol else neg(node)


def extract(f):
    """returns Table or None when the function has no screening block"""
    info_id, is_param = find_info(f)
    if info_id is None:
        return None
    top = f.body.c
    idx = None
    for i, s in enumerate(top):
        if s.k == 'If' and is_info_test(s.c[0], info_id) and contains_call(s.c[1], ERROR_REPORTERS) and contains_return(s.c[1]):
            idx = i
            break
    if idx is None:
        return None
    t = Table(f)
    t.info_id = info_id
    t.rowconds = set()
    t.region = top[:idx]
    t.errblock = top[idx]
    t.defs = single_defs(f, t.region)
    # never substitute info itself
    t.defs.pop(info_id, None)
    chain = [0]

    def walk(s, guard, chain_id):
        if s.k == 'Block':
            for x in s.c:
                walk(x, guard, chain_id)
        elif s.k == 'If':
            cond = s.c[0]
            th = s.c[1]
            while th.k == 'Block' and len(th.c) == 1:
                th = th.c[0]
            if th.k == 'Assign' and is_info_lvalue(th.c[0], info_id):
                t.rowconds.add(id(cond))        # `if (cond) info = -k;` - a screening row: its else side means "that argument is legal"
            if chain_id is None:
                chain[0] += 1
                cid = chain[0]
            else:
                cid = chain_id
            walk_branch(s.c[1], guard + [(cond, True)], cid)
            if len(s.c) > 2:
                els = s.c[2]
                if els.k == 'If':
                    walk(els, guard + [(cond, False)], cid)
                else:
                    walk_branch(els, guard + [(cond, False)], None)
        elif s.k in ('For', 'While', 'Do'):
            body = s.c[3] if s.k == 'For' else (s.c[1] if s.k == 'While' else s.c[0])
            walk(body, guard + [(s, None)], None)
        elif s.k == 'Assign' and is_info_lvalue(s.c[0], info_id):
            v = const_value(s.c[1])
            t.rows.append({'k': v, 'guard': list(guard), 'node': s, 'chain': chain_id, 'order': len(t.rows)})
        else:
            for n in s.walk():
                if n is not s and n.k == 'Assign' and is_info_lvalue(n.c[0], info_id):
                    t.rows.append({'k': const_value(n.c[1]), 'guard': list(guard), 'node': n, 'chain': chain_id, 'order': len(t.rows)})

    def walk_branch(s, guard, cid):
        # a branch body: direct info store keeps the chain id; nested statements start new chains
        if s.k == 'Block':
            for x in s.c:
                walk_branch(x, guard, cid)
        elif s.k == 'Assign':
            walk(s, guard, cid)
        else:
            walk(s, guard, None)

    for s in t.region:
        walk(s, [], None)
    return t


def row_disjuncts(t, row):
    """the innermost positive guard expanded to DNF (after alias substitution); outer guards as context atoms"""
    guards = [(c, p) for (c, p) in row['guard'] if p is not None]
    if not guards:
        return [], []
    inner = None
    for (c, p) in reversed(guards):
        if p:
            inner = (c, p)
            break
    if inner is None:
        inner = guards[-1]
    ctx = [g for g in guards if g[0] is not inner[0]]
    d = dnf(subst(inner[0], t.defs), inner[1])
    ctx_atoms = []
    for (c, p) in ctx:
        sc = subst(c, t.defs)
        if id(c) in getattr(t, 'rowconds', ()):
            t.rowconds.add(id(sc))          # identity of a screening row survives the alias substitution
        ctx_atoms.append((sc, p))
    return d, ctx_atoms


def params_mentioned(f, e, derived):
    """set of parameter positions (1-based) mentioned by expression e, through derived locals"""
    pos = {pid: i + 1 for i, (_, pid, _) in enumerate(f.params)}
    out = set()
    for r in e.walk():
        if r.k == 'Ref':
            vid = r.a.get('id')
            if vid in pos:
                out.add(pos[vid])
            elif vid in derived:
                out |= derived[vid]
    return out


def derive_params(f, region):
    """local id -> set of parameter positions its value may derive from (flow-insensitive, within the region)"""
    pos = {pid: i + 1 for i, (_, pid, _) in enumerate(f.params)}
    der = {}
    assigns = []
    for s in region:
        for n in s.walk():
            if n.k == 'Var' and n.c:
                assigns.append((n.a['id'], n.c[0]))
            elif n.k == 'Assign':
                l = strip(n.c[0])
                if l.k == 'Ref':
                    assigns.append((l.a['id'], n.c[1]))
    changed = True
    while changed:
        changed = False
        for vid, rhs in assigns:
            s = set()
            for r in rhs.walk():
                if r.k == 'Ref':
                    i = r.a.get('id')
                    if i in pos:
                        s.add(pos[i])
                    elif i in der:
                        s |= der[i]
            cur = der.setdefault(vid, set())
            if not s <= cur:
                cur |= s
                changed = True
    return der


def precedence(prog, f, t):
    """First illegal argument wins: no store of an error code into info is reachable while info may already hold one.

    May-analysis over the CFG restricted to the screening region (entry .. the error-exit test): `info = 0` and the true edge of
    `info == 0` (false edge of `info != 0` / `info`) clear the fact, a store of a non-zero code sets it.  Returns
    (number of code stores examined, [(store node, earlier store node)]).
    """
    cfg = prog.cfg(f)
    info_id = t.info_id
    stop = t.errblock.c[0]

    def stores(ast):
        out = []
        for n in ast.walk():
            if n.k == 'Assign' and is_info_lvalue(n.c[0], info_id):
                out.append(n)
        return out

    def zero_test(ast):
        """+1: true edge means info == 0;  -1: false edge means info == 0;  0: not an info test"""
        c = strip(ast)
        if c.k == 'Binary' and c.a['op'] in ('==', '!=') and const_value(c.c[1]) == 0:
            l = strip(c.c[0])
            if l.k == 'Unary' and l.a['op'] == '*':
                l = strip(l.c[0])
            if l.k == 'Ref' and l.a.get('id') == info_id:
                return 1 if c.a['op'] == '==' else -1
            return 0
        if is_info_test(c, info_id):
            return -1
        return 0

    IN = {cfg.entry.id: None}       # None = info holds no code; else the earlier store node
    work = [cfg.entry.id]
    bad = {}
    seen_stores = set()
    while work:
        nid = work.pop()
        node = cfg.nodes[nid]
        st = IN[nid]
        if node.ast is not None and node.kind == 'cond' and node.ast is stop:
            continue
        if node.ast is not None and node.kind in ('stmt', 'return'):
            for s in stores(node.ast):
                v = const_value(s.c[1])
                if v == 0:
                    st = None
                else:
                    seen_stores.add(id(s))
                    if st is not None and id(s) not in bad:
                        bad[id(s)] = (s, st)
                    st = s
        zt = zero_test(node.ast) if (node.kind == 'cond' and node.ast is not None) else 0
        for (succ, lab) in node.succ:
            out = st
            if zt == 1 and lab is True:
                out = None
            elif zt == -1 and lab is False:
                out = None
            elif zt == 1 and lab is False and st is None:
                out = st
            if succ not in IN:
                IN[succ] = out
                work.append(succ)
            elif IN[succ] is None and out is not None:
                IN[succ] = out
                work.append(succ)
    return len(seen_stores), sorted(bad.values(), key=lambda p: p[0].line)
