"""C16 Matrix file readers  —  structural rules (index base, buffers, formats, extents), R4, R9 + twins.  Most of the property is not decidable statically."""
from ..facts import Program
from ..run import Check, AnalysisBroken
from ..rules import readers, r9_sibling, extent
from . import c19


def twins(prog):
    out = []
    for p in 'sdcz':
        hb, rb = 'SRC/%sreadhb.c' % p, 'SRC/%sreadrb.c' % p
        for fn in ('%sDumpLine' % p, '%sParseIntFormat' % p, '%sParseFloatFormat' % p, 'ReadVector', '%sReadValues' % p, 'FormFullA'):
            out.append((hb, fn, rb, fn, 'same'))
        out.append(('SRC/%sreadMM.c' % p, '%sreadrhs' % p, 'SRC/%sreadtriple.c' % p, '%sreadrhs' % p, 'same'))
    return out


def run(tier):
    chk = Check('C16', tier, level='other')
    chk.explanation = (
        'Structural rules on the 16 readers (+ EXAMPLE/dreadtriple_noheader.c): every index parsed from a Harwell/Rutherford-Boeing file is '
        'stored as value - 1 (ReadVector); coordinate readers decrement each scanned index array exactly once, only when the file is not '
        'zero-based; fgets sizes and %Nc widths fit the local buffers and constant terminator stores are in range; every scanf conversion '
        'matches the pointee type of its argument (so %lf / %f cannot be swapped between precisions); arrays filled side by side by one scanf '
        'have equal allocated extents; ?readMM lets through exactly the arithmetic keyword of its own data type; every access to the line buffer '
        'inside the per-field loop of ReadVector / ?ReadValues depends on the field counter; the arrays that receive the symmetric expansion '
        'are sized 2*nnz minus a counted number of stored diagonal entries (or 2*nnz), never a closed form; raw allocations are sized with an '
        'element at least as large as the pointee. R4: every temporary released, FormFullA releases what it replaces. R9: s=d, c=z readers agree; the '
        'HB and RB copies of the parsing helpers and FormFullA agree (twins). Not decided (most of the property): that values and pattern '
        'equal the file contents, field slicing within a line.')
    cfgs = ['tested'] if tier == 'quick' else ['tested', 'idx64']
    chk.configs = cfgs
    for cfgname in cfgs:
        prog = Program.load(which=('SRC', 'EXAMPLE'), cfg=cfgname)
        n = readers.run(chk, 'C16', prog, cfgname)
        if n < 17:
            raise AnalysisBroken('C16: %d reader units found, floor 17' % n)
        readers.mm_header_rule(chk, 'C16.mmhdr', prog, cfgname)
        readers.field_slice_rule(chk, 'C16.slice', prog, cfgname)
        readers.scan_width_rule(chk, 'C16.scanw', prog, cfgname)
        chk.clause('C16.header', 'the fixed-column header records of Harwell-Boeing / Rutherford-Boeing files are consumed field by field as the formats define them')
        readers.header_layout_rule(chk, 'C16.header', prog, cfgname)
        readers.precision_purity_rule(chk, 'C16.prec', prog, cfgname)
        if readers.terminator_rule(chk, 'C16.term', prog, cfgname) < 16:
            raise AnalysisBroken('C16: fewer than 16 header-field conversions found')
        if readers.scatter_alignment_rule(chk, 'C16.scatter', prog, cfgname) < 8:
            raise AnalysisBroken('C16: fewer than 8 triplet scatter blocks found')
        readers.expansion_capacity_rule(chk, 'C16.symcap', prog, cfgname)
        extent.elem_size_rule(chk, 'C16.elem', prog, {u.rel for u in prog.units if readers.READER_UNITS_PAT.search(u.rel)}, cfgname, floor=20)
        chk.floor('C16.base', 16 * (cfgs.index(cfgname) + 1))
        chk.floor('C16.buf', 60 * (cfgs.index(cfgname) + 1))
        fnames = {f.name for f in prog.all_funcs() if readers.READER_UNITS_PAT.search(f.unit)}
        c19.run_r4(chk, prog, cfgname, funcs=fnames, cid='C16.D3')
        if cfgname == 'tested':
            units = {'%sread%s.c' % (p, k) for p in 'dz' for k in ('hb', 'rb', 'MM', 'triple')}
            r9_sibling.run(chk, prog, 'C16.D4', units, cfgname)
        r9_sibling.run_twins(chk, prog, 'C16.twins', twins(prog), cfgname)
    return chk.finish()
