#!/usr/bin/env python3
"""Self-test helper: apply one catalogue edit (or a patch file) to a scratch copy of
/repo's sources, run checks against the copy (SLU_REPO=<copy>), remove the copy.

  tools/mutate.py --edit FILE OLD NEW -- C09 C18      (exact, unique string replacement)
  tools/mutate.py --patch p.diff -- C05
  tools/mutate.py --id M18 [-- C09]                   (entry of tools/catalogue.py)
"""
import sys, os, shutil, subprocess, tempfile
VERIF = os.path.dirname(os.path.dirname(os.path.abspath(__file__)))
sys.path.insert(0, VERIF)


def scratch():
    d = tempfile.mkdtemp(prefix='slu_scratch_')
    for sub in ('SRC', 'CBLAS', 'FORTRAN', 'EXAMPLE'):
        shutil.copytree(os.path.join('/repo', sub), os.path.join(d, sub))
    return d


def apply_edits(d, edits):
    for ed in edits:
        rel, old, new = ed[0], ed[1], ed[2]
        p = os.path.join(d, rel)
        s = open(p).read()
        if len(ed) > 3 and ed[3] == 'all':
            if s.count(old) < 1:
                raise SystemExit('edit of %s: pattern not found: %r' % (rel, old[:80]))
            open(p, 'w').write(s.replace(old, new))
            continue
        if s.count(old) != 1:
            raise SystemExit('edit of %s: pattern occurs %d times (need exactly 1): %r' % (rel, s.count(old), old[:80]))
        open(p, 'w').write(s.replace(old, new))


def run_checks(d, props, tier='quick'):
    env = dict(os.environ, SLU_REPO=d)
    res = {}
    for p in props:
        r = subprocess.run([os.path.join(VERIF, 'check'), p, '--tier', tier], env=env, stdout=subprocess.PIPE, stderr=subprocess.STDOUT, cwd=VERIF)
        res[p] = (r.returncode, r.stdout.decode())
    return res


def compiles(d, rels):
    for rel in rels:
        r = subprocess.run(['clang', '-fsyntax-only', '-std=c99', '-I%s/SRC' % d, '-I%s/CBLAS' % d, '-DUSE_VENDOR_BLAS', '-DNDEBUG', '-Wno-everything',
                            os.path.join(d, rel)], stdout=subprocess.PIPE, stderr=subprocess.STDOUT)
        if r.returncode != 0:
            return False, r.stdout.decode()[-1500:]
    return True, ''


def main():
    a = sys.argv[1:]
    edits, patch, props, tier = [], None, [], 'quick'
    if '--' in a:
        i = a.index('--'); props = a[i + 1:]; a = a[:i]
    i = 0
    verbose = False
    while i < len(a):
        if a[i] == '--edit':
            edits.append((a[i + 1], a[i + 2], a[i + 3])); i += 4
        elif a[i] == '--patch':
            patch = a[i + 1]; i += 2
        elif a[i] == '--id':
            from tools import catalogue
            ent = catalogue.get(a[i + 1])
            edits += ent['edits']
            if not props:
                props = ent['expect'] or ent['silent']
            i += 2
        elif a[i] == '--tier':
            tier = a[i + 1]; i += 2
        elif a[i] == '-v':
            verbose = True; i += 1
        else:
            i += 1
    d = scratch()
    try:
        if patch:
            r = subprocess.run(['patch', '-p1', '-d', d, '-i', os.path.abspath(patch)], stdout=subprocess.PIPE, stderr=subprocess.STDOUT)
            if r.returncode != 0:
                print(r.stdout.decode()); return 2
        apply_edits(d, edits)
        ok, msg = compiles(d, sorted({e[0] for e in edits}))
        if not ok:
            print('MUTANT DOES NOT COMPILE\n' + msg); return 2
        res = run_checks(d, props, tier)
        rc = 0
        for p, (code, out) in res.items():
            lines = [l for l in out.split('\n') if 'VIOLATION' in l or 'ANALYSIS-BROKEN' in l or ': %s: ' % p in l]
            print('%s exit=%d' % (p, code))
            for l in (out.split('\n') if verbose else lines):
                print('   ' + l.replace(d, '<scratch>'))
            rc = max(rc, code)
        return rc
    finally:
        shutil.rmtree(d, ignore_errors=True)


if __name__ == '__main__':
    sys.exit(main())
