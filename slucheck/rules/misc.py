"""Small repository-specific consistency rules (each with the belief it encodes)."""
from ..facts import strip, callee_name, const_value, loc, root_ref, canon
from ..ir import pretty


def relax_end_inclusive(chk, cid, prog, cfgname):
    """relax_end[j] holds the LAST column of the relaxed supernode that starts at j (relax_snode / heap_relax_snode write it so,
    ?gstrf / ?gsitrf / mark_relax read it).  Hence every loop that runs a column index up to a value read from relax_end[] must
    include that value (`<=`)."""
    chk.clause(cid, 'loops up to relax_end[] are inclusive')
    n = 0
    for f in prog.all_funcs():
        if f.unit.startswith(('CBLAS/', 'FORTRAN/')):
            continue
        ends = set()
        for x in f.body.walk():
            if x.k == 'Assign' and x.a['op'] == '=' and strip(x.c[0]).k == 'Ref':
                r = strip(x.c[1])
                if r.k == 'Index' and strip(r.c[0]).k == 'Ref' and strip(r.c[0]).a['name'] == 'relax_end':
                    ends.add(strip(x.c[0]).a['id'])
        if not ends:
            continue
        for lp in f.body.walk():
            if lp.k != 'For':
                continue
            c = strip(lp.c[1])
            if c.k == 'Binary' and c.a['op'] in ('<', '<=') and strip(c.c[1]).k == 'Ref' and strip(c.c[1]).a.get('id') in ends:
                n += 1
                chk.saw(unit=f.unit, func=f.unit + ':' + f.name)
                inst = '%s:loop-to-relax_end:%s' % (f.name, canon(c, ids=False))
                if c.a['op'] == '<=':
                    chk.ok(cid, inst, sample=pretty(c))
                else:
                    chk.violate(cid, inst, loc(f, lp), f.name,
                                'relax_end[] stores the last column of a relaxed supernode (inclusive); the loop `%s` stops one column short, so the last column of every '
                                'relaxed supernode (and the only column of a singleton) is skipped' % pretty(c), cfgname=cfgname)
    return n


GLU_FIELDS = {'xsup', 'supno', 'lsub', 'xlsub', 'lusup', 'xlusup', 'ucol', 'usub', 'xusub', 'nzlmax', 'nzumax', 'nzlumax', 'n', 'MemModel',
              'num_expansions', 'expanders', 'stack'}


def glu_mirror_rule(chk, cid, prog, cfgname, units=None, floor=100):
    """Repository idiom: a routine keeps local mirrors of the GlobalLU_t fields under the fields' own names (xlsub = Glu->xlsub, nzumax = Glu->nzumax,
    Glu->nzlmax = nzlmax ...).  A local whose name is a field of GlobalLU_t may only be loaded from / stored to that very field: loading the capacity of
    one array into the mirror of another (nzumax = Glu->nzlumax) makes later capacity tests and the counts written back describe the wrong array."""
    from ..facts import strip, loc
    chk.clause(cid, 'local mirrors of GlobalLU_t fields are loaded from and stored to the field of the same name')
    n = 0

    def glu_member(e):
        e = strip(e)
        if e.k == 'Member' and e.a['arrow'] and e.a['name'] in GLU_FIELDS:
            b = strip(e.c[0])
            if b.k == 'Ref' and (b.t or '').replace(' ', '').startswith('GlobalLU_t*'):
                return e.a['name']
        return None
    for f in prog.all_funcs():
        if units is not None and f.unit not in units:
            continue
        for x in f.body.walk():
            pairs = []
            if x.k == 'Assign' and x.a['op'] == '=':
                l, r = strip(x.c[0]), strip(x.c[1])
                if l.k == 'Ref' and glu_member(r):
                    pairs.append((l.a['name'], glu_member(r), 'loaded from'))
                if r.k == 'Ref' and glu_member(l):
                    pairs.append((r.a['name'], glu_member(l), 'stored to'))
            elif x.k == 'Var' and x.c and glu_member(x.c[0]):
                pairs.append((x.a['name'], glu_member(x.c[0]), 'loaded from'))
            for (v, fld, how) in pairs:
                if v not in GLU_FIELDS or v == 'n':
                    continue
                n += 1
                chk.saw(unit=f.unit, func=f.unit + ':' + f.name)
                inst = '%s:%s:mirror:%s<->%s' % (f.unit, f.name, v, fld)
                if v == fld:
                    chk.ok(cid, inst)
                else:
                    chk.violate(cid, inst, loc(f, x), f.name, 'local `%s` (the mirror of Glu->%s) is %s Glu->%s' % (v, v, how, fld), cfgname=cfgname)
    if n < floor:
        from ..run import AnalysisBroken
        raise AnalysisBroken('glu_mirror_rule: %d mirror loads/stores seen, floor %d' % (n, floor))
    return n
