"""C19 No memory error or leak over any documented API lifecycle  —  R4 (ownership), R9 (siblings); R5/R6/ledger clauses are added by their engines."""
import re
from ..facts import Program, loc
from ..run import Check, AnalysisBroken
from ..rules import r4_own, r9_sibling, ledger, r5_grow, r6_wspace, extent, r11_kinds, r4_path, misc, lints

DUNITS = None   # R9: whole SRC + FORTRAN


def run_r4(chk, prog, cfgname, funcs=None, cid='R4'):
    sums = r4_own.Summaries(prog)
    an = r4_own.Analyzer(prog, sums)
    cl = chk.clause(cid + '.own', 'every block released/escaped exactly once on every return exit')
    nfun = nalloc = 0
    for f in prog.all_funcs():
        if funcs is not None and f.name not in funcs:
            continue
        if f.unit.startswith('CBLAS/'):
            continue
        chk.saw(unit=f.unit, func=f.unit + ':' + f.name)
        try:
            fs = an.analyse(f)
        except RuntimeError as e:
            raise AnalysisBroken('R4 could not analyse %s: %s' % (f.name, e))
        nfun += 1
        if not an.has_events(f):
            chk.ok(cid + '.own', f.unit + ':' + f.name, nontrivial=False)
            continue
        nalloc += len(an.alloc_sites)
        if not fs:
            chk.ok(cid + '.own', f.unit + ':' + f.name, nontrivial=True,
                   sample='%d allocation site(s), %d return exit(s): all released or handed to the caller' % (len(an.alloc_sites), an.exits))
        for x in fs:
            key = re.sub(r'\s+', '_', x.key)
            chk.violate(cid + '.own', key, loc(f, x.node), f.name, '%s: %s' % (x.kind, x.what), x.detail, cfgname=cfgname)
    return nfun, nalloc


def run(tier):
    chk = Check('C19', tier, level='other')
    chk.explanation = (
        'R4: path-sensitive ownership analysis of every function of SRC, FORTRAN/c_fortran_?gssv.c and EXAMPLE/dreadtriple_noheader.c: '
        'each block obtained from the allocation vocabulary (superlu_malloc and everything that returns or stores a fresh block, by '
        'bottom-up summaries) must be released or handed to the caller exactly once on every return exit; no double release, no use '
        'after release; R5: every append to the four growable arrays is capacity-checked (post-check `>=`, pre-check in a loop) and aliases are '
        're-read after a possible move; R6: workspace allocator bookkeeping, NULL honoured, release matches acquisition; contents created inside local objects (sp_preorder -> AC, ?Create_*_Matrix, StatInit, getata/at_plus_a out-'
        'parameters) must be destroyed; correlated guards, NULL tests and flag variables are tracked so that guarded allocate/free pairs '
        'are exact. Allocation element size: every `(T *) SUPERLU_MALLOC(k * sizeof(U))` has sizeof(U) >= sizeof(T) in both index widths. R9: s=d and c=z instantiations of every routine agree (the only static handle on subscript arithmetic). Decides: '
        'leak / double free / use-after-free on every exit path, for all inputs. Does NOT decide: subscript ranges inside the kernels, '
        'uninitialised reads, undefined arithmetic.')
    chk.assumptions = ['documented ownership contract: blocks stored into caller-visible objects (L, U, AC, *nzval ...) are released by the caller '
                       'through the Destroy_* routines', 'GlobalLU_t is a view; its arrays are owned by L and U',
                       'paths ending in ABORT/exit carry no obligation']
    cfgs = ['tested'] if tier == 'quick' else ['tested', 'idx64', 'cblas']
    chk.configs = cfgs
    for cfgname in cfgs:
        prog = Program.load(which=('SRC', 'FORTRAN', 'EXAMPLE'), cfg=cfgname)
        nfun, nalloc = run_r4(chk, prog, cfgname)
        if nfun < 480:
            raise AnalysisBroken('C19: only %d functions analysed (floor 480)' % nfun)
        if nalloc < 250:
            raise AnalysisBroken('C19: only %d allocation sites seen (floor 250)' % nalloc)
        chk.notes.append('%s: %d functions, %d allocation sites' % (cfgname, nfun, nalloc))
        ns, nc = r5_grow.run(chk, 'R5', prog, cfgname)
        if ns < 56 or nc < 60:
            raise AnalysisBroken('C19: %d expansion call sites / %d possibly-expanding calls; floors 56 / 60' % (ns, nc))
        if r6_wspace.run(chk, 'R6', prog, cfgname) < 32:
            raise AnalysisBroken('C19: workspace allocator routines not found')
        nd = ledger.run(chk, prog, 'R4.ledger', cfgname)
        if nd < 6:
            raise AnalysisBroken('C19: only %d Destroy_* routines found (floor 6)' % nd)
        extent.elem_size_rule(chk, 'C19.elem', prog, None, cfgname, floor=90)
        chk.clause('C19.histo', 'relaxed supernode width stays within the statistics histogram')
        misc.relax_width_rule(chk, 'C19.histo', prog, cfgname)
        if r4_path.run(chk, 'R4.path', prog, cfgname) < 40:
            raise AnalysisBroken('C19: fewer than 40 releases through an access path found')
        r4_path.field_held_rule(chk, 'R4.parked', prog, cfgname)
        lints.bound_before_use_rule(chk, 'C19.order', prog, cfgname, floor=5)
        lints.scratch_extent_rule(chk, 'C19.scratch', prog, cfgname, floor=40)
        lints.outparam_on_status_rule(chk, 'C19.lent', prog, cfgname, floor=24)
        from ..rules import factor_tail as _ft
        chk.clause('C19.tail', 'the reuse branch of ?gstrf re-attaches every growable array to L and U (an array that moved is otherwise read after free and freed twice)')
        for _p in 'sdcz':
            _ft.run(chk, 'C19.tail', prog, _p, cfgname)
        from ..rules import expand as _expand
        chk.clause('C19.relaxcap', 'the capacity demand in front of a relaxed supernode covers every column the unchecked storing loop writes')
        for _p in 'sdcz':
            _expand.relaxed_capacity_rule(chk, 'C19.relaxcap', prog, _p, cfgname)
        r11_kinds.run(chk, 'C19.kinds', prog, cfgname, floor=1900)
        if cfgname == 'tested':
            r9_sibling.run(chk, prog, 'R9', None, cfgname)
    return chk.finish()
