"""Allocation extent vs initialisation extent: an array that is allocated with N elements and then initialised by a counting loop
must be initialised over exactly N elements (an initialisation loop that stops short leaves the tail at whatever the allocator
returned; one that runs long writes past the block)."""
from ..facts import strip, callee_name, const_value, loc, root_ref, canon
from ..ir import pretty

ELEM_ALLOCS = {'intMalloc', 'int32Malloc', 'intCalloc', 'int32Calloc', 'mxCallocInt', 'floatMalloc', 'doubleMalloc', 'floatCalloc', 'doubleCalloc',
               'singlecomplexMalloc', 'doublecomplexMalloc', 'singlecomplexCalloc', 'doublecomplexCalloc', 'complexMalloc', 'complexCalloc'}


def alloc_count(call):
    name = callee_name(call)
    if name in ELEM_ALLOCS and len(call.c) > 1:
        return strip(call.c[1])
    if name in ('superlu_malloc', 'malloc') and len(call.c) > 1:
        e = strip(call.c[1])
        if e.k == 'Binary' and e.a['op'] == '*':
            a, b = strip(e.c[0]), strip(e.c[1])
            if b.k == 'Sizeof':
                return a
            if a.k == 'Sizeof':
                return b
    return None


def run(chk, cid, prog, units, cfgname):
    chk.clause(cid, 'initialisation loop covers exactly the allocated extent')
    n = 0
    for f in prog.all_funcs():
        if f.unit not in units:
            continue
        chk.saw(unit=f.unit, func=f.unit + ':' + f.name)
        allocs = {}
        for x in f.body.walk():
            tgt = rhs = None
            if x.k == 'Assign' and x.a['op'] == '=' and strip(x.c[0]).k == 'Ref':
                tgt, rhs = strip(x.c[0]).a['id'], strip(x.c[1])
            elif x.k == 'Var' and x.c:
                tgt, rhs = x.a['id'], strip(x.c[0])
            if rhs is not None:
                call = rhs
                if call.k == 'Assign':
                    call = strip(call.c[1])
                if call.k == 'Call':
                    c = alloc_count(call)
                    if c is not None:
                        allocs.setdefault(tgt, []).append(c)
        if not allocs:
            continue
        for lp in f.body.walk():
            if lp.k != 'For':
                continue
            cond = strip(lp.c[1])
            if not (cond.k == 'Binary' and cond.a['op'] in ('<', '<=') and strip(cond.c[0]).k == 'Ref'):
                continue
            iv = strip(cond.c[0]).a['id']
            init = strip(lp.c[0])
            if not (init.k == 'Assign' and strip(init.c[0]).k == 'Ref' and strip(init.c[0]).a['id'] == iv and const_value(init.c[1]) == 0):
                continue
            # the stores of the loop:  arr[iv] = simple   (in the body or folded into the increment:  arr[iv++] = c)
            cands = []
            body_stmts = lp.c[3].c if lp.c[3].k == 'Block' else [lp.c[3]]
            for st in body_stmts + [lp.c[2]]:
                st = strip(st)
                if st.k == 'Assign' and st.a['op'] == '=' and strip(st.c[0]).k == 'Index':
                    cands.append(st)
            simple_body = all(strip(s).k in ('Assign', 'Empty') for s in body_stmts)
            if not simple_body:
                continue
            for st in cands:
                lv = strip(st.c[0])
                base = strip(lv.c[0])
                sub = strip(lv.c[1])
                if sub.k == 'Unary' and sub.a['op'] == '++':
                    sub = strip(sub.c[0])
                if base.k != 'Ref' or base.a['id'] not in allocs or sub.k != 'Ref' or sub.a['id'] != iv:
                    continue
                rhs = strip(st.c[1])
                if any(y.k == 'Index' for y in rhs.walk()):
                    continue     # a copy loop, not an initialisation
                want = {canon(c, ids=False) for c in allocs[base.a['id']]}
                bound = canon(cond.c[1], ids=False)
                got = bound if cond.a['op'] == '<' else '(%s + 1)' % bound
                n += 1
                inst = '%s:init-extent:%s' % (f.name, base.a['name'])
                if got in want:
                    chk.ok(cid, inst, sample='%s elements allocated and initialised' % got)
                else:
                    chk.violate(cid, inst, loc(f, lp), f.name,
                                '`%s` is allocated with %s element(s) but the loop that initialises it runs over %s: the remaining entries keep arbitrary values '
                                '(or the loop writes past the block)' % (base.a['name'], sorted(want), got), cfgname=cfgname)
    return n
