"""R3/R7 oracle of sp_preorder (C06.D1: reuse of perm_c/etree when Fact != DOFACT; C10.D3: permutation roles)."""
from . import r3_dispatch as r3
from ..props._drv import Flags, Expect, ppos


def run(chk, cid, prog, eff, cfgname):
    f = prog.func('sp_preorder')
    if f is None:
        from ..run import AnalysisBroken
        raise AnalysisBroken('sp_preorder not found')
    chk.saw(unit=f.unit, func=f.unit + ':' + f.name)
    E = prog.enums
    fl = Flags(prog, f, 'd')
    fl.enum('Fact', '$1->Fact', ['DOFACT', 'SamePattern', 'SamePattern_SameRowPerm', 'FACTORED'])
    fl.enum('SymmetricMode', '$1->SymmetricMode', ['NO', 'YES'])
    fl.enum('ColPerm', '$1->ColPerm', ['NATURAL', 'MMD_ATA', 'MMD_AT_PLUS_A', 'COLAMD', 'MY_PERMC'])     # the post-ordering may not depend on how perm_c was obtained
    eng = r3.Engine(prog, f, fl.flags, callees=lambda n: n in ('sp_coletree', 'TreePostorder', 'sp_symetree', 'at_plus_a', 'getata'), eff=eff)
    eng.retfresh = {'TreePostorder'}
    leaves = eng.run()
    ex = Expect(chk, cid, f, fl, cfgname)
    PC, ET = '$%d' % ppos(f, 'perm_c'), '$%d' % ppos(f, 'etree')
    for lf in leaves:
        v = lf.val
        st = lf.stores()
        col = lf.calls('sp_coletree') + lf.calls('sp_symetree')
        post = lf.calls('TreePostorder')
        scat_pc = [e for e in st if PC in e['idx_reads']]
        ex.check(lf, len(scat_pc) == 2 and all('$2->Store->colptr' in e['rhs_reads'] for e in scat_pc), 'columns-scattered-by-perm_c', [],
                 'the permuted view must be built by scattering A\'s column pointers by perm_c into colbeg and colend (two stores t[perm_c[i]] = colptr[..])',
                 scat_pc[0]['line'] if scat_pc else None)
        w_pc = [e for e in st if e['base'] == PC]
        w_et = [e for e in st if e['base'] == ET]
        if v['Fact'] != E['DOFACT']:
            ex.check(lf, not col and not post and not w_pc and not w_et, 'ordering-and-etree-reused', ['Fact'],
                     'Fact != DOFACT: the caller\'s perm_c and etree are reused; sp_preorder must not recompute the tree, post-order, or write perm_c / etree',
                     (col + post + w_pc + w_et)[0]['line'] if (col + post + w_pc + w_et) else None)
            continue
        ok = len(col) == 1 and col[0]['args'][-1] == ('p', ppos(f, 'etree'))
        ex.check(lf, ok, 'etree-computed', ['Fact'], 'Fact = DOFACT: the column elimination tree of A*Pc must be computed into etree', col[0]['line'] if col else None)
        if v['SymmetricMode'] == E['YES']:
            ex.check(lf, not post and not w_pc and not [e for e in w_et], 'no-postorder-in-symmetric-mode', ['SymmetricMode'],
                     'SymmetricMode = YES: no post-ordering; perm_c and etree keep the caller\'s numbering', (post + w_pc + w_et)[0]['line'] if (post + w_pc + w_et) else None)
            continue
        if not ex.check(lf, len(post) == 1 and post[0]['args'][1] == ('p', ppos(f, 'etree')) and lf.must_precede([col[0]['node']], post[0]['node']) if col else False,
                        'postorder-of-the-etree', ['SymmetricMode', 'ColPerm'], 'SymmetricMode = NO: TreePostorder(n, etree) must run after the tree is computed, whatever ColPerm is (relax_snode in ?gstrf needs a post-ordered tree)'):
            continue
        # the post array: value returned by TreePostorder
        pv = None
        for e in st:
            pass
        postdesc = 'fresh@n%d' % post[0]['node']
        scat_post = [e for e in st if postdesc in e['idx_reads']]
        srcs = set()
        for e in scat_post:
            srcs |= {r for r in e['rhs_reads'] if r != postdesc}
        want3 = len(scat_post) == 3
        has_et = any(ET in e['rhs_reads'] and postdesc in e['rhs_reads'] for e in scat_post)
        def arr(field):
            for e in st:
                if e['target'].endswith('->' + field) and r3.ptr_desc(e['value']):
                    return r3.ptr_desc(e['value'])
            return None
        cb, ce = arr('colbeg'), arr('colend')
        colb = [e for e in scat_post if cb in e['rhs_reads']]
        cole = [e for e in scat_post if ce in e['rhs_reads']]
        ex.check(lf, want3 and has_et and len(colb) == 1 and len(cole) == 1, 'relabel-by-post', [],
                 'etree, colbeg and colend must each be relabelled by scattering with post (t[post[i]] = post[etree[i]], colbeg[i], colend[i]); '
                 'found %d scatter(s) by post over %s' % (len(scat_post), sorted(srcs)), scat_post[0]['line'] if scat_post else post[0]['line'])
        comp = [e for e in st if PC in e['rhs_idx_reads'] and postdesc in e['rhs_reads']]
        ex.check(lf, len(comp) == 1 and bool(w_pc), 'perm_c-composed-with-post', [], 'perm_c must become post o perm_c (t[i] = post[perm_c[i]], copied back into perm_c)',
                 comp[0]['line'] if comp else post[0]['line'])
        ex.check(lf, bool(w_et), 'etree-relabelled-in-place', [], 'the relabelled tree must be copied back into etree', post[0]['line'])
    return len(leaves)
