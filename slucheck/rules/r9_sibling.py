"""R9 `sibling`: agreement of the template instantiations (deviance rule).

The s/d and c/z instantiations of one routine are generated from one template and
differ only in type and routine names.  Two definitions are compared by a
parallel walk of their bodies that
  * ignores declarations without initialiser (a declaration with initialiser is
    an assignment), debug/trace output (printf, fprintf, fflush, the argument text
    of ABORT/sprintf/input_error/xerbla_), and the spelling of i++ / ++i / i += 1
    when the value is unused,
  * matches variables by a bijection built on first use (alpha-renaming),
  * matches callee / enum / type names modulo the precision letters of the pair
    (d<->s, z<->c, also inside mixed names such as dzsum1/scsum1, dmach/smach),
  * compares literals by value, and retries commutative operators swapped.
Anything else that differs is a SIBLING-DIVERGENCE at the first differing
construct.  Belief contradiction (Engler et al.): two copies of one algorithm
that disagree cannot both be right; it is not a proof that either is.
"""
import re
from ..facts import strip, canon, callee_name, loc
from ..ir import N, pretty

MESSAGE_CALLS = {'printf', 'fprintf', 'sprintf', 'input_error', 'xerbla_', 'superlu_abort_and_exit', 'fputs', 'puts', 'perror',
                 'snprintf', 'check_tempv', 'print_lu_col', 'dcheck_tempv', 'scheck_tempv', 'ccheck_tempv', 'zcheck_tempv'}
DROP_STMT_CALLS = {'printf', 'fprintf', 'fflush', 'puts', 'fputs', 'putchar'}
COMMUTATIVE = {'+', '*', '==', '!=', '&', '|', '^'}

PAIRS = {('d', 's'): {'d': 's', 'z': 'c', 'D': 'S', 'Z': 'C'},
         ('z', 'c'): {'z': 'c', 'd': 's', 'Z': 'C', 'D': 'S'},
         ('d', 'z'): {'d': 'z', 'D': 'Z'},
         ('s', 'c'): {'s': 'c', 'S': 'C'}}
TYPE_MAP = {'d': {'double': 'float', 'doublecomplex': 'singlecomplex'},
            'z': {'doublecomplex': 'singlecomplex', 'double': 'float'}}


NAME_ALIASES = {frozenset(('d_cnjg', 'r_cnjg')), frozenset(('d_imag', 'r_imag')), frozenset(('dcabs1_', 'scabs1_'))}
_WORDS = (('doublecomplex', '\x01'), ('singlecomplex', '\x01'), ('double', '\x02'), ('float', '\x02'))


def _words(n):
    for w, r in _WORDS:
        n = n.replace(w, r)
    return n


def norm_string(s):
    """printf/scanf conversions differ only in the length modifier between precisions"""
    return re.sub(r'%(\d*\.?\d*)l([fegd])', r'%\1\2', s)


def name_matches(a, b, letters, known=None):
    """does name b equal name a after replacing some occurrences of the pair's precision letters?"""
    if a == b:
        return True
    if frozenset((a, b)) in NAME_ALIASES:
        return True
    a, b = _words(a), _words(b)
    if a == b:
        return True
    if len(a) != len(b):
        return False
    diff = 0
    for x, y in zip(a, b):
        if x != y:
            if letters.get(x) != y:
                return False
            diff += 1
    return 0 < diff <= 2


def norm_type(t, pa, pb_side):
    if t is None:
        return None
    t = re.sub(r'\bdoublecomplex\b', 'CPLX', t)
    t = re.sub(r'\bsinglecomplex\b', 'CPLX', t)
    t = re.sub(r'\bcomplex\b', 'CPLX', t)
    t = re.sub(r'\bdouble\b', 'REAL', t)
    t = re.sub(r'\bfloat\b', 'REAL', t)
    t = re.sub(r'\bconst\b', '', t)
    t = re.sub(r'\bregister\b', '', t)
    return re.sub(r'\s+', '', t)


class Mismatch(Exception):
    def __init__(self, a, b, why):
        self.a, self.b, self.why = a, b, why


def is_drop_stmt(s):
    """statements that do not take part in the comparison"""
    if s.k == 'Empty':
        return True
    if s.k == 'Decl':
        return all((v.k != 'Var') or not v.c for v in s.c)
    if s.k == 'Call' and callee_name(s) in DROP_STMT_CALLS:
        return True
    if s.k in ('ParmVarDecl', 'FunctionDecl'):
        return True
    if s.k == 'Assign' and (s.c[0].t or '').strip() == 'flops_t':
        return True      # stat->ops[...] flop counters: statistics only
    if s.k == 'Block' and all(is_drop_stmt(x) for x in s.c):
        return True
    if s.k == 'If' and all(is_drop_stmt(x) for x in s.c[1:]) and pure_expr(s.c[0]):
        return True      # if (cond) printf(...);  -- a guarded trace line
    return False


PURE_FUNCS = {'fabs', 'fabsf', 'c_abs', 'c_abs1', 'z_abs', 'z_abs1', 'sqrt', 'strncmp', 'strcmp'}


def pure_expr(e):
    for n in e.walk():
        if n.k == 'Assign' or (n.k == 'Unary' and n.a['op'] in ('++', '--')):
            return False
        if n.k == 'Call' and callee_name(n) not in PURE_FUNCS:
            return False
    return True


def flatten(stmts):
    """statement list with dropped statements removed, blocks without declarations spliced, Decl split"""
    out = []
    for s in stmts:
        if is_drop_stmt(s):
            continue
        if s.k == 'Decl':
            for v in s.c:
                if v.k == 'Var' and v.c:
                    out.append(v)
            continue
        if s.k == 'Block':
            inner = flatten(s.c)
            out.extend(inner)       # scoping is irrelevant after alpha-renaming by declaration id
            continue
        out.append(s)
    return out


def incr_form(e):
    """i++ / ++i / i += 1 / i = i + 1 as (lvalue, +1|-1) when used as a statement"""
    if e.k == 'Unary' and e.a['op'] in ('++', '--'):
        return (e.c[0], 1 if e.a['op'] == '++' else -1)
    if e.k == 'Assign' and e.a['op'] in ('+=', '-=') and strip(e.c[1]).k == 'Int' and strip(e.c[1]).a['value'] == 1:
        return (e.c[0], 1 if e.a['op'] == '+=' else -1)
    if e.k == 'Assign' and e.a['op'] == '=':
        r = strip(e.c[1])
        if r.k == 'Binary' and r.a['op'] in ('+', '-'):
            l0, r0 = strip(r.c[0]), strip(r.c[1])
            if r0.k == 'Int' and r0.a['value'] == 1 and canon(l0) == canon(e.c[0]):
                return (e.c[0], 1 if r.a['op'] == '+' else -1)
            if r.a['op'] == '+' and l0.k == 'Int' and l0.a['value'] == 1 and canon(r0) == canon(e.c[0]):
                return (e.c[0], 1)
    return None


def _sizeof_covers(ta, tb):
    """the lower-precision sibling sizes a block with a type at least as large as the counterpart of the other one's type
    (sizeof(double) where sizeof(singlecomplex) / sizeof(float) is meant): an over-allocation, not a divergence in behaviour"""
    from .extent import SIZES
    low = {'doublecomplex': 'singlecomplex', 'double': 'float'}
    for x, y in ((ta, tb), (tb, ta)):
        if x in low and y in SIZES and all(p >= q for p, q in zip(SIZES[y], SIZES[low[x]])):
            return True
    return False


class Comparer(object):
    def __init__(self, fa, fb, letters, known_names, twin=False, subst_a=None, subst_b=None):
        self.fa, self.fb = fa, fb
        self.subst_a, self.subst_b = subst_a or {}, subst_b or {}
        self.letters = letters
        self.known = known_names
        self.ab = {}
        self.ba = {}
        self.ext_only = set()     # twin mode: variables of the extended twin (fb) that have no counterpart in the base twin
        if twin:
            bnames = {n: i for (n, i, t) in fb.params}
            for (n, i, t) in fa.params:
                if n in bnames:
                    self.ab[i] = bnames[n]
                    self.ba[bnames[n]] = i
            anames = {n for (n, i, t) in fa.params} | {v.a['name'] for v in fa.locals.values()}
            for (n, i, t) in fb.params:
                if n not in anames:
                    self.ext_only.add(i)
            for vid, v in fb.locals.items():
                if v.a['name'] not in anames:
                    self.ext_only.add(vid)
        else:
            for (pa, pb) in zip(fa.params, fb.params):
                self.ab[pa[1]] = pb[1]
                self.ba[pb[1]] = pa[1]
        self.nodes = 0
        self.trial = False
        self.div = []

    def fail(self, a, b, why):
        raise Mismatch(a, b, why)

    def var(self, a, b):
        ia, ib = a.a['id'], b.a['id']
        if ia in self.ab or ib in self.ba:
            if self.ab.get(ia) != ib or self.ba.get(ib) != ia:
                self.fail(a, b, 'different variable (%s vs %s)' % (a.a['name'], b.a['name']))
        else:
            self.ab[ia] = ib
            self.ba[ib] = ia

    def snapshot(self):
        return (dict(self.ab), dict(self.ba))

    def restore(self, snap):
        self.ab, self.ba = dict(snap[0]), dict(snap[1])

    def try_stmt(self, a, b):
        """trial comparison without recording; restores the variable bijection on failure"""
        snap = self.snapshot()
        old = self.trial
        self.trial = True
        try:
            self.stmt(a, b)
            return True
        except Mismatch:
            self.restore(snap)
            return False
        finally:
            self.trial = old

    def record(self, a, b, why):
        if self.trial:
            raise Mismatch(a, b, why)
        self.div.append({'why': why, 'a_line': a.line if a is not None else 0, 'b_line': b.line if b is not None else 0,
                         'a': pretty(a)[:200] if a is not None else '', 'b': pretty(b)[:200] if b is not None else ''})

    def writes_only_ext(self, s):
        """does statement s (of the extended twin) write nothing but extension-only variables / arrays?"""
        wrote = False
        for n in s.walk():
            tgt = None
            if n.k == 'Assign':
                tgt = n.c[0]
            elif n.k == 'Unary' and n.a['op'] in ('++', '--'):
                tgt = n.c[0]
            elif n.k == 'Var':
                if n.a['id'] in self.ext_only:
                    wrote = True
                    continue
                return False
            elif n.k == 'Call':
                name = callee_name(n)
                if name in ('ifill', 'dfill', 'sfill', 'cfill', 'zfill'):
                    tgt = n.c[1]
                else:
                    return False
            elif n.k in ('Return', 'Break', 'Continue', 'Goto'):
                return False
            if tgt is not None:
                from ..facts import root_ref
                r = root_ref(tgt)
                if r is None or r.a.get('id') not in self.ext_only:
                    return False
                wrote = True
        return wrote

    @staticmethod
    def simple_assign(s):
        """(target var id, set of var ids read) if s is  v = <pure expr>  /  T v = <pure expr>  with a plain local target"""
        tgt = rhs = None
        if s.k == 'Var' and s.c:
            tgt, rhs = s.a['id'], s.c[0]
        elif s.k == 'Assign' and s.a['op'] == '=' and strip(s.c[0]).k == 'Ref' and strip(s.c[0]).a.get('dk') == 'VarDecl':
            tgt, rhs = strip(s.c[0]).a['id'], s.c[1]
        if tgt is None or not pure_expr(rhs):
            return None
        if any(x.k == 'Call' for x in rhs.walk()):
            return None
        return tgt, {x.a.get('id') for x in rhs.walk() if x.k == 'Ref'}

    def independent(self, group):
        """the LAST statement of `group` may be moved in front of the others: all are simple assignments to locals, and the moved
        one neither reads nor writes a target of the skipped ones, nor do they read its target"""
        infos = [self.simple_assign(s) for s in group]
        if any(i is None for i in infos):
            return False
        mt, mreads = infos[-1]
        for (t, reads) in infos[:-1]:
            if t == mt or t in mreads or mt in reads:
                return False
        return True

    def defines_subst(self, s, sub):
        if s.k == 'Var':
            return s.a['id'] in sub
        if s.k == 'Assign' and s.a['op'] == '=' and strip(s.c[0]).k == 'Ref':
            return strip(s.c[0]).a.get('id') in sub
        return False

    def stmts(self, la, lb, ctx_a, ctx_b):
        la, lb = flatten(la), flatten(lb)
        if self.subst_a:
            la = [x for x in la if not self.defines_subst(x, self.subst_a)]
        if self.subst_b:
            lb = [x for x in lb if not self.defines_subst(x, self.subst_b)]
        if self.ext_only:
            lb = [x for x in lb if not (x.k not in ('If', 'For', 'While', 'Do', 'Switch') and self.writes_only_ext(x))]
        i = j = 0
        while i < len(la) and j < len(lb):
            snap = self.snapshot()
            try:
                self.stmt(la[i], lb[j])
                i += 1
                j += 1
                continue
            except Mismatch as m:
                if self.trial:
                    raise
                self.restore(snap)
                first = m
            # benign reordering of independent local assignments (Lstore = L->Store; Ustore = U->Store; in either order)
            moved = False
            for k in (1, 2, 3):
                if j + k < len(lb) and self.independent(lb[j:j + k + 1]) and self.try_stmt(la[i], lb[j + k]):
                    lb.insert(j, lb.pop(j + k))
                    moved = True
                    break
            if moved:
                i += 1
                j += 1
                continue
            # recovery: one or two extra statements on either side
            done = False
            for skip in (1, 2, 3):
                if i + skip < len(la) and self.try_stmt(la[i + skip], lb[j]):
                    for x in la[i:i + skip]:
                        self.record(x, None, 'statement only in first variant')
                    i += skip + 1
                    j += 1
                    done = True
                    break
                if j + skip < len(lb) and self.try_stmt(la[i], lb[j + skip]):
                    for x in lb[j:j + skip]:
                        self.record(None, x, 'statement only in second variant')
                    j += skip + 1
                    i += 1
                    done = True
                    break
            if not done:
                self.record(first.a, first.b, first.why)
                i += 1
                j += 1
        for x in la[i:]:
            self.record(x, None, 'statement only in first variant')
        for x in lb[j:]:
            self.record(None, x, 'statement only in second variant')

    def guarded_expr(self, a, b):
        """compare a controlling expression; a difference is recorded and the walk continues into the bodies"""
        if self.trial:
            return self.expr(a, b, False, True)
        snap = self.snapshot()
        try:
            self.expr(a, b, False, True)
        except Mismatch as m:
            self.restore(snap)
            self.record(m.a, m.b, m.why)

    def body(self, s):
        return s.c if s.k == 'Block' else [s]

    def stmt(self, a, b):
        self.nodes += 1
        if a.k == 'Binary' and b.k == 'Binary' and a.a.get('op') == ',' and b.a.get('op') == ',':
            # `++i, ++j` in statement position: both operands are evaluated for their effect only
            self.stmt(a.c[0], b.c[0])
            self.stmt(a.c[1], b.c[1])
            return
        ia, ib = incr_form(a), incr_form(b)
        if ia and ib:
            if ia[1] != ib[1]:
                self.fail(a, b, 'increment vs decrement')
            self.expr(ia[0], ib[0])
            return
        if a.k != b.k:
            self.fail(a, b, 'different statement kind (%s vs %s)' % (a.k, b.k))
        k = a.k
        if self.trial and k in ('If', 'For', 'While', 'Do', 'Switch'):
            return      # look-ahead alignment only: same kind of compound statement is enough to resynchronise
        if k == 'Var':
            self.var(a, b)
            self.expr(a.c[0], b.c[0])
        elif k == 'If':
            self.guarded_expr(a.c[0], b.c[0])
            self.stmts(self.body(a.c[1]), self.body(b.c[1]), a, b)
            ea = self.body(a.c[2]) if len(a.c) > 2 else []
            eb = self.body(b.c[2]) if len(b.c) > 2 else []
            self.stmts(ea, eb, a, b)
        elif k == 'For':
            self.opt_stmt(a.c[0], b.c[0])
            self.opt_expr(a.c[1], b.c[1])
            self.opt_stmt(a.c[2], b.c[2])
            self.stmts(self.body(a.c[3]), self.body(b.c[3]), a, b)
        elif k == 'While':
            self.guarded_expr(a.c[0], b.c[0])
            self.stmts(self.body(a.c[1]), self.body(b.c[1]), a, b)
        elif k == 'Do':
            self.stmts(self.body(a.c[0]), self.body(b.c[0]), a, b)
            self.expr(a.c[1], b.c[1])
        elif k == 'Switch':
            self.guarded_expr(a.c[0], b.c[0])
            self.stmts(self.body(a.c[1]), self.body(b.c[1]), a, b)
        elif k == 'Case':
            self.expr(a.c[0], b.c[0])
            self.stmts(self.body(a.c[-1]), self.body(b.c[-1]), a, b)
        elif k == 'Default':
            self.stmts(self.body(a.c[-1]), self.body(b.c[-1]), a, b)
        elif k == 'Label':
            self.stmts(self.body(a.c[0]) if a.c else [], self.body(b.c[0]) if b.c else [], a, b)
        elif k == 'Goto':
            pass   # label identity follows from structure
        elif k in ('Break', 'Continue'):
            pass
        elif k == 'Return':
            if len(a.c) != len(b.c):
                self.fail(a, b, 'return with/without value')
            if a.c:
                self.expr(a.c[0], b.c[0])
        else:
            self.expr(a, b)

    def opt_stmt(self, a, b):
        if a.k == 'Empty' and b.k == 'Empty':
            return
        if a.k == 'Decl' and b.k == 'Decl':
            self.stmts([a], [b], a, b)
            return
        self.stmt(a, b)

    def opt_expr(self, a, b):
        if a.k == 'Empty' and b.k == 'Empty':
            return
        self.guarded_expr(a, b)

    def expr(self, a, b, in_message=False, boolean=False):
        self.nodes += 1
        a, b = strip_trivial(a), strip_trivial(b)
        if boolean and a.k != b.k or (boolean and a.k == 'Binary' and a.a.get('op') != b.a.get('op')):
            a, b = _unbool(a), _unbool(b)       # `x != 0` and `x` are the same test where only truth matters
        for _ in range(4):      # locals that merely name a pure sub-expression in one variant (hoisting) are looked through
            if a.k == 'Ref' and a.a.get('id') in self.subst_a:
                a = strip_trivial(self.subst_a[a.a['id']])
            elif b.k == 'Ref' and b.a.get('id') in self.subst_b:
                b = strip_trivial(self.subst_b[b.a['id']])
            else:
                break
        if self.ext_only and b.k == 'Assign' and b.a['op'] == '=' and strip(b.c[0]).k == 'Ref' and strip(b.c[0]).a.get('id') in self.ext_only:
            return self.expr(a, b.c[1], in_message)      # f = (j = 0)  vs  j = 0
        if self.ext_only and b.k == 'Assign' and b.a['op'] == '=' and a.k == 'Assign' and strip(b.c[1]).k == 'Assign' \
                and strip(strip(b.c[1]).c[0]).k == 'Ref' and strip(strip(b.c[1]).c[0]).a.get('id') in self.ext_only:
            # j = (f = 0)  vs  j = 0
            return self.expr(a, N('Assign', b.t, [b.c[0], strip(b.c[1]).c[1]], b.a, b.line, b.mac), in_message)
        if a.k != b.k:
            # x += 1 vs ++x inside expressions, or cast present on one side only (numeric casts to the element type)
            if a.k == 'Cast' and norm_type(a.t, 0, 0) in ('REAL', 'CPLX', 'int', 'int_t'):
                return self.expr(a.c[0], b, in_message)
            if b.k == 'Cast' and norm_type(b.t, 0, 0) in ('REAL', 'CPLX', 'int', 'int_t'):
                return self.expr(a, b.c[0], in_message)
            self.fail(a, b, 'different expression (%s vs %s)' % (a.k, b.k))
        k = a.k
        if k == 'Ref':
            dka, dkb = a.a.get('dk'), b.a.get('dk')
            if dka != dkb:
                self.fail(a, b, 'different kind of name')
            if dka in ('FunctionDecl', 'EnumConstantDecl'):
                if not name_matches(a.a['name'], b.a['name'], self.letters):
                    self.fail(a, b, 'different %s (%s vs %s)' % ('callee' if dka == 'FunctionDecl' else 'constant', a.a['name'], b.a['name']))
            else:
                self.var(a, b)
        elif k == 'Int' or k == 'Char':
            if a.a['value'] != b.a['value']:
                self.fail(a, b, 'different constant (%s vs %s)' % (a.a['value'], b.a['value']))
        elif k == 'Float':
            va, vb = a.a['value'], b.a['value']
            if va != vb:
                try:
                    if abs(float(va) - float(vb)) <= 1e-6 * max(abs(float(va)), abs(float(vb))):
                        return
                except (TypeError, ValueError):
                    pass
                self.fail(a, b, 'different constant (%s vs %s)' % (va, vb))
        elif k == 'Str':
            if in_message:
                return
            if norm_string(a.a['value']) != norm_string(b.a['value']):
                self.fail(a, b, 'different string (%s vs %s)' % (a.a['value'], b.a['value']))
        elif k == 'Member':
            if a.a['name'] != b.a['name'] or a.a['arrow'] != b.a['arrow']:
                self.fail(a, b, 'different field (%s vs %s)' % (a.a['name'], b.a['name']))
            self.expr(a.c[0], b.c[0], in_message)
        elif k in ('Unary',):
            if a.a['op'] != b.a['op'] or bool(a.a.get('postfix')) != bool(b.a.get('postfix')):
                self.fail(a, b, 'different operator (%s vs %s)' % (a.a['op'], b.a['op']))
            self.expr(a.c[0], b.c[0], in_message, a.a['op'] == '!')
        elif k in ('Binary', 'Assign'):
            if a.a['op'] != b.a['op']:
                self.fail(a, b, 'different operator (%s vs %s)' % (a.a['op'], b.a['op']))
            bl = a.a['op'] in ('&&', '||')
            if a.a['op'] in COMMUTATIVE:
                snap = (dict(self.ab), dict(self.ba))
                try:
                    self.expr(a.c[0], b.c[0], in_message, bl)
                    self.expr(a.c[1], b.c[1], in_message, bl)
                    return
                except Mismatch as first:
                    self.ab, self.ba = snap
                    try:
                        self.expr(a.c[0], b.c[1], in_message, bl)
                        self.expr(a.c[1], b.c[0], in_message, bl)
                        return
                    except Mismatch:
                        self.ab, self.ba = dict(snap[0]), dict(snap[1])
                        raise first
            self.expr(a.c[0], b.c[0], in_message, bl)
            self.expr(a.c[1], b.c[1], in_message, bl)
        elif k == 'Call':
            na = callee_name(a)
            nb = callee_name(b)
            if na in MESSAGE_CALLS and nb in MESSAGE_CALLS:
                if na != nb and not name_matches(na, nb, self.letters):
                    self.fail(a, b, 'different callee (%s vs %s)' % (na, nb))
                return      # message text, __LINE__, __FILE__: not compared
            msg = in_message
            if len(a.c) != len(b.c):
                self.fail(a, b, 'different number of arguments')
            for x, y in zip(a.c, b.c):
                self.expr(x, y, msg)
        elif k == 'Cast':
            ta, tb = norm_type(a.t, 0, 0), norm_type(b.t, 0, 0)
            if ta != tb:
                self.fail(a, b, 'different cast type (%s vs %s)' % (a.t, b.t))
            self.expr(a.c[0], b.c[0], in_message)
        elif k == 'Sizeof':
            ta, tb = norm_type(a.a.get('argtype'), 0, 0), norm_type(b.a.get('argtype'), 0, 0)
            if ta != tb and not _sizeof_covers(a.a.get('argtype'), b.a.get('argtype')):
                self.fail(a, b, 'different sizeof type (%s vs %s)' % (a.a.get('argtype'), b.a.get('argtype')))
            for x, y in zip(a.c, b.c):
                self.expr(x, y, in_message)
        elif k == 'Block':
            # statement expression / macro block inside an expression context
            self.stmts(a.c, b.c, a, b)
        elif k in ('If', 'For', 'While', 'Do', 'Return', 'Var', 'Switch', 'Break', 'Continue', 'Goto', 'Label', 'Case', 'Default'):
            self.stmt(a, b)
        else:
            if len(a.c) != len(b.c):
                self.fail(a, b, 'different shape')
            for x, y in zip(a.c, b.c):
                self.expr(x, y, in_message)


def _unbool(e):
    if e.k == 'Binary' and e.a.get('op') == '!=':
        for i in (0, 1):
            z = strip(e.c[i])
            if z.k == 'Int' and z.a.get('value') == 0 and not any(w in (strip(e.c[1 - i]).t or '') for w in ('double', 'float')):
                return strip_trivial(e.c[1 - i])
    return e


def strip_trivial(e):
    # casts are kept (compared modulo precision); nothing else to strip: the front end removed parens/implicit casts
    return e


def compare(fa, fb, letters, known=None, twin=False):
    """returns {'nodes': n, 'div': [divergences]}; empty list = equivalent.
    twin=True: fb is an extended copy of fa (ILU variants): parameters are matched by name and fb may contain additional
    statements that write only variables/arrays that do not exist in fa (additive bookkeeping)."""
    def once(sa, sb):
        c = Comparer(fa, fb, letters, known, twin=twin, subst_a=sa, subst_b=sb)
        if twin:
            c.stmts(fa.body.c, fb.body.c, fa.body, fb.body)
        elif len(fa.params) != len(fb.params):
            c.record(fa.body, fb.body, 'different number of parameters')
        else:
            c.stmts(fa.body.c, fb.body.c, fa.body, fb.body)
        return c
    c = once({}, {})
    if c.div and not twin:
        # a variant that hoists a pure sub-expression into a local assigned exactly once (nz = A->nrow) is the same program:
        # look through such locals and compare again; the second verdict stands only if it is clean
        sa, sb = hoists(fa), hoists(fb)
        if sa or sb:
            c2 = once(sa, sb)
            if not c2.div:
                return {'nodes': c2.nodes, 'div': [], 'hoists': sorted(v.a['name'] for vid, v in list(fa.locals.items()) + list(fb.locals.items()) if vid in sa or vid in sb)}
    return {'nodes': c.nodes, 'div': c.div}


def hoists(f):
    """locals of f assigned exactly once, from a pure call-free expression whose operands are never assigned in f"""
    count = {}
    rhs = {}
    assigned = set()
    for n in f.body.walk():
        if n.k == 'Var' and n.c:
            count[n.a['id']] = count.get(n.a['id'], 0) + 1
            rhs[n.a['id']] = n.c[0]
        elif n.k == 'Assign' and strip(n.c[0]).k == 'Ref':
            vid = strip(n.c[0]).a.get('id')
            count[vid] = count.get(vid, 0) + (1 if n.a['op'] == '=' else 2)
            rhs[vid] = n.c[1]
        elif n.k == 'Unary' and n.a['op'] in ('++', '--', '&') and strip(n.c[0]).k == 'Ref':
            vid = strip(n.c[0]).a.get('id')
            count[vid] = count.get(vid, 0) + 2
    out = {}
    for vid, e in rhs.items():
        if count.get(vid) != 1 or vid not in f.locals:
            continue
        if not pure_expr(e) or any(x.k in ('Call', 'Index') or (x.k == 'Unary' and x.a['op'] == '*') for x in e.walk()):
            continue
        ops = {x.a.get('id') for x in e.walk() if x.k == 'Ref' and x.a.get('dk') in ('VarDecl', 'ParmVarDecl')}
        if any(count.get(o, 0) > 0 for o in ops):
            continue
        out[vid] = e
    return out


def sibling_name(name, frm, to):
    """candidate sibling routine names of `name` for precision letter frm -> to (first occurrence positions)"""
    out = []
    for i, ch in enumerate(name):
        if ch == frm:
            out.append(name[:i] + to + name[i + 1:])
    return out


def sibling_unit(rel, frm, to):
    import os
    d, b = os.path.split(rel)
    cands = []
    for i, ch in enumerate(b):
        if ch == frm:
            cands.append(os.path.join(d, b[:i] + to + b[i + 1:]))
    return cands


def pairs(prog, frm, to):
    """yield (Func a, Func b) for every function defined in a unit of precision `frm` that has a sibling unit of precision `to`"""
    letters = PAIRS[(frm, to)]
    for u in prog.units:
        sib = None
        for cand in sibling_unit(u.rel, frm, to):
            if cand in prog.by_rel and cand != u.rel:
                sib = prog.by_rel[cand]
                break
        if sib is None:
            continue
        bnames = {f.name: f for f in sib.funcs}
        for f in u.funcs:
            g = None
            for cand in [f.name] + sibling_name(f.name, frm, to) + sibling_name(f.name, frm.upper(), to.upper()):
                if cand in bnames and (cand != f.name or True):
                    # prefer a renamed sibling; identical names only for static helpers
                    if cand == f.name and any(c in bnames for c in sibling_name(f.name, frm, to)):
                        continue
                    g = bnames[cand]
                    break
            if g is None:
                # mixed names (dzsum1 -> scsum1): all pair letters
                for h in sib.funcs:
                    if name_matches(f.name, h.name, letters):
                        g = h
                        break
            yield (u, sib, f, g)


# ---------------------------------------------------------------- confirmed, legitimate differences (one line of reason each)
EXEMPT_PAIRS = {
    ('dmach', 'smach'): 'machine constants are the point of the routine (DBL_* vs FLT_*)',
    ('dldperm', 'sldperm'): 'single precision copies the values to a double array because MC64 is double-only',
}
EXEMPT_DIVERGENCES = {
    # (first function, why, a-text, b-text)
    ('dreadMM', 'statement only in second variant', '', '*m = *n'):
        'sreadMM assigns *m = *n before echoing the sizes; dreadMM does not (square-only readers; harmless)',
}


def run(chk, prog, cid, dunits=None, cfgname='tested', what='s=d, c=z exact'):
    """compare every function of the listed d-/z-units (None = all of SRC and FORTRAN) with its s-/c-sibling"""
    import os
    chk.clause(cid, 'sibling agreement (%s)' % what)
    n = 0
    for (frm, to) in (('d', 's'), ('z', 'c')):
        letters = PAIRS[(frm, to)]
        for (u, sib, f, g) in pairs(prog, frm, to):
            if u.rel.startswith('CBLAS/'):
                continue
            if dunits is not None:
                base = os.path.basename(u.rel)
                if base not in dunits:
                    continue
            chk.saw(unit=u.rel, func=u.rel + ':' + f.name)
            chk.saw(unit=sib.rel)
            if g is None:
                chk.violate(cid, 'sibling-missing:%s' % f.name, '%s:%d' % (u.rel, f.line), f.name,
                            'SIBLING-DIVERGENCE: `%s` has no counterpart in %s' % (f.name, sib.rel), cfgname=cfgname)
                continue
            n += 1
            inst = '%s~%s' % (f.name, g.name)
            if (f.name, g.name) in EXEMPT_PAIRS:
                chk.ok(cid, inst, nontrivial=False, sample='exempt: ' + EXEMPT_PAIRS[(f.name, g.name)])
                continue
            r = compare(f, g, letters)
            divs = [d for d in r['div'] if (f.name, d['why'], d['a'], d['b']) not in EXEMPT_DIVERGENCES]
            if not divs:
                chk.ok(cid, inst, nontrivial=r['nodes'] > 3, sample='%d nodes walked in parallel' % r['nodes'])
                continue
            for d in divs[:3]:
                key = 'sibling:%s:%s:%s|%s' % (inst, d['why'].split(' (')[0], d['a'][:60], d['b'][:60])
                key = re.sub(r'\s+', '_', key)
                where = '%s:%d' % (u.rel, d['a_line']) if d['a_line'] else '%s:%d' % (sib.rel, d['b_line'])
                chk.violate(cid, key, where, f.name,
                            'SIBLING-DIVERGENCE %s (%s:%d) vs %s (%s:%d): %s: `%s` vs `%s`'
                            % (f.name, u.rel, d['a_line'], g.name, sib.rel, d['b_line'], d['why'], d['a'][:120], d['b'][:120]),
                            d, cfgname=cfgname)
    # real ~ complex: the integer skeletons of the d and z instantiations agree (rules/r9c_skeleton.py)
    from . import r9c_skeleton
    all_d = {os.path.basename(u.rel) for u in prog.units if u.rel.startswith(('SRC/', 'FORTRAN/')) and os.path.basename(u.rel).startswith(('d', 'ilu_d', 'sp_d', 'c_fortran_d'))}
    want = all_d if dunits is None else {b for b in all_d if b in dunits}
    if want:
        r9c_skeleton.run(chk, cid + '.rc', prog, want, cfgname)
    return n


def run_twins(chk, prog, cid, pairs, cfgname='tested'):
    """pairs: (unit a, function a, unit b, function b, mode) with mode 'same' (two copies of one routine) or 'ext'
    (b = a + additive bookkeeping on variables that do not exist in a)"""
    chk.clause(cid, 'twin copies agree')
    n = 0
    for (ua, fa_, ub, fb_, mode) in pairs:
        fa = prog.funcs.get((ua, fa_))
        fb = prog.funcs.get((ub, fb_))
        if fa is None or fb is None:
            from ..run import AnalysisBroken
            raise AnalysisBroken('twin pair %s:%s / %s:%s: function not found' % (ua, fa_, ub, fb_))
        chk.saw(unit=ua, func=ua + ':' + fa_)
        chk.saw(unit=ub, func=ub + ':' + fb_)
        r = compare(fa, fb, {}, twin=(mode == 'ext'))
        inst = '%s:%s~%s:%s' % (ua, fa_, ub, fb_)
        n += 1
        if not r['div']:
            chk.ok(cid, inst, sample='%d nodes walked in parallel%s' % (r['nodes'], ' (extended twin)' if mode == 'ext' else ''))
            continue
        for d in r['div'][:3]:
            key = 'twin:%s~%s:%s:%s|%s' % (fa_, fb_, d['why'].split(' (')[0], d['a'][:60], d['b'][:60])
            key = re.sub(r'\s+', '_', key)
            where = '%s:%d' % (ua, d['a_line']) if d['a_line'] else '%s:%d' % (ub, d['b_line'])
            chk.violate(cid, key, where, fa_,
                        'TWIN-DIVERGENCE %s (%s:%d) vs %s (%s:%d): %s: `%s` vs `%s`'
                        % (fa_, ua, d['a_line'], fb_, ub, d['b_line'], d['why'], d['a'][:120], d['b'][:120]), d, cfgname=cfgname)
    return n
