"""R7 `perm`: shape classification of permutation uses (scatter / gather / invert / compose / relabel)."""
from ..facts import strip, root_ref, loc
from ..ir import pretty


def inverts(f):
    """[(target array ref, source permutation ref, node)] for statements  q[p[k]] = k"""
    out = []
    for n in f.body.walk():
        if n.k == 'Assign' and n.a['op'] == '=':
            lv = strip(n.c[0])
            rhs = strip(n.c[1])
            if lv.k == 'Index' and rhs.k == 'Ref':
                sub = strip(lv.c[1])
                if sub.k == 'Index' and strip(sub.c[1]).k == 'Ref' and strip(sub.c[1]).a.get('id') == rhs.a.get('id') \
                        and strip(lv.c[0]).k == 'Ref' and strip(sub.c[0]).k == 'Ref':
                    out.append((strip(lv.c[0]), strip(sub.c[0]), n))
    return out


def check_inverse(chk, cid, f, target_name, source_name, cfgname):
    """the array named target_name (a local) must be filled as the inverse of parameter source_name, and only so"""
    inv = [(t, s, n) for (t, s, n) in inverts(f) if t.a['name'] == target_name]
    other = []
    for n in f.body.walk():
        if n.k == 'Assign' and strip(n.c[0]).k == 'Index':
            r = root_ref(n.c[0])
            if r is not None and r.a['name'] == target_name and not any(n is x for (_, _, x) in inv):
                other.append(n)
    ok = len(inv) == 1 and inv[0][1].a['name'] == source_name and not other
    inst = '%s:%s=inverse(%s)' % (f.name, target_name, source_name)
    if ok:
        chk.ok(cid, inst, sample=pretty(inv[0][2]))
    else:
        node = (other or [x for (_, _, x) in inv] or [f.body])[0]
        chk.violate(cid, inst, loc(f, node), f.name,
                    '%s must be built as the inverse of %s (%s[%s[k]] = k) and written nowhere else; found %s'
                    % (target_name, source_name, target_name, source_name, [pretty(x)[:50] for (_, _, x) in inv] + [pretty(x)[:50] for x in other]), cfgname=cfgname)
    return 1
