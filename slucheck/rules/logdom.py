"""Logarithmic / linear domain analysis of the MC64 scaling job (job 5 of mc64ad_).

Job 5 turns the product-maximisation problem into a sum-minimisation one by taking logarithms: the cost of an entry is
log(column maximum) - log|a|, the dual variables u, v that mc64wd_ returns are sums of such costs, and the caller later forms exp(u), exp(v).
The code keeps linear quantities (|a|, the column maximum in dw[2n+j]) and logarithmic ones (costs in dw[3n+k], duals in dw[j], dw[n+j])
in slices of one work array, and uses an exact zero as "this column / entry is empty" on the linear ones.  Mixing the two domains, or
testing a logarithmic value against the empty-marker 0 (log 1 = 0 is an ordinary value), gives scale factors that are wrong only for
particular magnitudes - nothing a structural test of the permutation notices.

The analysis is a units-of-measure style forward flow over the statements of the `*job == 5` block: every scalar and every slice of dw[]
(identified by the multiple of n in its subscript) carries a domain LIN, LOG or ANY (constants, the overflow threshold).  Obligations:
  D1  operands of + - and of comparisons are not LIN on one side and LOG on the other; log() is applied to LIN, exp() to LOG;
  D2  an exact comparison with the constant zero (the empty marker) is made on a LIN value only;
  D3  on exit the dual slices dw[j] and dw[n+j] are LOG (the drivers exponentiate them).
Loop bodies are interpreted twice (the domains are a finite lattice of height 2)."""
from ..facts import strip, callee_name, const_value, loc, canon
from ..ir import pretty
from ..run import AnalysisBroken

LIN, LOG, ANY = 'linear', 'logarithmic', 'any'


class Dom(object):
    def __init__(self, chk, cid, f, cfgname):
        self.chk, self.cid, self.f, self.cfgname = chk, cid, f, cfgname
        self.st = {}
        self.nob = 0
        self.bad = {}
        self.record = True
        self.d4 = {}
        self.inf = set()        # names whose current value was derived from the overflow threshold (the infinite cost)

    # ---- keys
    def region(self, sub):
        """multiple of *n in a dw[] subscript: dw[j] -> 0, dw[*n + j] -> 1, dw[(*n << 1) + j] -> 2, dw[*n * 3 + k] -> 3"""
        t = canon(sub, ids=False).replace(' ', '').replace('(', '').replace(')', '')
        if '*n<<1' in t:
            return 2
        if '*n*3' in t or '3**n' in t:
            return 3
        if '*n<<2' in t or '*n*4' in t:
            return 4
        if '*n' in t:
            return 1
        return 0

    def key(self, e):
        e = strip(e)
        if e.k == 'Ref':
            return e.a.get('name')
        if e.k == 'Index' and strip(e.c[0]).k == 'Ref':
            nm = strip(e.c[0]).a.get('name')
            if nm == 'dw':
                return 'dw#%d' % self.region(e.c[1])
            return nm + '[]'
        return None

    def viol(self, node, what):
        if self.record:
            self.bad.setdefault((node.line, what), node)

    # ---- expressions
    def ev(self, e):
        e = strip(e)
        k = e.k
        if k in ('Int', 'Float'):
            return ANY
        if k == 'Ref':
            return self.st.get(e.a.get('name'), ANY)
        if k == 'Index':
            key = self.key(e)
            if key == 'a[]':
                return LIN
            return self.st.get(key, ANY)
        if k == 'Unary':
            if e.a['op'] == '*':
                return ANY          # *n and other scalar arguments: counts
            return self.ev(e.c[0])
        if k == 'Assign':
            return self.assign(e)
        if k == 'Comma':
            d = ANY
            for c in e.c:
                d = self.ev(c)
            return d
        if k == 'Cond':                 # abs(x) after macro expansion
            self.ev(e.c[0])
            a, b = self.ev(e.c[1]), self.ev(e.c[2])
            return a if a != ANY else b
        if k == 'Call':
            nm = callee_name(e)
            if nm in ('log', 'logf'):
                d = self.ev(e.c[1])
                self.nob += 1
                if d == LOG:
                    self.viol(e, 'log() is applied to `%s`, which is already a logarithm' % pretty(e.c[1])[:40])
                return LOG
            if nm in ('exp', 'expf'):
                d = self.ev(e.c[1])
                self.nob += 1
                if d == LIN:
                    self.viol(e, 'exp() is applied to the linear quantity `%s`' % pretty(e.c[1])[:40])
                return LIN
            if nm in ('fabs', 'fabsf', 'abs'):
                return self.ev(e.c[1])
            for c in e.c[1:]:
                self.ev(c)
            return ANY
        if k == 'Binary':
            op = e.a['op']
            a, b = self.ev(e.c[0]), self.ev(e.c[1])
            if op in ('+', '-'):
                self.nob += 1
                if {a, b} == {LIN, LOG}:
                    self.viol(e, '`%s` %s a %s and a %s quantity' % (pretty(e)[:60], 'adds' if op == '+' else 'subtracts', a, b))
                return a if a != ANY else b
            if op in ('<', '>', '<=', '>=', '==', '!='):
                self.nob += 1
                if {a, b} == {LIN, LOG}:
                    self.viol(e, '`%s` compares a %s with a %s quantity' % (pretty(e)[:60], a, b))
                if op in ('==', '!='):
                    for (x, d) in ((e.c[0], b), (e.c[1], a)):
                        zc = strip(x)
                        if zc.k == 'Float' and zc.a.get('value') == 0.0 and d == LOG:
                            self.viol(e, '`%s` uses an exact zero as the empty marker on a logarithmic value: log 1 = 0 is an ordinary value, so a '
                                         'column / entry of magnitude exactly 1 is taken for an empty one' % pretty(e)[:60])
                return ANY
            if op in ('*', '/'):
                if a == ANY:
                    return b if op == '*' else ANY
                if b == ANY:
                    return a
                return LIN if (a, b) == (LIN, LIN) else ANY
            if op == ',':
                return b
            return ANY
        for c in e.c:
            self.ev(c)
        return ANY

    def assign(self, e):
        key = self.key(e.c[0])
        d = self.ev(e.c[1])
        if e.a['op'] != '=':
            cur = self.ev(e.c[0])
            self.nob += 1
            if {cur, d} == {LIN, LOG} and e.a['op'] in ('+=', '-='):
                self.viol(e, '`%s` combines a %s slot with a %s value' % (pretty(e)[:60], cur, d))
            d = cur if cur != ANY else d
        if key is not None:
            self.st[key] = d
            if e.a['op'] == '=':
                if any(y.k == 'Ref' and (y.a.get('name') == 'rinf' or y.a.get('name') in self.inf) for y in e.c[1].walk()):
                    self.inf.add(key)
                else:
                    self.inf.discard(key)
        return d

    def d4_check(self, x):
        """where a magnitude is exactly zero its logarithm does not exist: the slot then receives the infinite cost"""
        if len(x.c) < 3 or x.c[2] is None:
            return
        c = strip(x.c[0])
        if not (c.k == 'Binary' and c.a['op'] == '!=' and any(strip(y).k == 'Float' and strip(y).a.get('value') == 0.0 for y in c.c)):
            return
        logs = [a for a in x.c[1].walk() if a.k == 'Assign' and a.a['op'] == '=' and any(y.k == 'Call' and callee_name(y) in ('log', 'logf') for y in a.c[1].walk())]
        if not logs:
            return
        key = self.key(logs[0].c[0])
        els = [a for a in x.c[2].walk() if a.k == 'Assign' and self.key(a.c[0]) == key]
        okk = bool(els) and all(any(y.k == 'Ref' and (y.a.get('name') == 'rinf' or y.a.get('name') in self.inf) for y in a.c[1].walk()) for a in els)
        self.d4[(x.line, key)] = (okk, x, logs[0], els)

    # ---- statements
    def run(self, s):
        k = s.k
        if k == 'Block':
            for c in s.c:
                self.run(c)
        elif k == 'If':
            self.ev(s.c[0])
            self.d4_check(s)
            base = dict(self.st)
            inf0 = set(self.inf)
            self.run(s.c[1])
            a = self.st
            inf_a = set(self.inf)
            self.st = dict(base)
            self.inf = set(inf0)
            if len(s.c) > 2 and s.c[2] is not None:
                self.run(s.c[2])
            b = self.st
            self.inf = inf_a & self.inf          # derived from the overflow threshold on every path
            self.st = {key: (a.get(key, ANY) if a.get(key, ANY) != ANY else b.get(key, ANY)) for key in set(a) | set(b)}
            for key in set(a) & set(b):
                if {a[key], b[key]} == {LIN, LOG}:
                    self.st[key] = ANY
        elif k == 'For':
            if s.c[0] is not None:
                self.ev(s.c[0])
            # slices subscripted with this loop's own induction variable: every iteration touches its own element, so each pass starts from
            # the state those slices had on entry to the loop (a read-then-overwrite of element k is not a re-read of the overwritten value)
            iv = None
            i0 = strip(s.c[0]) if s.c[0] is not None else None
            if i0 is not None and i0.k == 'Assign' and strip(i0.c[0]).k == 'Ref':
                iv = strip(i0.c[0]).a.get('id')
            own = set()
            for x in s.c[3].walk():
                if x.k == 'Index' and iv is not None and any(y.k == 'Ref' and y.a.get('id') == iv for y in x.c[1].walk()):
                    key = self.key(x)
                    if key:
                        own.add(key)
            entry = {key: self.st.get(key) for key in own}
            for rnd in range(2):
                if rnd:
                    for key, v in entry.items():
                        if v is None:
                            self.st.pop(key, None)
                        else:
                            self.st[key] = v
                if s.c[1] is not None:
                    self.ev(s.c[1])
                self.run(s.c[3])
                if s.c[2] is not None:
                    self.ev(s.c[2])
        elif k == 'Label':
            for c in s.c:
                self.run(c)
        elif k in ('Goto', 'Empty', 'Return', 'Decl'):
            pass
        elif k == 'Call' and callee_name(s) == 'mc64wd_':
            # the duals come back in the units of the cost array
            args = s.c[1:]
            cost = self.ev(strip(args[4]).c[0]) if strip(args[4]).k == 'Unary' else ANY
            self.cost = cost
            for a in args[-2:]:
                a = strip(a)
                if a.k == 'Unary' and a.a['op'] == '&':
                    key = self.key(a.c[0])
                    if key:
                        self.st[key] = cost
        else:
            self.ev(s)


def run(chk, cid, prog, cfgname):
    chk.clause(cid, 'MC64 scaling job: linear magnitudes and logarithmic costs / duals are never mixed; the empty marker 0 is tested on linear values only')
    f = prog.func('mc64ad_')
    if f is None:
        raise AnalysisBroken('mc64ad_ not found')
    chk.saw(unit=f.unit, func=f.unit + ':' + f.name)
    blk = None
    for x in f.body.walk():
        if x.k == 'If' and canon(x.c[0], ids=False).replace(' ', '').replace('(', '').replace(')', '') == '*job==5' \
                and any(y.k == 'Call' and callee_name(y) == 'mc64wd_' for y in x.c[1].walk()):
            blk = x.c[1]
    if blk is None:
        raise AnalysisBroken('mc64ad_: the `*job == 5` block was not found')
    d = Dom(chk, cid, f, cfgname)
    d.cost = None
    # names that hold the infinite cost when the job-5 block is entered (assigned before it on the straight-line path)
    for st_ in f.body.c:
        if any(y is blk for y in st_.walk()):
            break
        if st_.k not in ('If', 'For', 'While'):
            d.run(st_)
    d.bad.clear(); d.nob = 0; d.st = {}; d.cost = None; d.d4 = {}
    d.run(blk)
    if d.nob < 12 or d.cost is None:
        raise AnalysisBroken('mc64ad_ job 5: only %d domain obligations met / mc64wd_ call not seen; the block has changed shape' % d.nob)
    if LIN not in d.st.values() or LOG not in d.st.values():
        raise AnalysisBroken('mc64ad_ job 5: the flow found no %s quantity; the analysis lost track of the magnitudes' % (LIN if LIN not in d.st.values() else LOG))
    n = 0
    n += 1
    if not d.bad:
        chk.ok(cid, 'mc64ad_:job5:domains-not-mixed', sample='%d obligations; cost slice is %s; final domains %s' % (
            d.nob, d.cost, {k: v for k, v in sorted(d.st.items()) if k.startswith('dw#')}))
    for (line, what), node in sorted(d.bad.items())[:4]:
        chk.violate(cid, 'mc64ad_:job5:%s' % ('empty-marker-on-logarithm' if 'empty marker' in what else 'domains-mixed:' + pretty(node)[:30].replace(' ', '')),
                    loc(f, node), 'mc64ad_', what, cfgname=cfgname)
    # D4 (decided in-flow, see Dom.d4_check): a zero magnitude receives a value derived from the overflow threshold
    for (line, key), (okk, x, lg, els) in sorted(d.d4.items()):
        n += 1
        inst = 'mc64ad_:job5:zero-magnitude-gets-the-infinite-cost:%s' % key
        if okk:
            chk.ok(cid, inst, sample='`%s` / else `%s`' % (pretty(lg)[:40], pretty(els[0])[:30]))
        else:
            chk.violate(cid, inst, loc(f, els[0] if els else x), 'mc64ad_',
                        'when `%s` fails the magnitude is exactly zero and has no logarithm; the else side must give `%s` the infinite cost (rinf / n), but it %s: '
                        'a stored zero then looks like an entry of ordinary size and can be matched onto the diagonal'
                        % (pretty(strip(x.c[0]))[:40], pretty(lg.c[0])[:30], ('does `%s`' % pretty(els[0])[:40]) if els else 'assigns nothing'), cfgname=cfgname)
    for key, nm in (('dw#0', 'u = dw[1..n]'), ('dw#1', 'v = dw[n+1..2n]')):
        n += 1
        inst = 'mc64ad_:job5:dual-is-logarithmic:%s' % key
        if d.st.get(key) == LOG and d.cost == LOG:
            chk.ok(cid, inst, sample=nm)
        else:
            chk.violate(cid, inst, loc(f, blk), 'mc64ad_',
                        'the dual slice %s leaves job 5 as %s (costs handed to mc64wd_: %s); the drivers form exp() of it, which needs a logarithm'
                        % (nm, d.st.get(key), d.cost), cfgname=cfgname)
    return n
