"""C03 Returned L and U are structurally well-formed  —  wiring of L/U to the filled arrays, count/fix-up order, R9 + twins.  (R5a capacity clause: see C19/C07.)"""
from ..facts import Program
from ..run import Check, AnalysisBroken
from ..rules import factor_tail, r9_sibling, r5_grow, r11_kinds, misc
from . import _drv

R9_UNITS = ['gstrf.c', 'column_dfs.c', 'snode_dfs.c', 'copy_to_ucol.c', 'pruneL.c', 'panel_dfs.c', 'util.c', 'memory.c']
TWINS = [('SRC/util.c', 'countnz', 'SRC/util.c', 'ilu_countnz', 'ext'),
         # the relaxed-supernode search decides the supernode partition the structure is built on
         ('SRC/relax_snode.c', 'relax_snode', 'SRC/ilu_relax_snode.c', 'ilu_relax_snode', 'ext'),
         ('SRC/heap_relax_snode.c', 'heap_relax_snode', 'SRC/ilu_heap_relax_snode.c', 'ilu_heap_relax_snode', 'ext')]


def run(tier):
    chk = Check('C03', tier, level='other')
    chk.explanation = (
        'Tail of ?gstrf (4 types): countnz and fixupL run after the factorization loop and before L and U are wrapped; the wrap binds '
        'each Store field to the array that was filled - the binding field <- argument is read from ?Create_SuperNode_Matrix / '
        '?Create_CompCol_Matrix, and the SamePattern_SameRowPerm branch must refresh every bound field that is a count or a growable array '
        '(nnz, nsuper, nzval, nzval_colptr, rowind, rowind_colptr / nnz, nzval, rowind, colptr) from the same source. R9: s=d, c=z '
        'agreement of the symbolic kernels (?column_dfs ?snode_dfs ?copy_to_ucol ?pruneL ?panel_dfs) and the utilities; countnz twin. '
        'Necessary for "value arrays have exactly the implied lengths and stored counts equal actual counts". Not decided: that supernodes '
        'partition the columns, row lists are distinct and ordered, U has no repeats (invariants of data-dependent loops).')
    cfgs = ['tested'] if tier == 'quick' else ['tested', 'idx64']
    chk.configs = cfgs
    for cfgname in cfgs:
        prog = Program.load(which=('SRC',), cfg=cfgname)
        from ..rules import symbolic as _sym
        _sym.dfs_twin_rule(chk, 'C03.dfs', prog, [q + 'column_dfs' for q in 'sdcz'] + ['ilu_%scolumn_dfs' % q for q in 'sdcz'], cfgname)
        chk.clause('C03.D1', 'L/U wired to the filled arrays; count and fix-up before the wrap')
        r11_kinds.run(chk, 'C03.kinds', prog, cfgname, floor=1900)
        chk.clause('C03.options', 'option-controlled choices of ?gstrf / ?gsitrf (relaxation routine, use of remembered pivots)')
        for _p in _drv.PRECS:
            misc.option_choice_rules(chk, 'C03.options', prog, _p, cfgname)
        from ..rules import pivot as _pivot
        chk.clause('C03.pivrow', 'perm_r records the row that is moved to the pivot position (*pivrow and pivptr agree at the store)')
        for _p in 'sdcz':
            _pivot.pivrow_in_sync_rule(chk, 'C03.pivrow', prog, _p, cfgname)
        from ..rules import lints as _lints
        _lints.unused_induction_rule(chk, 'C03.loopvar', prog, cfgname)
        chk.clause('C03.fixup', 'fixupL relabels the row subscripts of L for every matrix that has a column')
        misc.fixup_unconditional_rule(chk, 'C03.fixup', prog, cfgname)
        chk.clause('C03.droprow', 'ilu_?drop_row moves values and subscripts of a row together')
        for p in _drv.PRECS:
            misc.drop_row_alignment(chk, 'C03.droprow', prog, p, cfgname)
            misc.hole_fill_rule(chk, 'C03.droprow', prog, p, cfgname)
            misc.droprow_pointer_fixup_rule(chk, 'C03.droprow', prog, p, cfgname)
        from ..rules import expand as _expand
        chk.clause('C03.bcopy', 'the in-place shift that makes room in the caller workspace moves every byte of the subscript and value arrays behind the one that grows')
        _expand.bcopy_rule(chk, 'C03.bcopy', prog, cfgname)
        n = 0
        for p in _drv.PRECS:
            n += factor_tail.run(chk, 'C03.D1', prog, p, cfgname)
        if n < 40:
            raise AnalysisBroken('C03: %d rule instances, floor 40' % n)
        ns, nc = r5_grow.run(chk, 'C03.D2', prog, cfgname)
        if ns < 56:
            raise AnalysisBroken('C03: %d expansion call sites, floor 56' % ns)
        if cfgname == 'tested':
            r9_sibling.run(chk, prog, 'C03.D3', {p + u for p in 'dz' for u in R9_UNITS}, cfgname)
        r9_sibling.run_twins(chk, prog, 'C03.twins', TWINS, cfgname)
    return chk.finish()
