"""Mutant / benign-edit catalogue (DESIGN.md appendix A): acceptance tests of the engines.
Each entry: id, edits [(file, old, new)] (exact unique replacement), expect = properties whose
check must fire (mutants) or [] with `silent` = properties that must stay silent (benign)."""

M = {}


def add(id, edits, expect=(), silent=(), note=''):
    M[id] = {'id': id, 'edits': list(edits), 'expect': list(expect), 'silent': list(silent), 'note': note}


def get(id):
    return M[id]


# ---------------------------------------------------------------- C09
add('M18', [('SRC/dlacon2.c', "    int jlast;\n    double altsgn, estold;", "    static int jlast;\n    double altsgn, estold;")], ['C09'],
    note='dlacon2: jlast becomes a static local again')
add('M19', [('SRC/sp_ienv.c', "    switch (ispec) {\n\tcase 1: return (20);",
             "    if (ispec == 2 && getenv(\"SLU_RELAX\")) return atoi(getenv(\"SLU_RELAX\"));\n    switch (ispec) {\n\tcase 1: return (20);")], ['C09'],
    note='sp_ienv reads a tuning value from the environment')
add('M18b', [('SRC/memory.c', "void *superlu_malloc(size_t size)\n{\n    void *buf;", "size_t slu_total_bytes;\nvoid *superlu_malloc(size_t size)\n{\n    void *buf;\n    slu_total_bytes += size;")],
    ['C09'], note='allocation counter at file scope')
add('M18c', [('SRC/sp_coletree.c', "static \nint *mxCallocInt(int n)\n{\n    register int i;\n    int *buf;\n", "static int *mx_cache; static\nint *mxCallocInt(int n)\n{\n    register int i;\n    int *buf;\n    if (mx_cache) { int *t = mx_cache; mx_cache = 0; return t; }")],
    ['C09'], note='cached buffer in sp_coletree')
