"""C07 How factor storage is obtained never changes the answer  —  R5 (aliases re-read, capacity tests), structure of ?expand / user_bcopy, R9."""
import os
from ..facts import Program
from ..run import Check, AnalysisBroken
from ..rules import r5_grow, expand, r9_sibling, misc, r6_wspace
from . import _drv

R9_UNITS = ['memory.c', 'gstrf.c', 'gsitrf.c', 'column_dfs.c', 'snode_dfs.c', 'copy_to_ucol.c', 'column_bmod.c', 'snode_bmod.c', 'panel_bmod.c', 'pruneL.c']
R9_ILU = ['ilu_dcolumn_dfs.c', 'ilu_dsnode_dfs.c', 'ilu_dcopy_to_ucol.c', 'ilu_ddrop_row.c', 'ilu_zcolumn_dfs.c', 'ilu_zsnode_dfs.c', 'ilu_zcopy_to_ucol.c', 'ilu_zdrop_row.c']


def run(tier):
    chk = Check('C07', tier, level='other')
    chk.explanation = (
        'R5.b: forward dataflow over the CFG of every routine that can reach ?LUMemXpand (directly or through callees, by a may-expand '
        'summary): after a call that may expand memory type T, every local alias of Glu->{lusup,ucol,lsub,usub} of a type at or behind T '
        '(layout order lusup < ucol < lsub < usub inside a caller workspace) must be re-read from Glu before its next use; likewise a local copy of a capacity (Glu->nzlumax / nzumax / nzlmax) is stale after a call that may raise it, unless it was passed as &maxlen to ?LUMemXpand. R6: the workspace stack invariant used = top1 + size - top2 holds across ?expand / ?LUWorkInit / ?LUWorkFree. Mirror rule: locals named after GlobalLU_t fields are bound to those fields only. R5.a: every '
        'expansion call is under a test against the capacity it enlarges, post-checks are `count >= cap`, pre-checks `need > cap` in a '
        'loop (?expand may grant less than asked), the result is tested and returned. Structure of ?expand: the moved block starts at '
        'expanders[type+1].mem and Glu / expanders of every type behind the grown one advance by the same `extra`; under malloc the old '
        'contents are copied with the right element width before the old block is released; user_bcopy covers every byte; copy_mem_int / copy_mem_<type> move `howmany` elements of their own element type. R9 siblings. '
        'These are necessary for "factors are bit-for-bit independent of how storage was obtained": breaking one gives different (wrong) '
        'factors as soon as one expansion happens in the affected mode. Bit-for-bit equality itself and mem_usage arithmetic: not decided.')
    cfgs = ['tested'] if tier == 'quick' else ['tested', 'idx64', 'cblas']
    chk.configs = cfgs
    for cfgname in cfgs:
        prog = Program.load(which=('SRC',), cfg=cfgname)
        ns, nc = r5_grow.run(chk, 'R5', prog, cfgname)
        if ns < 56 or nc < 60:
            raise AnalysisBroken('C07: %d expansion call sites / %d possibly-expanding calls seen; floors 56 / 60' % (ns, nc))
        chk.clause('C07.D3', 'structure of ?expand / ?LUMemXpand / user_bcopy')
        for p in _drv.PRECS:
            expand.run(chk, 'C07.D3', prog, p, cfgname)
            expand.moved_block_extent_rule(chk, 'C07.D3', prog, p, cfgname)
            expand.growth_progress_rule(chk, 'C07.D3', prog, p, cfgname)
            expand.relaxed_capacity_rule(chk, 'C07.D3', prog, p, cfgname)
            expand.companion_reserve_rule(chk, 'C07.D3', prog, p, cfgname)
            expand.layout_order_rule(chk, 'C07.D3', prog, p, cfgname)
        expand.bcopy_rule(chk, 'C07.D3', prog, cfgname)
        expand.copy_helper_rule(chk, 'C07.D3', prog, cfgname)
        misc.glu_mirror_rule(chk, 'C07.mirror', prog, cfgname, floor=500)
        if r6_wspace.run(chk, 'R6', prog, cfgname) < 32:
            raise AnalysisBroken('C07: workspace allocator routines not found')
        if cfgname == 'tested':
            r9_sibling.run(chk, prog, 'C07.D4', {p + u for p in 'dz' for u in R9_UNITS} | set(R9_ILU), cfgname)
    return chk.finish()
