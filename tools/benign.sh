#!/bin/bash
# run every check on each benign edit; all must exit 0
cd /verif
for b in "$@"; do
  echo "== $b"; tools/mutate.py --id $b 2>&1 | grep -E "exit=[12]|VIOLATION|ANALYSIS" | cut -c1-220 | head -8
done
