"""R4.path  use of an access path after it was released, within one statement list.

R4 tracks blocks held in local variables.  Blocks reached through a path (`LUfactors->L`, `Astore->colptr`) are released by statements such as
`SUPERLU_FREE(LUfactors->L)`; a later statement of the same list that still mentions the very same path (same canonical text, roots not
reassigned in between) dereferences or re-releases freed memory: `SUPERLU_FREE(h->L); Destroy_SuperNode_Matrix(h->L);`.  Syntactic must-alias
only (identical path text), so every report is definite."""
from ..facts import strip, callee_name, canon, loc, root_ref
from ..ir import pretty

FREES = {'superlu_free', 'free'}


def run(chk, cid, prog, cfgname, units_prefix=('SRC/', 'FORTRAN/', 'EXAMPLE/')):
    chk.clause(cid, 'no access path is used after the statement that released it')
    n = 0
    for f in prog.all_funcs():
        if not f.unit.startswith(units_prefix):
            continue
        for blk in f.body.walk():
            if blk.k != 'Block':
                continue
            for i, st in enumerate(blk.c):
                s0 = strip(st)
                if not (s0.k == 'Call' and callee_name(s0) in FREES and len(s0.c) == 2):
                    continue
                arg = strip(s0.c[1])
                if arg.k not in ('Member',) or root_ref(arg) is None:
                    continue
                path = canon(arg)
                rid = root_ref(arg).a.get('id')
                n += 1
                chk.saw(unit=f.unit, func=f.unit + ':' + f.name)
                bad = None
                for later in blk.c[i + 1:]:
                    l0 = strip(later)
                    # reassignment of the path or of its root ends the window
                    if l0.k == 'Assign' and (canon(l0.c[0]) == path or (strip(l0.c[0]).k == 'Ref' and strip(l0.c[0]).a.get('id') == rid)):
                        if any(canon(y) == path for y in l0.c[1].walk()):
                            bad = later
                        break
                    if any(y.k == 'Member' and canon(y) == path for y in later.walk()):
                        bad = later
                        break
                inst = '%s:%s:released-path:%s@%d' % (f.unit, f.name, pretty(arg)[:30], n)
                if bad is None:
                    chk.ok(cid, inst, nontrivial=False)
                else:
                    chk.violate(cid, '%s:use-after-release:%s' % (f.name, pretty(arg)[:40]), loc(f, bad), f.name,
                                '`%s` is released at line %d and `%s` still uses it afterwards (the path is not reassigned in between)'
                                % (pretty(arg)[:40], st.line or s0.line, pretty(bad)[:60]), cfgname=cfgname)
    return n
