"""What MANIFEST.json claims per property.  Edited together with the property modules."""
CLAIMS = {
 'C09': {
  'level': 'proof',
  'technique': 'static analysis: whole-library census of static-storage objects, external-callee reentrancy table, indirect-call roots (rule R1 over clang AST)',
  'design_ref': 'DESIGN.md 4 R1, 5 C09',
  'text': 'Sound over-approximation over all 241 units: every object with static storage duration is const or never written '
          '(stores, ++/--, address reaching a writing parameter, across units by linkage name); every external callee is in a reviewed '
          'reentrancy table (unknown callee = exit 2); indirect calls go through parameters only. This closes, for all schedules and '
          'histories, the clause "no library-level shared mutable state, hence no data race on library state and no dependence on earlier '
          'calls". It does not decide bit-identical floating-point output as such.',
  'note': 'Assumes libc malloc/free/stdio and the vendor BLAS are thread-safe, callers pass disjoint objects, no uninitialised reads. '
          'Positive control fixture must be reported on every run; floors on units/functions/external callees; thorough tier repeats in 5 '
          'preprocessor configurations and cross-checks against llvm-nm data/bss symbols of the compiled objects.',
 },
}
CLAIMS['C18'] = {
  'level': 'proof',
  'technique': 'static analysis: decision-table extraction from the AST of each screening block, position/order/oracle-coverage/inert-exit obligations (rule R2), sibling agreement (R9)',
  'design_ref': 'DESIGN.md 4 R2, 5 C18',
  'text': 'For the 36 screening routines the region from entry to the error return is extracted as (guard -> info code) rows with aliases '
          'substituted and parameters identified by position. Discharged for every row: the guard mentions the reported argument; codes '
          'are ordered along else-if chains; every documented precondition of the oracle table (squareness, negative dimension, Stype/Dtype/'
          'Mtype tags with the routine\'s own precision, lda >= max(0,n), enum ranges, lwork < -1, equed letter, non-positive scale factor, '
          'B/X column mismatch, flag letters) is implied by a disjunct that yields exactly -(position); no allocation, allocating call, or '
          'store/call writing a protected argument happens before the error return. This decides the property for every single-argument '
          'corruption listed in the oracle, for all inputs.',
  'note': 'Trusted: the oracle table in slucheck/props/c18.py (transcribed from the routine headers), clang parser, no-alias contract. '
          'Not decided: preconditions the headers do not state (e.g. consistency of perm_c contents).',
}
CLAIMS['C19'] = {
  'level': 'other',
  'technique': 'static analysis: path-sensitive ownership/typestate dataflow over own CFG with callee summaries (R4), destroyer field ledger, sibling agreement (R9)',
  'design_ref': 'DESIGN.md 4 R4 R9, 5 C19',
  'text': 'Every function of SRC, the Fortran bridge and the example reader is analysed path-sensitively: each block from the allocation '
          'vocabulary (derived bottom-up: anything returning or storing a fresh block) is released or handed to the caller exactly once on '
          'every return exit; no double release; no use after release; contents created in local objects are destroyed; each Destroy_* '
          'releases every pointer field of its format struct (fields read from the parsed struct). s=d and c=z instantiations of all '
          'routines agree. Decides the leak / double-free / use-after-free clauses for all inputs and all exits, including the size-query, '
          'singular and out-of-space exits no test drives. Does not decide subscript ranges, uninitialised reads or undefined arithmetic.',
  'note': 'Known findings (48, ?gstrf/?gsitrf/?LUMemInit out-of-space exits) are listed in known_findings.txt; two leak classes were '
          'repaired by fix: commits. Trusted: ownership contract for caller-visible objects, GlobalLU_t-as-view, clang parser, own CFG.',
}
CLAIMS['C01'] = {
  'level': 'other',
  'technique': 'static analysis: flag-partitioned conditional constant propagation over the CFG with an event oracle (R3), permutation-role classification (R7), sibling agreement (R9)',
  'design_ref': 'DESIGN.md 4 R3 R7 R9, 5 C01',
  'text': 'Decides the dispatch glue of the simple driver and of the triangular-solve routine for every valuation of storage orientation, '
          'ColPerm, factorization outcome and Trans, in all four arithmetic types: row storage is factored as the transposed column view and '
          'solved with TRANS; ordering, post-ordering, factorization and solve are called in order with the documented arguments; the solve '
          'happens iff info == 0 and B is untouched otherwise; ?gstrs scatters/gathers with perm_r/perm_c in the roles implied by '
          'A = Pr^T L U Pc^T for each Trans and runs L before U (U^T before L^T) with the documented kernel flags. Each clause is a necessary '
          'condition of the residual bound (a tree violating it returns a wrong X for any unsymmetric matrix / non-identity permutation). '
          'The residual bound itself and the numerical kernels are not decided (only their s=d, c=z agreement is).',
  'note': 'Oracle written from the routine headers and the algebra A = Pr^T L U Pc^T (slucheck/props/c01.py). Representative values stand '
          'for the classes of info and nrhs. No-alias contract.',
}
NOT_APPLICABLE = {}
