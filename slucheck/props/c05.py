"""C05 Expert driver solves op(A)X=B and mutates A, B only as documented  —  R3 oracle groups equil/scale on ?gssvx, R8 on ?laqgs, R9."""
from ..facts import Program
from ..run import Check, AnalysisBroken
from ..rules import r9_sibling, kernels
from ..rules.effects import PathEffects
from . import _drv, _gssvx, _expert, c01

SPLIT = ('Fact', 'Trans', 'Equil', 'A.Stype', 'equed', 'info')
R9_UNITS = ['gssvx.c', 'gsequ.c', 'laqgs.c', 'gstrs.c', 'sp_blas2.c', 'gsrfs.c']


def run(tier):
    chk = Check('C05', tier, level='other')
    chk.explanation = (
        'R3 on ?gssvx (4 types): for every valuation of Fact x Trans x Equil x storage x equed-on-entry x outcome of ?gsequ x letter '
        'returned by ?laqgs x outcome of ?gstrf the oracle derived from Ahat = diag(R) AA diag(C), AA = A or A^T, requires: ?gsequ then '
        '?laqgs on the matrix that is factored iff Fact != FACTORED and Equil = YES (no ?laqgs after a failed ?gsequ); A never written when '
        'Equil = NO; B scaled by R (effective no-transpose, row-equilibrated) or by C (effective transpose, column-equilibrated) and by '
        'nothing else; X := B copied after that scaling and before ?gstrs(trant, L, U, perm_c, perm_r, X); X unscaled by C resp. R after the '
        'solve; trant denotes op(A) on the factored matrix (row storage swaps NOTRANS/TRANS); every subscript of B/X uses that matrix\'s own '
        'leading dimension. R9: s=d, c=z agreement of the driver, ?gsequ, ?laqgs, ?gstrs, sp_?trsv, ?gsrfs. Necessary conditions of the '
        'stated result; the accuracy of X is not decided.')
    chk.assumptions = ['oracle from the header of ?gssvx and the algebra of the equilibrated system (slucheck/props/_expert.py)']
    cfgs = ['tested'] if tier == 'quick' else ['tested', 'cblas', 'idx64']
    chk.configs = cfgs
    for cfgname in cfgs:
        prog = Program.load(which=('SRC',), cfg=cfgname)
        eff = PathEffects(prog)
        from ..rules import spblas as _sb
        _sb.conjugate_branch_rule(chk, 'C05.conj', prog, cfgname)
        kernels.run_factor(chk, 'C05.kern', prog, cfgname)
        from ..rules import r12_supernodal as _r12
        chk.clause('C05.kern.index', 'abstract interpretation of the supernodal update kernels in a polynomial index domain: every access to the supernode block is the entry the algebra needs')
        for _p in 'ds':
            _r12.run(chk, 'C05.kern.index', prog, _p, cfgname)
            _r12.run_snode(chk, 'C05.kern.index', prog, _p, cfgname)
        kernels.leading_dimension_agreement(chk, 'C05.ld', prog, [q + x for q in 'sdcz' for x in ('gstrs', 'gsrfs')] + ['sp_%sgemm' % q for q in 'sdcz'],
                                            cfgname, floor=12)
        for g in ('equil', 'scale'):
            chk.clause('C05.' + g, 'R3 oracle group `%s` of ?gssvx' % g)
        chk.clause('C05.phases', 'R3 oracle group `phases` of ?gssvx')
        chk.clause('C05.fixup', 'fixupL relabels the row subscripts of L for every matrix that has a column')
        from ..rules import misc as _misc
        _misc.fixup_unconditional_rule(chk, 'C05.fixup', prog, cfgname)
        chk.clause('C05.refine', 'R3 oracle group `refine` of ?gssvx (arguments of ?gsrfs)')
        chk.clause('C01.D2', 'R3/R7 permutation roles and solve order of ?gstrs')
        nleaves = 0
        for p in _drv.PRECS:
            f, fl, leaves = _gssvx.leaves_for(prog, eff, p, ilu=False, tier=tier, split=SPLIT)
            if f is None:
                raise AnalysisBroken('C05: %sgssvx not found' % p)
            chk.saw(unit=f.unit, func=f.unit + ':' + f.name)
            ctx = _expert.Ctx(prog, f, fl, p, False)
            _expert.run_leaf_groups(chk, 'C05', ctx, leaves, ('equil', 'scale'), cfgname)
            nleaves += len(leaves)
            # which phases run for each Fact value (an ordering recomputed for SamePattern no longer matches the remembered tree) and the
            # dispatch of the solve routine over Trans: both decide whether X solves op(A) X = B at all
            f2, fl2, leaves2 = _gssvx.leaves_for(prog, eff, p, ilu=False, tier=tier, split=('Fact', 'ColPerm', 'A.Stype', 'Equil', 'info', 'lwork'))
            _expert.run_leaf_groups(chk, 'C05', _expert.Ctx(prog, f2, fl2, p, False), leaves2, ('phases',), cfgname)
            c01.gstrs_oracle(chk, prog, eff, p, cfgname)
            # the refinement must work on the same (reversed, for row storage) transpose flag as the solve, else it "refines" X towards the
            # solution of the other system
            f3, fl3, leaves3 = _gssvx.leaves_for(prog, eff, p, ilu=False, tier=tier, split=('Fact', 'Trans', 'A.Stype', 'IterRefine', 'B.ncol', 'info'))
            _expert.run_leaf_groups(chk, 'C05', _expert.Ctx(prog, f3, fl3, p, False), leaves3, ('refine',), cfgname)
        if nleaves < 4 * 300:
            raise AnalysisBroken('C05: %d leaf valuations explored, floor %d' % (nleaves, 1200))
        chk.notes.append('%s: %d leaf valuations of ?gssvx' % (cfgname, nleaves))
        if cfgname == 'tested':
            r9_sibling.run(chk, prog, 'C05.D4', {p + u for p in 'dz' for u in R9_UNITS}, cfgname)
    return chk.finish()
