"""C11 Equilibration factors and their application follow the definition  —  R8 (?mach, ?laqgs, ?gsequ), R9."""
from ..facts import Program
from ..run import Check, AnalysisBroken
from ..rules import r8_equil, r9_sibling
from ..rules.effects import PathEffects

R9_UNITS = ['gsequ.c', 'laqgs.c', 'mach.c']


def run(tier):
    chk = Check('C11', tier, level='other')
    chk.explanation = (
        'R8. ?mach is evaluated by constant propagation for each documented letter and must return the LAPACK ?lamch constant (eps, sfmin, '
        'base, eps*base, digits, emin, rmin, emax, rmax) built from the float.h values in the parsed source. ?laqgs is explored for every '
        'valuation of (rowcnd <, >= 0.1) x (colcnd <, >= 0.1) x (amax below small, inside, above large) with small = sfmin/prec evaluated '
        'from ?mach: the letter stored in equed and the set of factor arrays {r, c} that flow into the stores to A must be N<->{}, R<->{r}, '
        'C<->{c}, B<->{r,c} exactly as the documented threshold rule selects. ?gsequ: each scale factor is 1/min(max(x, smlnum), bignum) '
        'with smlnum = ?mach("S"), bignum = 1/smlnum; an all-zero row is reported as i+1 under r[i] == 0 and an all-zero column as '
        'A->nrow + j + 1 under c[j] == 0; magnitudes are fabs / ?_abs1. R9: four siblings. Not decided: that the largest scaled entry '
        'equals one up to rounding, that rowcnd/colcnd/amax equal their definitions (data-dependent loops).')
    cfgs = ['tested'] if tier == 'quick' else ['tested', 'idx64']
    chk.configs = cfgs
    for cfgname in cfgs:
        prog = Program.load(which=('SRC',), cfg=cfgname)
        eff = PathEffects(prog)
        chk.clause('C11.mach', 'R8 machine constants by constant propagation')
        chk.clause('C11.laqgs', 'R8 letter <-> factors <-> threshold rule')
        chk.clause('C11.gsequ', 'R8 clamp, info convention, magnitude')
        from ..rules import misc as _misc
        chk.clause('C11.cabs', 'complex entries are measured by a magnitude that takes both the real and the imaginary part')
        _misc.complex_magnitude_rule(chk, 'C11.cabs', prog, cfgname)
        from ..rules import r11_kinds as _r11
        _r11.run(chk, 'C11.kinds', prog, cfgname, funcs={q + u for q in 'sdcz' for u in ('gsequ', 'laqgs')}, floor=120)
        n = 0
        for mp in 'ds':
            k = r8_equil.mach_oracle(chk, 'C11.mach', prog, eff, mp, cfgname)
            if k < 9:
                raise AnalysisBroken('C11: %smach explored for %d letters, floor 9' % (mp, k))
            chk.saw(unit='SRC/%smach.c' % mp, func='SRC/%smach.c:%smach' % (mp, mp))
        for p in 'sdcz':
            k = r8_equil.laqgs_oracle(chk, 'C11.laqgs', prog, eff, p, cfgname)
            if k < 12:
                raise AnalysisBroken('C11: %slaqgs explored for %d valuations, floor 12' % (p, k))
            k2 = r8_equil.gsequ_rules(chk, 'C11.gsequ', prog, p, cfgname)
            if k2 < 5:
                raise AnalysisBroken('C11: %sgsequ matched %d rule instances, floor 5' % (p, k2))
            for u in ('laqgs', 'gsequ'):
                chk.saw(unit='SRC/%s%s.c' % (p, u), func='SRC/%s%s.c:%s%s' % (p, u, p, u))
        if cfgname == 'tested':
            r9_sibling.run(chk, prog, 'C11.D4', {p + u for p in 'dz' for u in R9_UNITS}, cfgname)
    return chk.finish()
