"""C10 Column orderings are permutations; elimination tree exact and postordered  —  R3 (get_perm_c, sp_preorder), R10 must-not-read, R4, extent rule, twins."""
from ..facts import Program
from ..run import Check, AnalysisBroken
from ..rules import ordering, preorder, r10, extent, r9_sibling, r11_kinds
from ..rules.effects import PathEffects
from . import c19

UNITS = {'SRC/get_perm_c.c', 'SRC/sp_preorder.c', 'SRC/sp_coletree.c', 'SRC/colamd.c', 'SRC/mmd.c'}
TWINS = [('SRC/relax_snode.c', 'relax_snode', 'SRC/ilu_relax_snode.c', 'ilu_relax_snode', 'ext'),
         ('SRC/heap_relax_snode.c', 'heap_relax_snode', 'SRC/ilu_heap_relax_snode.c', 'ilu_heap_relax_snode', 'ext')]


def run(tier):
    chk = Check('C10', tier, level='other')
    chk.explanation = (
        'R3 on get_perm_c for every ColPerm value x (empty / non-empty adjacency structure): NATURAL stores the identity over n entries; '
        'MMD_ATA / MMD_AT_PLUS_A build the structure of A\'A / A\'+A from A\'s pattern, hand exactly those private arrays to genmmd_, increment '
        'all n+1 column pointers and all bnz row indices once before the 1-based routine and decrement all n entries of perm_c once after '
        'it, and store the identity when the structure is empty; COLAMD goes through get_colamd, which copies n+1 / nnz entries and inverts '
        'COLAMD\'s output. R3 on sp_preorder: columns scattered by perm_c; tree computed and post-ordered only for Fact = DOFACT; no post-'
        'order in symmetric mode; etree, colbeg, colend relabelled by the same post and perm_c composed with it. R10: no routine reachable '
        'from the orderings reads a matrix value (the ordering depends on the pattern only). R4: every exit of these routines releases its '
        'temporaries. Extent rule on sp_coletree work arrays; relaxed-supernode twins. Not decided: bijectivity and quality of the MMD / '
        'COLAMD output, exactness of the elimination tree (Liu\'s algorithm), contiguity of subtrees in the post-order.')
    cfgs = ['tested'] if tier == 'quick' else ['tested', 'idx64']
    chk.configs = cfgs
    for cfgname in cfgs:
        prog = Program.load(which=('SRC',), cfg=cfgname)
        eff = PathEffects(prog)
        chk.clause('C10.D4', 'R3 oracle of get_perm_c (dispatch, index base)')
        chk.clause('C10.D3', 'R3/R7 oracle of sp_preorder')
        chk.clause('C10.D1', 'R10 orderings never read matrix values')
        r11_kinds.run(chk, 'C10.kinds', prog, cfgname, floor=1900)
        extent.elem_size_rule(chk, 'C10.elem', prog, {'SRC/get_perm_c.c', 'SRC/sp_coletree.c', 'SRC/sp_preorder.c', 'SRC/colamd.c', 'SRC/mmd.c'}, cfgname, floor=10)
        n1 = ordering.get_perm_c_oracle(chk, 'C10.D4', prog, eff, cfgname)
        ordering.colamd_rules(chk, 'C10.D4', prog, cfgname)
        ordering.downward_slot_rule(chk, 'C10.slot', prog, cfgname)
        ordering.sentinel_bound_rule(chk, 'C10.sentinel', prog, cfgname)
        chk.clause('C10.view', 'the permuted-column view carries the dimensions and types of A itself')
        ordering.view_header_rule(chk, 'C10.view', prog, cfgname)
        chk.clause('C10.weight', 'minimum degree: the weight of an absorbed node moves to its absorber and the node is left with weight zero')
        ordering.mmd_weight_rule(chk, 'C10.weight', prog, cfgname)
        n2 = preorder.run(chk, 'C10.D3', prog, eff, cfgname)
        if n1 < 6 or n2 < 5:
            raise AnalysisBroken('C10: %d get_perm_c leaves, %d sp_preorder leaves; floors 6, 5' % (n1, n2))
        for fn in ('get_perm_c', 'get_colamd', 'getata', 'at_plus_a', 'sp_coletree', 'sp_symetree', 'TreePostorder', 'genmmd_', 'colamd', 'sp_preorder'):
            if prog.func(fn) is None:
                continue
            r10.mustnotread(chk, 'C10.D1', prog, eff, fn, 'nzval[', cfgname, why='- the column ordering and the elimination tree must depend on the sparsity pattern only')
        fnames = {f.name for f in prog.all_funcs() if f.unit in UNITS}
        c19.run_r4(chk, prog, cfgname, funcs=fnames, cid='C10.D5')
        extent.run(chk, 'C10.extent', prog, {'SRC/sp_coletree.c'}, cfgname)
        r9_sibling.run_twins(chk, prog, 'C10.twins', TWINS, cfgname)
    return chk.finish()
