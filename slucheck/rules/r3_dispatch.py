"""R3 `dispatch`: flag-partitioned event traces.

For a target function the property module declares a finite set of *flags*: an
access path (parameters by position: $1->Trans, $2->Stype, *$6, $12 ...) or a
post-call value (what ?gstrf leaves in *info, what ?laqgs leaves in *equed) with a
finite list of representative values.  The engine runs a conditional constant
propagation over the function's CFG once per *needed* flag valuation (a flag is
split lazily, the first time a branch or an event argument depends on it):
  - the abstract value of an expression is a constant, a symbolic identity
    (parameter k, path loaded from a parameter, address of a local, fresh block
    at a site) or unknown; no arithmetic on unknowns, no solver;
  - branch conditions are evaluated three-valued; decided branches prune edges,
    undecided (data) branches keep both; loops are handled by the usual join;
  - along the surviving graph it records *events*: calls to routines named by the
    oracle with the abstract value of each argument, and stores whose target is
    rooted at a parameter, with the identities read on the right-hand side.
The property module's oracle then states constraints over the events of each
leaf valuation (must-call / must-not-call / argument identity / order).
"""
from ..facts import strip, callee_name, const_value
from ..ir import N, pretty
from . import effects as effmod


class Split(Exception):
    def __init__(self, flag):
        self.flag = flag


class FlagRef(object):
    __slots__ = ('name',)

    def __init__(self, name):
        self.name = name

    def __eq__(self, o):
        return isinstance(o, FlagRef) and o.name == self.name

    def __hash__(self):
        return hash(('flagref', self.name))

    def __repr__(self):
        return 'Flag(%s)' % self.name


UNK = None
ALLOC_NAMES = {'superlu_malloc', 'malloc', 'calloc', 'intMalloc', 'int32Malloc', 'intCalloc', 'int32Calloc', 'floatMalloc', 'floatCalloc',
               'doubleMalloc', 'doubleCalloc', 'singlecomplexMalloc', 'singlecomplexCalloc', 'complexMalloc', 'complexCalloc',
               'doublecomplexMalloc', 'doublecomplexCalloc'}


def is_sym(v):
    return isinstance(v, tuple)


_IDX = None


def join_val(a, b):
    """least upper bound of two abstract values; NOJOIN when there is none short of unknown"""
    if a == b:
        return a
    if isinstance(a, tuple) and isinstance(b, tuple) and a and b:
        if a[0] == 'path' and b[0] == 'path':
            import re
            ga, gb = re.sub(r'\[\d+\]', '[*]', a[1]), re.sub(r'\[\d+\]', '[*]', b[1])
            if ga == gb:
                return ('path', ga)
        ta, tb = taint_of(a), taint_of(b)
        if ta is not None and tb is not None:
            return ('tnt', frozenset(ta) | frozenset(tb))
    return NOJOIN


NOJOIN = ('nojoin',)


def taint_of(v):
    """arrays an unknown scalar value was computed from: ('tnt', {...}) or an element loaded from an array"""
    if isinstance(v, tuple) and v:
        if v[0] == 'tnt':
            return v[1]
        if v[0] == 'path' and '[' in v[1]:
            return frozenset([v[1].split('[')[0]])
    return None


def ptr_desc(v):
    """string form of a pointer-like abstract value, usable as a path prefix"""
    if isinstance(v, tuple):
        if v[0] == 'p':
            return '$%d' % v[1]
        if v[0] == 'path':
            return v[1]
        if v[0] == 'addr':
            return '&' + v[1]
        if v[0] == 'fresh':
            return 'fresh@%s' % v[1]
        if v[0] == 'off':
            return ptr_desc(v[1])
    return None


class Leaf(object):
    def __init__(self, valuation, events, reach, cfg, instate, engine):
        self.val = dict(valuation)
        self.events = events
        self.reach = reach
        self.cfg = cfg
        self.instate = instate
        self.engine = engine
        self.pruned = {}

    def calls(self, name_pred):
        if isinstance(name_pred, str):
            return [e for e in self.events if e['kind'] == 'call' and e['name'] == name_pred]
        return [e for e in self.events if e['kind'] == 'call' and name_pred(e['name'])]

    def stores(self, pred=None):
        return [e for e in self.events if e['kind'] == 'store' and (pred is None or pred(e))]

    def returns(self):
        return [e for e in self.events if e['kind'] == 'return']

    def can_reach(self, a, b, avoiding=()):
        """is node b reachable from node a in the pruned graph without passing through `avoiding`"""
        seen = set()
        st = [a]
        avoid = set(avoiding)
        while st:
            n = st.pop()
            if n in seen or n in avoid and n != a:
                continue
            seen.add(n)
            if n == b and n != a:
                return True
            for s in self.succ(n):
                if s not in seen:
                    st.append(s)
        return b in seen and b != a

    def succ(self, n):
        return self.engine.pruned_succ(self, n)

    def must_precede(self, a_nodes, b):
        """every path entry -> b passes through one of a_nodes"""
        a_nodes = set(a_nodes)
        if b in a_nodes:
            return True
        seen = set()
        st = [self.cfg.entry.id]
        while st:
            n = st.pop()
            if n in seen or n in a_nodes:
                continue
            seen.add(n)
            if n == b:
                return False
            st.extend(self.succ(n))
        return True

    def reaches_after(self, a, b):
        """b reachable from a (a before b possible)"""
        return self.can_reach(a, b)


class Engine(object):
    def __init__(self, prog, f, flags, havoc=None, callees=None, eff=None, max_leaves=20000):
        """flags: name -> {'path': canonical path or None, 'values': [...]}
        havoc: list of (callee predicate, function(engine, call node, argvals, env) -> None) applied after a call's generic effects
        callees: predicate on callee name -> record event"""
        self.prog = prog
        self.f = f
        self.flags = flags
        self.path2flag = {d['path']: n for n, d in flags.items() if d.get('path')}
        self.havoc = havoc or []
        self.want = callees or (lambda name: True)
        self.peff = eff if isinstance(eff, effmod.PathEffects) else effmod.PathEffects(prog)
        self.cfg = prog.cfg(f)
        self.pidx = {pid: i + 1 for i, (_, pid, _) in enumerate(f.params)}
        self.ptypes = {pid: t for (_, pid, t) in f.params}
        self.max_leaves = max_leaves
        self.join_of = {id(n.ast): n.id for n in self.cfg.nodes if n.kind == 'join' and n.ast is not None}
        self.loops_of = {}
        self._index_loops(f.body, [])
        self.order = {n: i for i, n in enumerate(self.cfg.rpo())}
        self.flagpaths_by_root = {}
        for path in self.path2flag:
            r = path.lstrip('*')
            for sep in ('->', '[', '.'):
                if sep in r:
                    r = r.split(sep)[0]
            self.flagpaths_by_root.setdefault(r, []).append(path)
        self.leaves = []
        self.nruns = 0

    def _index_loops(self, n, loops):
        self.loops_of[id(n)] = loops
        inner = loops + [n] if n.k in ('For', 'While', 'Do') else loops
        if n.k == 'For':
            # init and condition belong to the enclosing context, body and increment to the loop
            self._index_loops(n.c[0], loops)
            self._index_loops(n.c[1], inner)
            self._index_loops(n.c[2], inner)
            self._index_loops(n.c[3], inner)
            return
        for c in n.c:
            self._index_loops(c, inner)

    def loop_info(self, ast, env):
        """[(direction, abstract bound)] of the loops enclosing an AST node, outermost first"""
        out = []
        for lp in self.loops_of.get(id(ast), []):
            d, bound = None, UNK
            if lp.k == 'For':
                inc = strip(lp.c[2])
                if inc.k == 'Unary' and inc.a['op'] in ('++', '--'):
                    d = 'up' if inc.a['op'] == '++' else 'down'
                elif inc.k == 'Assign' and inc.a['op'] in ('+=', '-='):
                    d = 'up' if inc.a['op'] == '+=' else 'down'
                c = strip(lp.c[1])
                if c.k == 'Binary' and c.a['op'] in ('<', '<=', '>', '>=', '!='):
                    bound = self.eval_quiet(c.c[1], env)
                    bexpr = c.c[1]
                    out.append((d, bound, c.a['op'], bexpr))
                    continue
            out.append((d, bound, None, None))
        return out

    # ------------------------------------------------------------ driver
    def run(self):
        self._explore({})
        return self.leaves

    def _explore(self, valuation):
        cfg = self.cfg
        IN = {cfg.entry.id: {}}
        self._continue(dict(valuation), IN, [cfg.entry.id])

    def _continue(self, valuation, IN, work):
        """run the dataflow to its fixpoint; when a flag is needed, fork the current state once per value of the flag
        (everything computed so far did not depend on it and stays valid)"""
        if len(self.leaves) > self.max_leaves:
            raise RuntimeError('R3: too many leaf valuations in %s' % self.f.name)
        self.nruns += 1
        try:
            leaf = self._dataflow(valuation, IN, work)
        except Split as s:
            for v in self.flags[s.flag]['values']:
                v2 = dict(valuation)
                v2[s.flag] = v
                self._continue(v2, dict(IN), list(work))
            return
        for name, d in self.flags.items():
            if len(d['values']) == 1 and name not in leaf.val:
                leaf.val[name] = d['values'][0]      # single-valued flags the path never read
        self.leaves.append(leaf)

    # ------------------------------------------------------------ values
    def flagval(self, name):
        if name in self.val:
            return self.val[name]
        raise Split(name)

    def resolve(self, v):
        if isinstance(v, FlagRef):
            return self.flagval(v.name)
        return v

    def load(self, path, env, typ=None):
        if path is None:
            return UNK
        if path in env:
            return self.resolve(env[path])
        if path in self.path2flag:
            return self.flagval(self.path2flag[path])
        if path.startswith('$') or path.startswith('*$'):
            return ('path', path)
        return UNK

    def lpath(self, e, env):
        """canonical path of an l-value expression, or None"""
        e = strip(e)
        k = e.k
        if k == 'Ref':
            vid = e.a.get('id')
            if vid in self.pidx:
                return '$%d' % self.pidx[vid]
            if e.a.get('dk') == 'VarDecl':
                return 'L:%s' % vid
            return None
        if k == 'Member':
            if e.a['arrow']:
                b = ptr_desc(self.eval(e.c[0], env))
                if b is None:
                    return None
                if b.startswith('&'):
                    return b[1:] + '.' + e.a['name']
                return b + '->' + e.a['name']
            b = self.lpath(e.c[0], env)
            return None if b is None else b + '.' + e.a['name']
        if k == 'Unary' and e.a['op'] == '*':
            b = ptr_desc(self.eval(e.c[0], env))
            if b is None:
                return None
            if b.startswith('&'):
                return b[1:]
            return '*' + b
        if k == 'Index':
            b = ptr_desc(self.eval(e.c[0], env))
            if b is None:
                bl = self.lpath(e.c[0], env)     # array object
                if bl is None:
                    return None
                b = bl
            i = self.eval(e.c[1], env)
            return '%s[%s]' % (b, i if isinstance(i, int) else '*')
        return None

    def eval(self, e, env):
        e0 = e
        e = strip(e)
        k = e.k
        if k in ('Int', 'Char'):
            return e.a['value']
        if k == 'Float':
            return e.a['value'] if isinstance(e.a['value'], float) else UNK
        if k == 'Str':
            return ('str', e.a['value'])
        if k == 'Ref':
            dk = e.a.get('dk')
            if dk == 'EnumConstantDecl':
                return self.prog.enums.get(e.a['name'], UNK)
            if dk == 'FunctionDecl':
                return ('func', e.a['name'])
            vid = e.a.get('id')
            if vid in self.pidx:
                p = '$%d' % self.pidx[vid]
                if p in env:
                    return self.resolve(env[p])
                t = self.ptypes.get(vid) or ''
                if '*' in t or '[' in t:
                    return ('p', self.pidx[vid])
                if p in self.path2flag:
                    return self.flagval(self.path2flag[p])
                return ('path', p)
            p = 'L:%s' % vid
            if p in env:
                return self.resolve(env[p])
            t = e.t or ''
            if '[' in t:            # local array decays to its own address
                return ('addr', p)
            return UNK
        if k in ('Member', 'Index') or (k == 'Unary' and e.a['op'] == '*'):
            t = e.t or ''
            if k == 'Member' and '[' in t:
                p = self.lpath(e, env)
                return ('addr', p) if p else UNK
            return self.load(self.lpath(e, env), env, e.t)
        if k == 'Unary':
            op = e.a['op']
            if op == '&':
                p = self.lpath(e.c[0], env)
                if p is None:
                    return UNK
                inner = strip(e.c[0])
                if inner.k == 'Index':
                    b = self.eval(inner.c[0], env)
                    if is_sym(b):
                        return ('off', b)
                return ('addr', p)
            if op in ('++', '--'):
                self.assign(e.c[0], UNK, env, node=e)
                return UNK
            v = self.eval(e.c[0], env)
            if op == '!':
                if v is UNK or is_sym(v) and v[0] not in ('p', 'addr', 'fresh', 'str', 'func'):
                    return UNK
                if is_sym(v):
                    return 0
                return int(not v)
            if isinstance(v, (int, float)):
                if op == '-':
                    return -v
                if op == '+':
                    return v
                if op == '~' and isinstance(v, int):
                    return ~v
            return UNK
        if k == 'Binary':
            op = e.a['op']
            if op == '&&':
                a = self.truth(self.eval(e.c[0], env))
                if a is False:
                    return 0
                b = self.truth(self.eval(e.c[1], env))
                if b is False:
                    return 0
                if a is True and b is True:
                    return 1
                return UNK
            if op == '||':
                a = self.truth(self.eval(e.c[0], env))
                if a is True:
                    return 1
                b = self.truth(self.eval(e.c[1], env))
                if b is True:
                    return 1
                if a is False and b is False:
                    return 0
                return UNK
            if op == ',':
                self.eval(e.c[0], env)
                return self.eval(e.c[1], env)
            a = self.eval(e.c[0], env)
            b = self.eval(e.c[1], env)
            if is_sym(a) or is_sym(b):
                ta = taint_of(a)
                tb = taint_of(b)
                if (ta is not None or tb is not None) and op in ('+', '-', '*', '/'):
                    return ('tnt', (ta or frozenset()) | (tb or frozenset()))
                if op in ('==', '!=') and is_sym(a) and is_sym(b) and a[0] == b[0] and a[0] in ('p', 'addr', 'fresh', 'str'):
                    return int((a == b) == (op == '=='))
                if op in ('==', '!=') and (a == 0 or b == 0):
                    s = a if is_sym(a) else b
                    if s[0] in ('addr', 'str', 'func'):
                        return int(op == '!=')
                    return UNK
                if op in ('+', '-') and is_sym(a) and a[0] in ('p', 'path', 'fresh', 'addr', 'off'):
                    return ('off', a if a[0] != 'off' else a[1])
                return UNK
            if a is UNK or b is UNK:
                return UNK
            try:
                if op == '+': return a + b
                if op == '-': return a - b
                if op == '*': return a * b
                if op == '/': return (a // b if isinstance(a, int) and isinstance(b, int) else a / b) if b else UNK
                if op == '%': return a % b if b else UNK
                if op == '==': return int(a == b)
                if op == '!=': return int(a != b)
                if op == '<': return int(a < b)
                if op == '>': return int(a > b)
                if op == '<=': return int(a <= b)
                if op == '>=': return int(a >= b)
                if op == '&': return a & b
                if op == '|': return a | b
                if op == '^': return a ^ b
                if op == '<<': return a << b
                if op == '>>': return a >> b
            except Exception:
                return UNK
            return UNK
        if k == 'Assign':
            if e.a['op'] == '=':
                v = self.eval(e.c[1], env)
                if v is UNK and strip(e.c[0]).k == 'Ref':
                    t = self.reads_of(e.c[1], env)
                    if t:
                        v = ('tnt', frozenset(t))      # unknown scalar that was computed from these arrays
                self.assign(e.c[0], v, env, node=e)
                return v
            old = self.eval(e.c[0], env)
            r = self.eval(e.c[1], env)
            v = UNK
            if isinstance(old, (int, float)) and isinstance(r, (int, float)):
                op = e.a['op'][:-1]
                try:
                    v = {'+': old + r, '-': old - r, '*': old * r}.get(op, UNK)
                except Exception:
                    v = UNK
            self.assign(e.c[0], v, env, compound=e, node=e)
            return v
        if k == 'Cond':
            c = self.truth(self.eval(e.c[0], env))
            if c is True:
                return self.eval(e.c[1], env)
            if c is False:
                return self.eval(e.c[2], env)
            a = self.eval(e.c[1], dict(env))
            b = self.eval(e.c[2], dict(env))
            return a if a == b else UNK
        if k == 'Call':
            return self.call(e, env)
        if k == 'Sizeof':
            return UNK
        for c in e.c:
            self.eval(c, env)
        return UNK

    @staticmethod
    def truth(v):
        if v is UNK:
            return None
        if is_sym(v):
            if v[0] in ('addr', 'str', 'func'):
                return True
            return None
        return bool(v)

    # ------------------------------------------------------------ effects
    def assign(self, lv, v, env, compound=None, node=None):
        lv = strip(lv)
        p = self.lpath(lv, env)
        self.cur_stores.append((lv, v, compound, node))
        if p is None:
            # store through an unknown pointer: forget everything loaded from memory
            for key in list(env):
                if not key.startswith('L:') or '->' in key or '[' in key:
                    del env[key]
            return
        if v is UNK:
            env.pop(p, None)
            if p in self.path2flag:
                env[p] = ('clobbered',)
        else:
            env[p] = v
        # a store to X kills X-prefixed entries (fields / elements)
        for key in list(env):
            if key != p and (key.startswith(p + '.') or key.startswith(p + '->') or key.startswith(p + '[') or key == '*' + p):
                del env[key]
        if '[*]' in p:
            base = p.split('[*]')[0]
            for key in list(env):
                if key.startswith(base + '['):
                    del env[key]

    def kill_paths(self, v, suffixes, env):
        """forget what is known about the locations  <pointer v><suffix>  for each written suffix"""
        d = ptr_desc(v)
        if d is None:
            return
        cands = []
        for t in suffixes:
            if d.startswith('&'):
                base = d[1:]
                if t.startswith('[]'):
                    c = base + t[2:]
                elif t.startswith('->'):
                    c = base + '.' + t[2:]
                else:
                    c = base + t
                cands.append(c[:-2] if c.endswith('[]') else c)
            else:
                if t.startswith('[]'):
                    c = '*' + d + t[2:]
                    cands.append(c[:-2] if c.endswith('[]') else c)
                    cands.append(d + '[')
                else:
                    c = d + t
                    cands.append(c[:-2] if c.endswith('[]') else c)
        root = d[1:] if d.startswith('&') else d

        def hit(key):
            for c in cands:
                if key == c or (key.startswith(c) and (c.endswith('[') or key[len(c):len(c) + 1] in ('-', '[', '.'))):
                    return True
            return False
        for key in [k for k in env if root in k]:
            if hit(key):
                del env[key]
        for path in self.flagpaths_by_root.get(root, ()):
            if hit(path):
                env[path] = ('clobbered',)

    def kill_reachable(self, v, env):
        d = ptr_desc(v)
        if d is None:
            return
        if d.startswith('&'):
            d = d[1:]
            for key in list(env):
                if key == d or key.startswith(d + '.') or key.startswith(d + '[') or key.startswith(d + '->'):
                    del env[key]
            return
        for key in list(env):
            if key.startswith(d + '->') or key == '*' + d or key.startswith(d + '[') or key.startswith('*' + d):
                del env[key]
        # declared flags living in that memory are no longer the caller's input value
        for path in self.path2flag:
            if path.startswith(d + '->') or path == '*' + d or path.startswith(d + '['):
                env[path] = ('clobbered',)

    def call(self, e, env):
        name = callee_name(e)
        args = e.c[1:]
        vals = [self.eval(a, env) for a in args]
        if name is None:
            return UNK
        # pure helpers with known semantics
        if name in ('strncmp', 'strcmp') and len(vals) >= 2:
            a, b = vals[0], vals[1]
            sa = self.string_of(a, env)
            sb = self.string_of(b, env)
            if sa is not None and sb is not None:
                return 0 if sa[:1] == sb[:1] else 1
            return UNK
        if name in getattr(self, 'pure', {}):
            r = self.pure[name](self, vals, env)
            if r is not NotImplemented:
                return r
        if name in ('fabs', 'fabsf') and vals and isinstance(vals[0], (int, float)):
            return abs(vals[0])
        if name in ('lsame_',) and len(vals) >= 2:
            sa = self.string_of(vals[0], env)
            sb = self.string_of(vals[1], env)
            if sa is not None and sb is not None:
                return int(sa[:1].upper() == sb[:1].upper())
            return UNK
        ret = UNK
        if name in ALLOC_NAMES or name in getattr(self, 'retfresh', ()):
            ret = ('fresh', 'n%d' % self.cur_node.id)
        if self.want(name):
            self.cur_events.append({'kind': 'call', 'name': name, 'args': vals, 'argx': args, 'node': self.cur_node.id,
                                    'line': e.line, 'inloop': self.cur_node.loop > 0, 'loops': self.loop_info(e, env)})
        # generic effects: whatever the callee may write through its arguments is forgotten
        tgt = self.prog.resolve(name, self.f.unit)
        if tgt is not None:
            pw = self.peff.writes.get((tgt.unit, tgt.name), {})
            for i, sufs in pw.items():
                if i < len(vals):
                    self.kill_paths(vals[i], sufs, env)
        else:
            wr = effmod.external_writes(name, len(args))
            if wr is None:
                wr = range(len(args))
            for i in wr:
                if i < len(vals):
                    self.kill_paths(vals[i], ('[]',), env)
        for (pred, fn) in self.havoc:
            if pred(name):
                fn(self, e, vals, env)
        if name in getattr(self, 'retflags', {}):
            return FlagRef(self.retflags[name])
        return ret

    def string_of(self, v, env):
        """first character(s) of the string a char* value points to, if known"""
        if is_sym(v):
            if v[0] == 'str':
                return v[1].strip('"')
            d = ptr_desc(v)
            if d is not None:
                if d.startswith('&'):
                    c = self.load(d[1:], env)
                else:
                    c = self.load('*' + d, env)
                if isinstance(c, int):
                    return chr(c)
        return None

    # ------------------------------------------------------------ dataflow
    def _dataflow(self, valuation, IN, work):
        self.val = valuation
        cfg = self.cfg
        inwork = set(work)
        order = self.order
        iters = 0
        while work:
            nid = min(work, key=lambda n: order.get(n, 0))
            iters += 1
            if iters > 200000:
                raise RuntimeError('R3: dataflow does not converge in %s' % self.f.name)
            node = cfg.nodes[nid]
            env = dict(IN[nid])
            outs = self.transfer(node, env, record=False)     # may raise Split: nid is still on the work list
            work.remove(nid)
            inwork.discard(nid)
            for (succ, env2) in outs:
                if succ in IN:
                    old = IN[succ]
                    new = {}
                    for k, v in old.items():
                        if k in env2:
                            j = v if env2[k] == v else join_val(v, env2[k])
                            if j is not NOJOIN:
                                new[k] = j
                    if new != old:
                        IN[succ] = new
                        if succ not in inwork:
                            inwork.add(succ)
                            work.append(succ)
                else:
                    IN[succ] = dict(env2)
                    if succ not in inwork:
                        inwork.add(succ)
                        work.append(succ)
        # final pass: events and pruned edges with the converged in-states
        events = []
        pruned = {}
        for nid in sorted(IN, key=lambda n: order.get(n, 0)):
            node = cfg.nodes[nid]
            env = dict(IN[nid])
            self.cur_events = []
            outs = self.transfer(node, env, record=True)
            events.extend(self.cur_events)
            pruned[nid] = [s for (s, _) in outs]
        leaf = Leaf(valuation, events, set(IN), cfg, IN, self)
        leaf.pruned = pruned
        return leaf

    def pruned_succ(self, leaf, n):
        return leaf.pruned.get(n, [])

    def transfer(self, node, env, record):
        self.cur_node = node
        self.cur_stores = []
        if not record:
            self.cur_events = []
        k = node.kind
        if k in ('entry', 'join', 'goto'):
            return [(s, env) for (s, _) in node.succ]
        if k in ('exit',):
            return []
        if k == 'abort':
            if node.ast is not None:
                self.eval_stmt(node.ast, env)
            return []
        if k == 'return':
            rv = UNK
            if node.ast is not None and node.ast.c:
                rv = self.eval(node.ast.c[0], env)
            self.flush_stores(env)
            self.cur_events.append({'kind': 'return', 'node': node.id, 'line': node.ast.line if node.ast is not None else 0, 'env': dict(env),
                                    'value': rv})
            return [(s, env) for (s, _) in node.succ]
        if k == 'stmt':
            self.eval_stmt(node.ast, env)
            self.flush_stores(env)
            return [(s, env) for (s, _) in node.succ]
        if k == 'cond':
            v = self.truth(self.eval(node.ast, env))
            self.flush_stores(env)
            outs = []
            for (s, lab) in node.succ:
                if v is None or lab == v:
                    outs.append((s, dict(env)))
            return outs
        if k == 'switch':
            v = self.eval(node.ast, env)
            self.flush_stores(env)
            outs = []
            if isinstance(v, int):
                target = None
                for (s, lab) in node.succ:
                    if isinstance(lab, tuple) and lab[0] == 'case':
                        cv = lab[1]
                        if isinstance(cv, tuple):
                            cv = self.prog.enums.get(cv[1])
                        if cv == v:
                            target = s
                if target is None:
                    for (s, lab) in node.succ:
                        if lab == 'default':
                            target = s
                if target is not None:
                    return [(target, dict(env))]
            return [(s, dict(env)) for (s, _) in node.succ]
        return [(s, env) for (s, _) in node.succ]

    def eval_stmt(self, s, env):
        if s.k == 'Var':
            p = 'L:%s' % s.a['id']
            if s.c:
                init = strip(s.c[0])
                if init.k == 'InitList':
                    env.pop(p, None)
                else:
                    v = self.eval(s.c[0], env)
                    if v is UNK:
                        t = self.reads_of(s.c[0], env)
                        if t:
                            env[p] = ('tnt', frozenset(t))
                        else:
                            env.pop(p, None)
                    else:
                        env[p] = v
            else:
                env.pop(p, None)
            return
        self.eval(s, env)

    def flush_stores(self, env):
        """turn the stores performed by the current node into events"""
        for (lv, v, compound, anode) in self.cur_stores:
            if lv.k == 'Ref':
                continue
            base = None
            idx = None
            form = None
            if lv.k == 'Index':
                base = self.eval_quiet(lv.c[0], env)
                idx = lv.c[1]
                form = '%s[]'
            elif lv.k == 'Unary' and lv.a['op'] == '*':
                base = self.eval_quiet(lv.c[0], env)
                form = '*%s'
            elif lv.k == 'Member':
                inner0 = strip(lv.c[0])
                if lv.a['arrow'] and inner0.k == 'Unary' and inner0.a['op'] == '&' and strip(inner0.c[0]).k == 'Index':
                    # (&a[i])->r = ...   (complex macros): a store into element i of a
                    el = strip(inner0.c[0])
                    base = self.eval_quiet(el.c[0], env)
                    idx = el.c[1]
                    form = '%s[].' + lv.a['name']
                elif lv.a['arrow']:
                    base = self.eval_quiet(lv.c[0], env)
                    form = '%s->' + lv.a['name']
                else:
                    inner = strip(lv.c[0])
                    if inner.k == 'Index':      # a[i].r = ...
                        base = self.eval_quiet(inner.c[0], env)
                        idx = inner.c[1]
                        form = '%s[].' + lv.a['name']
                    else:
                        p = self.lpath(lv, env)
                        base = ('addr', p) if p else None
                        form = '%s'
            d = ptr_desc(base)
            if d is None:
                continue
            rhs = anode.c[1] if (anode is not None and anode.k == 'Assign') else None
            ev = {'kind': 'store', 'target': form % d, 'base': d, 'node': self.cur_node.id,
                  'line': lv.line, 'inloop': self.cur_node.loop > 0, 'op': anode.a['op'] if anode is not None and anode.k in ('Assign', 'Unary') else '++',
                  'value': v, 'lv': lv, 'idx': idx, 'rhs': rhs,
                  'idx_reads': self.reads_of(idx, env) if idx is not None else set(),
                  'rhs_reads': self.reads_of(rhs, env) if rhs is not None else set(),
                  'rhs_idx_reads': self.index_reads_of(rhs, env) if rhs is not None else set(),
                  'idx_vals': self.scalar_idents(idx, env) if idx is not None else set(),
                  'rhs_pairs': self.load_pairs(rhs, env) if rhs is not None else [],
                  'loops': self.loop_info(lv, env),
                  'loop_heads': [self.join_of[id(l)] for l in self.loops_of.get(id(lv), []) if id(l) in self.join_of]}
            self.cur_events.append(ev)
        self.cur_stores = []

    def eval_quiet(self, e, env):
        try:
            return self.eval(e, dict(env))
        except Split:
            return UNK

    def index_reads_of(self, e, env):
        """bases of arrays that are read INSIDE the subscript of another load: x[p[k]] -> {p}"""
        out = set()
        for n in strip(e).walk():
            if n.k == 'Index':
                out |= self.reads_of(n.c[1], env)
        return out

    def load_pairs(self, e, env):
        """(array identity, identities of the scalars in its subscript) for every subscripted load in e"""
        out = []
        for n in strip(e).walk():
            if n.k == 'Index':
                d = ptr_desc(self.eval_quiet(n.c[0], env))
                if d:
                    out.append((d, frozenset(self.scalar_idents(n.c[1], env))))
        return out

    def scalar_idents(self, e, env):
        """symbolic identities of the scalar operands of a subscript (leading dimensions): i + j*ldx -> {value of ldx}"""
        out = set()
        for n in strip(e).walk():
            if n.k == 'Ref' and n.a.get('dk') in ('VarDecl', 'ParmVarDecl'):
                v = self.eval_quiet(n, env)
                if is_sym(v) and v[0] == 'path':
                    out.add(v[1])
                elif isinstance(v, int) and v >= 1000:
                    out.add('const:%d' % v)       # distinctive representative values (leading dimensions) keep their identity
        return out

    # helper for oracles: identities read by an expression (bases of loads), under env
    def reads_of(self, e, env):
        out = set()
        for n in strip(e).walk():
            if n.k == 'Index' or (n.k == 'Unary' and n.a['op'] == '*') or (n.k == 'Member' and n.a['arrow']):
                b = self.eval_quiet(n.c[0], env)
                d = ptr_desc(b)
                if d:
                    out.add(d)
            elif n.k == 'Ref' and n.a.get('dk') == 'VarDecl':
                t = taint_of(env.get('L:%s' % n.a.get('id')))
                if t:
                    out |= t
        return out
