"""Rules on the numeric kernels (sp_?trsv, sp_?gemv, ?gstrs, ?column_bmod, ?panel_bmod, ?snode_bmod ...).

scratch_clean_rule   an accumulating dense kernel (?matvec always, ?gemv_/?gemm_ with beta == 1) adds into a scratch vector that is assumed to be
                     all zero on entry.  After every such call the scratch must be cleared again before the call can be repeated or the routine
                     returns: every path from the call to itself / to the function exit passes through a loop that stores zero to the scratch.
strided_cursor_rule  a cursor advanced by a stride parameter (jx += incx) walks a vector in lock step with the enclosing loop: the increment must be an
                     unconditional statement of the loop body (executed exactly once per iteration).
"""
from ..facts import strip, callee_name, const_value, loc, root_ref, canon
from ..ir import pretty

SCRATCH = {'work', 'tempv', 'tempv1', 'MatvecTmp', 'work_col'}
ZERO_NAMES = {'zero', 'comp_zero'}


def _is_zero(e, f):
    e = strip(e)
    if e.k == 'Float':
        return e.a['value'] == 0.0
    if const_value(e) == 0:
        return True
    if e.k == 'Ref' and e.a.get('name') in ZERO_NAMES:
        return True
    return False


def _const_of_local(f, vid):
    """value of a local that is defined once with a constant (double beta = 1.0; doublecomplex beta = {1.0, 0.0}); None if unknown"""
    vals = []
    for x in f.body.walk():
        if x.k == 'Var' and x.a.get('id') == vid and x.c:
            vals.append(x.c[0])
        elif x.k == 'Assign' and strip(x.c[0]).k == 'Ref' and strip(x.c[0]).a.get('id') == vid:
            if x.a['op'] != '=':
                return None
            vals.append(x.c[1])
        elif x.k == 'Assign' and strip(x.c[0]).k == 'Member' and root_ref(x.c[0]) is not None and root_ref(x.c[0]).a.get('id') == vid:
            return None
        elif x.k == 'Unary' and x.a['op'] == '&' and strip(x.c[0]).k == 'Ref' and strip(x.c[0]).a.get('id') == vid:
            pass    # passed by address to BLAS (read-only there)
    if len(vals) != 1:
        return None
    v = strip(vals[0])
    if v.k == 'InitList':
        parts = []
        for c in v.c:
            c = strip(c)
            parts.append(c.a['value'] if c.k == 'Float' else const_value(c))
        if len(parts) == 2 and parts[1] in (0, 0.0) and parts[0] is not None:
            return float(parts[0])
        return None
    if v.k == 'Float':
        return v.a['value']
    cv = const_value(v)
    return float(cv) if cv is not None else None


def _accumulates(f, call, p):
    """(out argument node) when the call adds into its output"""
    name = callee_name(call)
    a = call.c[1:]
    if name == p + 'matvec' and len(a) == 6:
        return a[5]
    spec = {p + 'gemv_': (8, 9, 11), p + 'gemm_': (10, 11, 13)}.get(name)
    if spec and len(a) == spec[2]:
        b = strip(a[spec[0]])
        if b.k == 'Unary' and b.a['op'] == '&' and strip(b.c[0]).k == 'Ref':
            val = _const_of_local(f, strip(b.c[0]).a.get('id'))
            if val == 1.0:
                return a[spec[1]]
    return None


def _family(f, rootid):
    """variables that point into the same scratch block: root, and every local assigned &root[..] / root + .. (transitively)"""
    fam = {rootid}
    changed = True
    while changed:
        changed = False
        for x in f.body.walk():
            tgt = rhs = None
            if x.k == 'Assign' and x.a['op'] == '=' and strip(x.c[0]).k == 'Ref':
                tgt, rhs = strip(x.c[0]).a.get('id'), x.c[1]
            elif x.k == 'Var' and x.c:
                tgt, rhs = x.a.get('id'), x.c[0]
            if tgt is None or tgt in fam or not (x.t or (x.c[0].t if x.k == 'Assign' else '') or '').strip().endswith('*'):
                continue
            r = root_ref(strip(rhs).c[0]) if strip(rhs).k == 'Unary' and strip(rhs).a['op'] == '&' else (root_ref(rhs) if strip(rhs).k in ('Binary', 'Ref') else None)
            if r is not None and r.a.get('id') in fam:
                fam.add(tgt)
                changed = True
    return fam


def scratch_clean_rule(chk, cid, prog, p, funcs, cfgname, skip_roots=()):
    n = 0
    for fname in funcs:
        f = prog.func(fname)
        if f is None:
            continue
        cfg = prog.cfg(f)
        node_of = {}
        for cn in cfg.nodes:
            if cn.ast is not None and cn.kind in ('stmt', 'cond', 'return', 'switch', 'abort'):
                for x in cn.ast.walk():
                    node_of.setdefault(id(x), cn.id)
        calls = []
        for x in f.body.walk():
            if x.k == 'Call':
                out = _accumulates(f, x, p)
                if out is None:
                    continue
                o = strip(out)
                r = root_ref(o.c[0]) if (o.k == 'Unary' and o.a['op'] == '&') else root_ref(o)
                if r is None or r.a.get('name') not in SCRATCH or r.a.get('name') in skip_roots:
                    continue
                calls.append((x, r))
        if not calls:
            continue
        chk.saw(unit=f.unit, func=f.unit + ':' + f.name)
        for (call, r) in calls:
            fam = _family(f, r.a['id'])
            # reverse: the root may itself be an alias (tempv1 = &tempv[..]): include what it points into
            for x in f.body.walk():
                if x.k == 'Assign' and x.a['op'] == '=' and strip(x.c[0]).k == 'Ref' and strip(x.c[0]).a.get('id') == r.a['id']:
                    rr = strip(x.c[1])
                    base = root_ref(rr.c[0]) if (rr.k == 'Unary' and rr.a['op'] == '&') else (root_ref(rr) if rr.k in ('Binary', 'Ref') else None)
                    if base is not None and base.a.get('id'):
                        fam |= _family(f, base.a['id'])
            heads = set()

            def clears(lp):
                """the loop stores zero into the scratch on every iteration: directly, or through a loop that is itself an unconditional statement of its body"""
                body = lp.c[3] if lp.k == 'For' else lp.c[1]
                stmts = body.c if body.k == 'Block' else [body]
                parts = set()
                for st in stmts:
                    if st.k in ('For', 'While'):
                        if clears(st):
                            return True
                        continue
                    st = strip(st)
                    if st.k == 'Assign' and st.a['op'] == '=' and _is_zero(st.c[1], f):
                        lv = strip(st.c[0])
                        b = root_ref(lv)
                        if b is None or b.a.get('id') not in fam:
                            continue
                        if lv.k == 'Index':
                            return True
                        if lv.k == 'Member' and strip(lv.c[0]).k == 'Index' and lv.a['name'] in ('r', 'i'):
                            parts.add(lv.a['name'])      # complex element cleared as  x.r = 0; x.i = 0;
                return parts == {'r', 'i'}
            for lp in f.body.walk():
                if lp.k in ('For', 'While') and clears(lp):
                    cnd = lp.c[1] if lp.k == 'For' else lp.c[0]
                    for y in cnd.walk():
                        if id(y) in node_of:
                            heads.add(node_of[id(y)])
                            break
            k = node_of.get(id(call))
            n += 1
            inst = '%s:scratch-cleared-after:%s@%s' % (f.name, callee_name(call), r.a['name'])
            if k is None:
                chk.violate(cid, inst, loc(f, call), f.name, 'cannot place the call in the control-flow graph', cfgname=cfgname)
                continue
            bad = None
            seen = set()
            st = [s for (s, _) in cfg.nodes[k].succ]
            while st:
                q = st.pop()
                if q in seen or q in heads:
                    continue
                seen.add(q)
                if q == cfg.exit.id:
                    bad = 'the end of the routine'
                    break
                if q == k:
                    bad = 'the next execution of the same call'
                    break
                if cfg.nodes[q].kind == 'abort':
                    continue
                st.extend(s for (s, _) in cfg.nodes[q].succ)
            if bad is None and heads:
                chk.ok(cid, inst, sample='%d clearing loop(s)' % len(heads))
            else:
                chk.violate(cid, inst, loc(f, call), f.name,
                            '%s adds its result into `%s`, which must be all zero when the call is made; there is a path from this call to %s that does not '
                            'pass through a loop storing zero into it, so the next update starts from stale contents'
                            % (callee_name(call), r.a['name'], bad or 'the end of the routine (no clearing loop found)'), cfgname=cfgname)
    return n


def strided_cursor_rule(chk, cid, prog, funcs, cfgname):
    n = 0
    for fname in funcs:
        f = prog.func(fname)
        if f is None:
            continue
        params = {i: nm for (nm, i, t) in f.params}

        def is_stride(e):
            e = strip(e)
            if e.k == 'Unary' and e.a['op'] == '*':
                e = strip(e.c[0])
            return e.k == 'Ref' and e.a.get('id') in params and params[e.a['id']].startswith('inc')

        def walk(x, loop, direct):
            """loop: innermost enclosing loop node; direct: x is an unconditional statement of that loop's body"""
            nonlocal n
            if x.k in ('For', 'While', 'Do'):
                body = x.c[3] if x.k == 'For' else (x.c[1] if x.k == 'While' else x.c[0])
                for c in x.c:
                    if c is body:
                        if body.k == 'Block':
                            for s in body.c:
                                walk(s, x, True)
                        else:
                            walk(body, x, True)
                    else:
                        walk(c, loop, False)
                return
            if x.k == 'Assign' and x.a['op'] == '+=' and strip(x.c[0]).k == 'Ref' and is_stride(x.c[1]) and loop is not None:
                n += 1
                chk.saw(unit=f.unit, func=f.unit + ':' + f.name)
                inst = '%s:cursor-advances-every-iteration:%s@%d' % (f.name, strip(x.c[0]).a['name'], n)
                if direct:
                    chk.ok(cid, inst, sample=pretty(x))
                else:
                    chk.violate(cid, inst, loc(f, x), f.name,
                                '`%s` walks a strided vector in step with the enclosing loop, but it is advanced only on some paths through the loop body: '
                                'after an iteration that skips it every later element is taken from the wrong position' % pretty(x), cfgname=cfgname)
                return
            if x.k == 'Block' and direct:
                for c in x.c:
                    walk(c, loop, True)
                return
            for c in x.c:
                walk(c, loop, False)
        walk(f.body, None, False)
    return n


def run_basic(chk, cid, prog, cfgname, groups, floor_scratch=None, floor_cursor=None):
    """groups: 'trsv' (sp_?trsv), 'gemv' (sp_?gemv/sp_?gemm, i?max1), 'solve' (?gstrs), 'bmod' (?column_bmod, ?panel_bmod 1-D part, ?snode_bmod)"""
    chk.clause(cid + '.scratch', 'accumulating dense kernels start from a cleared scratch vector')
    if 'gemv' in groups:
        chk.clause(cid + '.cursor', 'strided cursors advance once per iteration')
    ns = nc = 0
    for p in 'sdcz':
        fs = []
        if 'trsv' in groups:
            fs.append('sp_%strsv' % p)
        if 'solve' in groups:
            fs.append(p + 'gstrs')
        if 'bmod' in groups:
            fs += [p + 'column_bmod', p + 'panel_bmod', p + 'snode_bmod', 'ilu_%scolumn_bmod' % p]
        # the 2-D blocked update of ?panel_bmod clears MatvecTmp in a second sweep over the panel under the same segment-size guard: see segsze rule
        ns += scratch_clean_rule(chk, cid + '.scratch', prog, p, fs, cfgname, skip_roots=('MatvecTmp',))
        if 'gemv' in groups:
            nc += strided_cursor_rule(chk, cid + '.cursor', prog, ['sp_%sgemv' % p, 'sp_%sgemm' % p], cfgname)
    if 'gemv' in groups:
        nc += strided_cursor_rule(chk, cid + '.cursor', prog, ['icmax1', 'izmax1'], cfgname)
    from ..run import AnalysisBroken
    if floor_scratch is not None and ns < floor_scratch:
        raise AnalysisBroken('%s: %d accumulating calls into scratch found, floor %d' % (cid, ns, floor_scratch))
    if floor_cursor is not None and nc < floor_cursor:
        raise AnalysisBroken('%s: %d strided cursor increments found, floor %d' % (cid, nc, floor_cursor))
    return ns, nc
