"""Shared support for the driver oracles (R3): flag declarations by parameter name, havoc rules, expectation bookkeeping."""
from ..rules import r3_dispatch as r3
from ..rules.r3_dispatch import ptr_desc, FlagRef
from ..facts import loc

PRECS = 'sdcz'
DT = {'s': 'SLU_S', 'd': 'SLU_D', 'c': 'SLU_C', 'z': 'SLU_Z'}


def ppos(f, name):
    for i, (n, pid, t) in enumerate(f.params):
        if n == name:
            return i + 1
    return None


def enum_name(E, group, v):
    for n in group:
        if E.get(n) == v:
            return n
    return str(v)


class Flags(object):
    """builder for the flag table of one routine"""

    def __init__(self, prog, f, prec):
        self.E = prog.enums
        self.f = f
        self.prec = prec
        self.flags = {}
        self.names = {}      # flag -> {value: printable}

    def add(self, name, path, values, printable=None):
        self.flags[name] = {'path': path, 'values': list(values)}
        if printable:
            self.names[name] = dict(zip(values, printable))
        return self

    def enum(self, name, path, consts):
        return self.add(name, path, [self.E[c] for c in consts], consts)

    def matrix(self, pname, stypes, mtype, dims=(10, 10), square=True, prefix=None):
        k = ppos(self.f, pname)
        if k is None:
            return self
        px = prefix or pname
        self.enum(px + '.Stype', '$%d->Stype' % k, stypes)
        self.enum(px + '.Dtype', '$%d->Dtype' % k, [DT[self.prec]])
        self.enum(px + '.Mtype', '$%d->Mtype' % k, [mtype])
        self.add(px + '.nrow', '$%d->nrow' % k, [dims[0]])
        self.add(px + '.ncol', '$%d->ncol' % k, [dims[1]])
        return self

    def dense(self, pname, ncols=(0, 2), lda=10):
        k = ppos(self.f, pname)
        if k is None:
            return self
        self.enum(pname + '.Stype', '$%d->Stype' % k, ['SLU_DN'])
        self.enum(pname + '.Dtype', '$%d->Dtype' % k, [DT[self.prec]])
        self.enum(pname + '.Mtype', '$%d->Mtype' % k, ['SLU_GE'])
        self.add(pname + '.nrow', '$%d->nrow' % k, [10])
        self.add(pname + '.ncol', '$%d->ncol' % k, list(ncols))
        self.add(pname + '.lda', '$%d->Store->lda' % k, [lda])
        return self

    def show(self, val, keys=None):
        out = []
        for k in sorted(val):
            if keys is not None and k not in keys:
                continue
            v = val[k]
            out.append('%s=%s' % (k, self.names.get(k, {}).get(v, v)))
        return ','.join(out)


def set_through(env, ptrval, flagname):
    """env[*ptr] := FlagRef(flagname) for a pointer argument value"""
    d = ptr_desc(ptrval)
    if d is None:
        return
    if d.startswith('&'):
        env[d[1:]] = FlagRef(flagname)
    else:
        env['*' + d] = FlagRef(flagname)


def havoc_last_arg(flagname):
    def fn(eng, call, vals, env):
        if vals:
            set_through(env, vals[-1], flagname)
    return fn


def havoc_arg(index, flagname):
    def fn(eng, call, vals, env):
        if index < len(vals):
            set_through(env, vals[index], flagname)
    return fn


class Expect(object):
    """bookkeeping of oracle constraints on the leaves of one routine"""

    def __init__(self, chk, cid, f, flags, cfgname):
        self.chk, self.cid, self.f, self.flags, self.cfgname = chk, cid, f, flags, cfgname

    def check(self, leaf, ok, cname, relevant, what, where=None):
        """cname: constraint name (semantic, stable); relevant: flag names that select the case"""
        case = self.flags.show(leaf.val, relevant)
        inst = '%s:%s[%s]' % (self.f.name, cname, case)
        if ok:
            self.chk.ok(self.cid, inst, sample='holds')
        else:
            line = where if where is not None else self.f.line
            self.chk.violate(self.cid, '%s:%s[%s]' % (self.f.name, cname, case), '%s:%d' % (self.f.unit, line), self.f.name,
                             '%s (case %s)' % (what, case or 'all'), {'valuation': self.flags.show(leaf.val)}, cfgname=self.cfgname)
        return ok


def first(evs):
    return evs[0] if evs else None


def is_param(v, k):
    return v == ('p', k)
