"""C07.D3 / C08: structure of ?expand, ?LUMemXpand and the in-place shift helper user_bcopy.

 - workspace branch of ?expand: the block that is moved starts at expanders[type+1].mem, and for every memory type T behind the one
   being grown (UCOL, LSUB, USUB) there is a statement guarded by `type < T` that advances both Glu-><field of T> and
   expanders[T].mem by `extra`;
 - malloc branch: the old contents are copied (copy_mem_int for the index arrays, copy_mem_<elt> for the value arrays) before the old
   block is released, and expanders[type].mem then points to the new block;
 - ?LUMemXpand: a NULL from ?expand is turned into a non-zero return (bytes in use + n), and the Glu field and capacity of exactly the
   requested type are updated;
 - user_bcopy: the backward byte copy covers [dest, dest + bytes): starts at dest + bytes - 1, steps down, runs while d >= dest.
"""
from ..facts import strip, callee_name, const_value, loc, root_ref, canon
from ..ir import pretty
from .r5_grow import FIELD_OF, ORDER
from . import r2_argcheck as r2
from ..run import AnalysisBroken

CAPFIELD = {'LUSUP': 'nzlumax', 'UCOL': 'nzumax', 'LSUB': 'nzlmax', 'USUB': 'nzumax'}


def run(chk, cid, prog, p, cfgname):
    n = 0
    f = prog.func(p + 'expand')
    if f is None:
        from ..run import AnalysisBroken
        raise AnalysisBroken('%sexpand not found' % p)
    chk.saw(unit=f.unit, func=f.unit + ':' + f.name)
    ids = {nm: i for (nm, i, t) in f.params}
    typ = ids.get('type')

    def V(key, node, what):
        chk.violate(cid, '%s:%s' % (f.name, key), loc(f, node), f.name, what, cfgname=cfgname)

    def OK(key, sample=''):
        chk.ok(cid, '%s:%s' % (f.name, key), sample=sample)
    # ---- shifting of the types behind `type`
    for T in ('UCOL', 'LSUB', 'USUB'):
        n += 1
        found = None
        for x in f.body.walk():
            if x.k == 'If':
                c = strip(x.c[0])
                if c.k == 'Binary' and c.a['op'] == '<' and strip(c.c[0]).k == 'Ref' and strip(c.c[0]).a.get('id') == typ \
                        and strip(c.c[1]).k == 'Ref' and strip(c.c[1]).a['name'] == T:
                    found = x
        if found is None:
            V('shift-%s' % T, f.body, 'when a type in front of %s grows inside a workspace, Glu->%s and expanders[%s].mem must be advanced by `extra` '
              '(statement guarded by `type < %s` not found)' % (T, FIELD_OF[T], T, T))
            continue
        txt = [canon(y, ids=False) for y in found.c[1].walk() if y.k == 'Assign']
        glu = any(('Glu->%s =' % FIELD_OF[T]) in t for t in txt)
        ex = any(('expanders[%s].mem =' % T) in t for t in txt)
        plus = any('expanders[%s].mem + extra' % T in t for t in txt)
        if glu and ex and plus:
            OK('shift-%s' % T, txt[0][:80])
        else:
            V('shift-%s' % T, found, 'growing a type in front of %s must set both Glu->%s and expanders[%s].mem to expanders[%s].mem + extra; found %s'
              % (T, FIELD_OF[T], T, T, txt))
    # ---- block moved starts right behind the grown type
    n += 1
    bc = [x for x in f.body.walk() if x.k == 'Call' and callee_name(x) == 'user_bcopy']
    okb = len(bc) == 1 and 'expanders[(type + 1)].mem' in canon(bc[0].c[1], ids=False)
    if okb:
        OK('moved-block-starts-behind-type', canon(bc[0], ids=False)[:90])
    else:
        V('moved-block-starts-behind-type', (bc or [f.body])[0], 'the in-place shift must move the block that starts at expanders[type+1].mem')
    # ---- malloc branch: copy before free, then rebind
    n += 1
    cp = [x for x in f.body.walk() if x.k == 'Call' and (callee_name(x) or '').startswith('copy_mem_')]
    fr = [x for x in f.body.walk() if x.k == 'Call' and callee_name(x) == 'superlu_free' and 'expanders[type].mem' in canon(x, ids=False)]
    names = sorted({callee_name(x) for x in cp})
    want_val = {'s': 'copy_mem_float', 'd': 'copy_mem_double', 'c': 'copy_mem_singlecomplex', 'z': 'copy_mem_doublecomplex'}[p]
    okc = names == sorted({'copy_mem_int', want_val}) and len(fr) == 1 and all(x.line <= fr[0].line for x in cp)
    # the int copy must be the one guarded by type == LSUB || type == USUB
    if okc:
        for x in f.body.walk():
            if x.k == 'If' and any(y.k == 'Call' and callee_name(y) == 'copy_mem_int' for y in x.c[1].walk()) and len(x.c) > 2 and \
                    any(y.k == 'Call' and callee_name(y) == want_val for y in x.c[2].walk()):
                c = canon(x.c[0], ids=False)
                okc = 'LSUB' in c and 'USUB' in c and '==' in c
    if okc:
        OK('copy-then-free', '%s before free' % names)
    else:
        V('copy-then-free', (cp or fr or [f.body])[0], 'under malloc the old contents must be copied (copy_mem_int for LSUB/USUB, %s otherwise) before the old block '
          'is released; found copies %s, %d release(s)' % (want_val, names, len(fr)))
    # ---- ?LUMemXpand
    g = prog.func(p + 'LUMemXpand')
    if g is not None:
        chk.saw(unit=g.unit, func=g.unit + ':' + g.name)
        n += 1
        bad = None
        fail = None
        for x in g.body.walk():
            if x.k == 'If':
                c = strip(x.c[0])
                if c.k == 'Unary' and c.a['op'] == '!' and strip(c.c[0]).k == 'Ref':
                    rets = [y for y in x.c[1].walk() if y.k == 'Return']
                    fail = (x, rets)
        okx = fail is not None and len(fail[1]) == 1 and fail[1][0].c and const_value(fail[1][0].c[0]) is None and \
            any(y.k == 'Call' and callee_name(y) == p + 'memory_usage' for y in fail[1][0].walk())
        if okx:
            chk.ok(cid, '%s:failure-reported' % g.name, sample=pretty(fail[1][0])[:80])
        else:
            chk.violate(cid, '%s:failure-reported' % g.name, loc(g, fail[0] if fail else g.body), g.name,
                        'when %sexpand returns NULL the routine must return a non-zero byte count (memory in use + n), so that the caller reports info > n' % p, cfgname=cfgname)
        # switch binds the right field and capacity
        for x in g.body.walk():
            if x.k == 'Switch':
                cur = None
                for st in x.c[1].walk():
                    if st.k == 'Case':
                        v = strip(st.c[0])
                        cur = v.a.get('name') if v.k == 'Ref' else None
                        body = st.c[-1]
                        items = [body]
                    if st.k == 'Assign' and cur in FIELD_OF:
                        lv = strip(st.c[0])
                        if lv.k == 'Member' and lv.a['name'] in set(FIELD_OF.values()) | set(CAPFIELD.values()):
                            n += 1
                            okf = lv.a['name'] in (FIELD_OF[cur], CAPFIELD[cur])
                            if okf:
                                chk.ok(cid, '%s:case-%s-binds-%s' % (g.name, cur, lv.a['name']))
                            else:
                                chk.violate(cid, '%s:case-%s-binds-%s' % (g.name, cur, lv.a['name']), loc(g, st), g.name,
                                            'expanding %s must update Glu->%s and Glu->%s; this case writes Glu->%s' % (cur, FIELD_OF[cur], CAPFIELD[cur], lv.a['name']),
                                            cfgname=cfgname)
    return n


def bcopy_rule(chk, cid, prog, cfgname):
    f = prog.func('user_bcopy')
    if f is None:
        from ..run import AnalysisBroken
        raise AnalysisBroken('user_bcopy not found')
    chk.saw(unit=f.unit, func=f.unit + ':' + f.name)
    src, dest, nbytes = f.params[0][1], f.params[1][1], f.params[2][1]
    loops = [x for x in f.body.walk() if x.k == 'For']
    ok = False
    why = 'no single copy loop found'
    if len(loops) == 1:
        lp = loops[0]
        c = strip(lp.c[1])
        # moving destination pointer
        body_st = [x for x in lp.c[3].walk() if x.k == 'Assign'] or ([lp.c[3]] if lp.c[3].k == 'Assign' else [])
        d = None
        for st in body_st:
            lv = strip(st.c[0])
            if lv.k == 'Unary' and lv.a['op'] == '*' and strip(lv.c[0]).k == 'Ref':
                d = strip(lv.c[0]).a['id']
        init = None
        for x in f.body.walk():
            if x.k == 'Assign' and strip(x.c[0]).k == 'Ref' and strip(x.c[0]).a.get('id') == d:
                init = canon(x.c[1], ids=False)
        down = any(y.k == 'Unary' and y.a['op'] == '--' and strip(y.c[0]).k == 'Ref' and strip(y.c[0]).a.get('id') == d for y in lp.c[2].walk())
        condok = c.k == 'Binary' and c.a['op'] == '>=' and strip(c.c[0]).k == 'Ref' and strip(c.c[0]).a.get('id') == d \
            and strip(c.c[1]).k == 'Ref' and strip(c.c[1]).a.get('id') == dest
        initok = init in ('((dest + bytes) - 1)', '(dest + (bytes - 1))')
        ok = d is not None and down and condok and initok
        why = 'destination pointer starts at %s, steps %s, loop condition `%s`' % (init, 'down' if down else 'not down', pretty(c))
    if ok:
        chk.ok(cid, 'user_bcopy:covers-all-bytes', sample=why)
    else:
        chk.violate(cid, 'user_bcopy:covers-all-bytes', loc(f, f.body), f.name,
                    'the overlapping move must copy every byte of [dest, dest+bytes): start at dest+bytes-1, step down, continue while d >= dest; ' + why, cfgname=cfgname)
    return 1


def copy_helper_rule(chk, cid, prog, cfgname):
    """copy_mem_int / copy_mem_<elt>(howmany, old, new) carry the old contents over when an array is re-allocated: they must move `howmany` *elements*.
    Accepted shapes: a counting loop `for (i = 0; i < howmany; i++) new[i] = old[i]` over pointers to the element type, or
    memcpy/memmove(new, old, howmany * sizeof(element))."""
    want = {'copy_mem_int': {'int_t'}, 'copy_mem_float': {'float'}, 'copy_mem_double': {'double'}, 'copy_mem_singlecomplex': {'singlecomplex'},
            'copy_mem_doublecomplex': {'doublecomplex'}}
    n = 0
    for fname, elts in sorted(want.items()):
        f = prog.func(fname)
        if f is None:
            from ..run import AnalysisBroken
            raise AnalysisBroken('%s not found' % fname)
        chk.saw(unit=f.unit, func=f.unit + ':' + f.name)
        cnt = f.params[0][1]
        n += 1
        ok = False
        why = 'no element-wise copy of `howmany` entries found'
        for x in f.body.walk():
            if x.k == 'For':
                c = strip(x.c[1])
                if c.k == 'Binary' and c.a['op'] == '<' and strip(c.c[1]).k == 'Ref' and strip(c.c[1]).a.get('id') == cnt and strip(c.c[0]).k == 'Ref':
                    iv = strip(c.c[0]).a['id']
                    init = strip(x.c[0])
                    starts0 = init.k == 'Assign' and strip(init.c[0]).k == 'Ref' and strip(init.c[0]).a['id'] == iv and const_value(init.c[1]) == 0
                    for y in x.c[3].walk():
                        if y.k == 'Assign' and y.a['op'] == '=':
                            l, r = strip(y.c[0]), strip(y.c[1])
                            if l.k == 'Index' and r.k == 'Index' and strip(l.c[1]).k == 'Ref' and strip(r.c[1]).k == 'Ref' and \
                                    strip(l.c[1]).a['id'] == iv and strip(r.c[1]).a['id'] == iv:
                                et = (l.t or '').replace('const ', '').strip()
                                if starts0 and et in elts and (r.t or '').replace('const ', '').strip() in elts:
                                    ok = True
                                else:
                                    why = 'the copy loop moves elements of type %s (want %s) or does not start at 0' % (et, sorted(elts))
            if x.k == 'Call' and callee_name(x) in ('memcpy', 'memmove') and len(x.c) == 4:
                sz = strip(x.c[3])
                while sz.k == 'Cast':
                    sz = strip(sz.c[0])
                fac = []

                def flat(e):
                    e = strip(e)
                    if e.k == 'Binary' and e.a['op'] == '*':
                        flat(e.c[0]); flat(e.c[1])
                    else:
                        fac.append(e)
                flat(sz)
                has_cnt = any(y.k == 'Ref' and y.a.get('id') == cnt for y in fac)
                has_sz = any(y.k == 'Sizeof' and (y.a.get('argtype') or '').strip() in elts for y in fac)
                if has_cnt and has_sz and len(fac) == 2:
                    ok = True
                else:
                    why = 'the byte count `%s` of the block copy is not howmany * sizeof(%s)' % (pretty(x.c[3])[:40], '/'.join(sorted(elts)))
        if ok:
            chk.ok(cid, '%s:copies-howmany-elements' % fname)
        else:
            chk.violate(cid, '%s:copies-howmany-elements' % fname, loc(f, f.body), fname,
                        '%s must carry `howmany` elements of the old array over to the new one: %s' % (fname, why), cfgname=cfgname)
    return n


def moved_block_extent_rule(chk, cid, prog, p, cfgname):
    """?expand, workspace branch: what is shifted up by `extra` is everything between the start of the next array and the top of the head stack:
    bytes_to_copy = (stack.array + stack.top1) - expanders[type+1].mem.  (stack.used also counts the scratch taken from the tail, stack.size is the
    whole buffer: with either the shift runs into the tail scratch / past the buffer.)"""
    f = prog.func(p + 'expand')
    chk.saw(unit=f.unit, func=f.unit + ':' + f.name)
    bc = [x for x in f.body.walk() if x.k == 'Call' and callee_name(x) == 'user_bcopy']
    inst = '%s:moved-block-ends-at-top1' % f.name
    if len(bc) != 1 or strip(bc[0].c[3]).k != 'Ref':
        chk.violate(cid, inst, loc(f, (bc or [f.body])[0]), f.name, 'cannot find the single user_bcopy(src, dst, nbytes) with a local byte count', cfgname=cfgname)
        return 1
    vid = strip(bc[0].c[3]).a['id']
    defs = [x for x in f.body.walk() if x.k == 'Assign' and x.a['op'] == '=' and strip(x.c[0]).k == 'Ref' and strip(x.c[0]).a.get('id') == vid]

    def terms(e, sign=1):
        e = strip(e)
        if e.k == 'Binary' and e.a['op'] in ('+', '-'):
            return terms(e.c[0], sign) + terms(e.c[1], sign if e.a['op'] == '+' else -sign)
        return [(sign, canon(e, ids=False))]
    ok = False
    got = None
    if len(defs) == 1:
        got = sorted(terms(defs[0].c[1]))
        want = sorted([(1, 'Glu->stack.array'), (1, 'Glu->stack.top1'), (-1, 'expanders[(type + 1)].mem')])
        ok = got == want
    # the extent is taken from stack.top1 *before* the growth is booked: no update of stack.top1 / stack.used may reach the computation
    early = []
    if ok:
        blk = None
        for x in f.body.walk():
            if x.k == 'Block' and any(y is defs[0] or strip(y) is defs[0] for y in x.c):
                blk = x
        if blk is not None:
            for y in blk.c:
                if y is defs[0] or strip(y) is defs[0]:
                    break
                for z in y.walk():
                    if z.k == 'Assign' and canon(z.c[0], ids=False) in ('Glu->stack.top1', 'Glu->stack.used'):
                        early.append(z)
    if ok and not early:
        chk.ok(cid, inst, sample=pretty(defs[0])[:90])
    elif ok:
        chk.violate(cid, inst, loc(f, early[0]), f.name,
                    '`%s` books the growth before the extent of the block to shift is computed from stack.top1: the shift then moves `extra` bytes too many, '
                    'into the scratch at the tail of the workspace' % pretty(early[0])[:50], cfgname=cfgname)
    else:
        chk.violate(cid, inst, loc(f, defs[0] if defs else bc[0]), f.name,
                    'the block shifted to make room must end at the top of the head stack: nbytes = stack.array + stack.top1 - expanders[type+1].mem; found %s' % (got,),
                    cfgname=cfgname)
    return 1


def _eval_int(e, env):
    e = strip(e)
    if e.k == 'Int':
        return const_value(e)
    cv = const_value(e)
    if cv is not None:
        return cv
    if e.k == 'Ref':
        if e.a.get('name') in env:
            return env[e.a['name']]
        raise ValueError('free variable %s' % e.a.get('name'))
    if e.k == 'Unary' and e.a['op'] in ('-', '~', '+'):
        v = _eval_int(e.c[0], env)
        return {'-': -v, '~': ~v, '+': v}[e.a['op']]
    if e.k == 'Binary':
        a, b = _eval_int(e.c[0], env), _eval_int(e.c[1], env)
        op = e.a['op']
        if op == '/':
            if b == 0:
                raise ValueError('division by zero')
            q = abs(a) // abs(b)
            return q if (a >= 0) == (b >= 0) else -q
        if op == '%':
            if b == 0:
                raise ValueError('division by zero')
            return abs(a) % abs(b) * (1 if a >= 0 else -1)
        if op in ('+', '-', '*', '&', '|', '<<', '>>'):
            return {'+': a + b, '-': a - b, '*': a * b, '&': a & b, '|': a | b, '<<': a << b, '>>': a >> b}[op]
    raise ValueError('unsupported expression %s' % pretty(e)[:40])


def usable_size_rule(chk, cid, prog, p, cfgname):
    """The allocator may hand out bytes [0, stack.size) of the caller's buffer, and the tail stack starts at stack.top2 = stack.size.  Both are derived from
    lwork; the derived value must never exceed lwork (and must be a multiple of 4: `word addressable`).  The defining expression is a closed form in
    lwork alone; it is evaluated for lwork = 0..255 (several periods of any rounding to 4/8/16), which decides it for all lwork."""
    from ..run import AnalysisBroken
    n = 0
    for fname in (p + 'SetupSpace', p + 'LUMemInit'):
        f = prog.func(fname)
        if f is None:
            raise AnalysisBroken('%s not found' % fname)
        chk.saw(unit=f.unit, func=f.unit + ':' + f.name)
        sites = []
        for x in f.body.walk():
            if x.k == 'Assign' and x.a['op'] == '=':
                lv = canon(x.c[0], ids=False)
                if lv in ('Glu->stack.top2', 'Glu->stack.size') and any(y.k == 'Ref' and y.a.get('name') == 'lwork' for y in x.c[1].walk()):
                    sites.append(x)
        if not sites:
            raise AnalysisBroken('%s: no assignment of stack.top2 / stack.size from lwork found' % fname)
        for x in sites:
            n += 1
            inst = '%s:usable-size-within-lwork@%s' % (fname, canon(x.c[0], ids=False).split('.')[-1])
            bad = None
            try:
                for v in range(0, 256):
                    r = _eval_int(x.c[1], {'lwork': v})
                    if r > v or r < 0 or r % 4 != 0:
                        bad = (v, r)
                        break
            except ValueError as e:
                raise AnalysisBroken('%s: cannot evaluate `%s`: %s' % (fname, pretty(x.c[1])[:50], e))
            if bad is None:
                chk.ok(cid, inst, sample='%s: <= lwork and a multiple of 4 for every lwork' % pretty(x)[:60])
            else:
                chk.violate(cid, inst, loc(f, x), fname,
                            '`%s` gives %d for lwork = %d: the allocator would own bytes beyond work + lwork (or a size that is not word addressable)'
                            % (pretty(x)[:60], bad[1], bad[0]), cfgname=cfgname)
    return n


def growth_progress_rule(chk, cid, prog, p, cfgname):
    """?expand, ordinary (not keep_prev) request: the callers loop `while (need > capacity) expand`, so a successful return must have enlarged the array.
    The growth factor is reduced step by step when the request does not fit; alpha * prev_len can then round down to prev_len.  Every path from a
    reduction `new_len = alpha * *prev_len` inside a retry loop to the successful return has to pass a test of new_len against *prev_len
    (found as a hang on the pinned tree, fixed in a68f306).  Also: the retry loops themselves may only run for ordinary requests (under keep_prev
    the caller dictates the length, e.g. usub must keep the length of ucol: a failed allocation is reported, not retried with another length)."""
    f = prog.func(p + 'expand')
    chk.saw(unit=f.unit, func=f.unit + ':' + f.name)
    cfg = prog.cfg(f)
    node_of = {}
    for cn in cfg.nodes:
        if cn.ast is not None and cn.kind in ('stmt', 'cond', 'return', 'switch', 'abort'):
            for x in cn.ast.walk():
                node_of.setdefault(id(x), cn.id)
    nl = next((k for k, v in f.locals.items() if v.a.get('name') == 'new_len'), None)
    n = 0
    # reductions inside loops
    reds = []
    loops = [x for x in f.body.walk() if x.k == 'While']
    for lp in loops:
        for x in lp.c[1].walk():
            if x.k == 'Assign' and x.a['op'] == '=' and strip(x.c[0]).k == 'Ref' and strip(x.c[0]).a.get('id') == nl:
                reds.append((lp, x))
    guards = set()
    for cn in cfg.nodes:
        if cn.kind == 'cond' and cn.ast is not None:
            c = strip(cn.ast)
            if c.k == 'Binary' and c.a['op'] in ('<=', '<', '==', '>', '>=', '!='):
                t = canon(c, ids=False)
                if 'new_len' in t and 'prev_len' in t:
                    guards.add(cn.id)
    final = [cn.id for cn in cfg.nodes if cn.kind == 'return' and cn.ast is not None and cn.ast.c and 'expanders[type].mem' in canon(cn.ast.c[0], ids=False)]
    for (lp, x) in reds:
        n += 1
        inst = '%s:reduced-request-still-grows@%d' % (f.name, n)
        k = node_of.get(id(x))
        bad = False
        if k is None or not final:
            bad = True
        else:
            # leave the loop: start from the false edge of the loop condition
            seen = set()
            st = [k]
            while st:
                q = st.pop()
                if q in seen or q in guards:
                    continue
                seen.add(q)
                if q in final:
                    bad = True
                    break
                st.extend(s for (s, _) in cfg.nodes[q].succ)
        if not bad:
            chk.ok(cid, inst, sample='every path from the reduction at line %d to the successful return tests new_len against *prev_len' % x.line)
        else:
            chk.violate(cid, inst, loc(f, x), f.name,
                        'after the growth factor was reduced (line %d) the routine can return success although new_len == *prev_len (alpha * prev_len rounds down): '
                        'the caller loops `while (need > capacity)` around the expansion and never terminates' % x.line, cfgname=cfgname)
    # retry loops only for ordinary requests
    def walk(x, guards_, out):
        if x.k == 'If':
            c = canon(x.c[0], ids=False)
            walk(x.c[1], guards_ + [(c, True)], out)
            if len(x.c) > 2:
                walk(x.c[2], guards_ + [(c, False)], out)
            return
        if x.k == 'While' and any(y.k == 'Assign' and strip(y.c[0]).k == 'Ref' and strip(y.c[0]).a.get('id') == nl for y in x.c[1].walk()):
            out.append((x, guards_))
        for c in x.c:
            walk(c, guards_, out)
    found = []
    walk(f.body, [], found)
    for (lp, gs) in found:
        n += 1
        inst = '%s:retry-only-without-keep_prev@%d' % (f.name, lp.line)
        if ('keep_prev', False) in gs:
            chk.ok(cid, inst)
        else:
            chk.violate(cid, inst, loc(f, lp), f.name,
                        'the retry loop that asks for a different length runs also when keep_prev is set: the caller (USUB after UCOL) then records a capacity '
                        'that differs from the length actually allocated', cfgname=cfgname)
    if n < 4:
        from ..run import AnalysisBroken
        raise AnalysisBroken('%s: %d retry obligations found, expected 4' % (f.name, n))
    return n


def rollback_mark_rule(chk, cid, prog, p, cfgname):
    """?LUMemInit, caller workspace: when the four big arrays do not fit, their space is released back to a saved mark and the attempt is repeated with a
    smaller guess.  The five (n+1) integer arrays allocated before are kept across the retries, so the mark (copies of stack.used / stack.top1) must
    be taken after they were allocated: a mark taken earlier hands their memory out again."""
    f = prog.func(p + 'LUMemInit')
    chk.saw(unit=f.unit, func=f.unit + ':' + f.name)
    marks = [x for x in f.body.walk() if x.k == 'Assign' and x.a['op'] == '=' and strip(x.c[0]).k == 'Ref'
             and canon(x.c[1], ids=False) in ('Glu->stack.used', 'Glu->stack.top1')]
    allocs = [x for x in f.body.walk() if x.k == 'Assign' and any(y.k == 'Call' and callee_name(y) == p + 'user_malloc' for y in x.c[1].walk())
              and strip(x.c[0]).k == 'Ref' and strip(x.c[0]).a.get('name') in ('xsup', 'supno', 'xlsub', 'xlusup', 'xusub')]
    inst = '%s:rollback-mark-after-the-kept-arrays' % f.name
    if len(marks) < 2 or len(allocs) != 5:
        chk.violate(cid, inst, loc(f, f.body), f.name, 'expected the two mark assignments and the five kept allocations (found %d, %d)' % (len(marks), len(allocs)), cfgname=cfgname)
        return 1
    cfg = prog.cfg(f)
    node_of = {}
    for cn in cfg.nodes:
        if cn.ast is not None and cn.kind in ('stmt', 'cond'):
            for x in cn.ast.walk():
                node_of.setdefault(id(x), cn.id)
    ok = True
    for m in marks:
        for a in allocs:
            # a must not be reachable from m (the mark comes last)
            seen = set()
            st = [node_of.get(id(m))]
            while st:
                q = st.pop()
                if q is None or q in seen:
                    continue
                seen.add(q)
                st.extend(s for (s, _) in cfg.nodes[q].succ)
            if node_of.get(id(a)) in seen:
                ok = False
    if ok:
        chk.ok(cid, inst, sample='marks at lines %s after the allocations at lines %s' % (sorted(m.line for m in marks), sorted(a.line for a in allocs)))
    else:
        chk.violate(cid, inst, loc(f, marks[0]), f.name,
                    'the rollback mark (line %d) is taken before xsup/supno/xlsub/xlusup/xusub are allocated from the workspace: a retry releases and re-uses '
                    'their memory while they are still in use' % marks[0].line, cfgname=cfgname)
    return 1


STATUS_NONNEG = ('LUWorkInit',)      # status-returning helpers whose results are sums of sizes (0 = success, > 0 = failure)


def failure_status_rule(chk, cid, prog, p, cfgname):
    """`info > n` is how a caller tells "out of space" from a zero pivot at column info <= n, and `if ( *info ) return;` in ?gstrf is the only test
    of ?LUMemInit's result: a failure return must be strictly greater than n for every n >= 0 (n = 0 and nnz = 0 make every size term zero).
    Each return of ?LUMemInit other than `return 0` and the lwork == -1 size answers must be a sum that contains n and an addend that is
    positive by construction: a positive constant, a maximum with a positive constant, or the non-zero status of a size-returning helper."""
    f = prog.func(p + 'LUMemInit')
    chk.saw(unit=f.unit, func=f.unit + ':' + f.name)
    nid = {nm: i for (nm, i, t) in f.params}.get('n')
    lw = {nm: i for (nm, i, t) in f.params}.get('lwork')
    if nid is None or lw is None:
        raise AnalysisBroken('%s: parameters n / lwork not found' % f.name)

    def addends(e):
        e = strip(e)
        if e.k == 'Binary' and e.a['op'] == '+':
            return addends(e.c[0]) + addends(e.c[1])
        return [e]

    status_vars = set()
    for x in f.body.walk():
        if x.k == 'Assign' and x.a['op'] == '=' and strip(x.c[0]).k == 'Ref':
            r = strip(x.c[1])
            if r.k == 'Call' and (callee_name(r) or '').endswith(STATUS_NONNEG):
                status_vars.add(strip(x.c[0]).a.get('id'))

    def positive(e, guards):
        e = strip(e)
        v = const_value(e)
        if v is not None:
            return v >= 1
        if e.k == 'Cond':       # SUPERLU_MAX(a, b)
            return positive(e.c[1], guards) and positive(e.c[2], guards) or any(
                (const_value(a) or 0) >= 1 and _is_max(e) for a in (e.c[1], e.c[2]))
        if e.k == 'Ref' and e.a.get('id') in status_vars:
            return any(pos and strip(c).k == 'Ref' and strip(c).a.get('id') == e.a.get('id') for (c, pos) in guards)
        return False

    def _is_max(e):
        c = strip(e.c[0])
        if c.k != 'Binary' or c.a['op'] not in ('>', '<', '>=', '<='):
            return False
        a, b = canon(c.c[0]), canon(c.c[1])
        t, u = canon(e.c[1]), canon(e.c[2])
        return (c.a['op'] in ('>', '>=') and (a, b) == (t, u)) or (c.a['op'] in ('<', '<=') and (a, b) == (u, t))

    n = 0

    def walk(x, guards):
        nonlocal n
        if x.k == 'If':
            walk(x.c[1], guards + [(x.c[0], True)])
            if len(x.c) > 2:
                walk(x.c[2], guards + [(x.c[0], False)])
            return
        if x.k == 'Return' and x.c:
            if const_value(x.c[0]) == 0:
                return
            if any(pos and strip(c).k == 'Binary' and strip(c).a['op'] == '==' and strip(strip(c).c[0]).k == 'Ref'
                   and strip(strip(c).c[0]).a.get('id') == lw and const_value(strip(c).c[1]) == -1 for (c, pos) in guards):
                return          # the size answer of a query, not a failure status
            n += 1
            inst = '%s:failure-status-exceeds-n@%d' % (f.name, n)
            ads = addends(x.c[0])
            has_n = any(strip(a).k == 'Ref' and strip(a).a.get('id') == nid for a in ads)
            pos = [a for a in ads if positive(a, guards)]
            if has_n and pos:
                chk.ok(cid, inst, sample='`%s`: n + %s (positive by construction) + non-negative sizes' % (pretty(x)[:70], pretty(pos[0])[:40]))
            else:
                chk.violate(cid, inst, loc(f, x), f.name,
                            'failure return `%s` is not provably greater than n: %s. For n = 0 and nnz = 0 every size term is zero, the status is 0, '
                            'and ?gstrf (`if ( *info ) return;`) continues with work arrays that were never set up'
                            % (pretty(x)[:80], 'no addend n' if not has_n else 'no addend is positive by construction'), cfgname=cfgname)
            return
        for c in x.c:
            walk(c, guards)
    walk(f.body, [])
    if n < 3:
        raise AnalysisBroken('%s: %d failure returns found, expected >= 3' % (f.name, n))
    return n


def retry_termination_rule(chk, cid, prog, p, cfgname):
    """The retry loop of ?LUMemInit halves its guesses and gives up through a test inside the loop.  Halving has the fixpoint 0, where every
    retry reproduces the same state, so the give-up test must hold at 0 whatever the other quantities are (annz = 0 is a legal input):
    a disjunct `v == 0`, `v <= e` or `v < c` with c >= 1 on a halved variable."""
    f = prog.func(p + 'LUMemInit')
    n = 0
    for w in f.body.walk():
        if w.k != 'While':
            continue
        body = w.c[1]
        halved = {strip(x.c[0]).a.get('id'): strip(x.c[0]).a.get('name') for x in body.walk()
                  if x.k == 'Assign' and x.a['op'] == '/=' and strip(x.c[0]).k == 'Ref' and (const_value(x.c[1]) or 0) >= 2}
        if not halved:
            continue
        exits = [x for x in body.walk() if x.k == 'If' and any(y.k == 'Return' for y in x.c[1].walk())]
        n += 1
        inst = '%s:retry-loop-gives-up-at-the-fixpoint@%d' % (f.name, n)
        ok = False
        for ex in exits:
            for conj in r2.dnf(ex.c[0], True):
                if len(conj) != 1:
                    continue
                (a, pol) = conj[0]
                a = strip(a)
                if a.k != 'Binary':
                    continue
                op = a.a['op']
                if not pol:
                    op = {'==': '!=', '!=': '==', '<': '>=', '>=': '<', '>': '<=', '<=': '>'}.get(op, op)
                l, r = strip(a.c[0]), strip(a.c[1])
                if l.k == 'Ref' and l.a.get('id') in halved:
                    rv = const_value(r)
                    if (op == '==' and rv == 0) or (op == '<' and rv is not None and rv >= 1) or (op == '<=' and (rv is None or rv >= 0)):
                        # v <= e with an unknown non-negative e (a count) holds at v = 0
                        ok = True
        if ok:
            chk.ok(cid, inst, sample='halved: %s; a give-up test holds when the guess has reached 0' % sorted(halved.values()))
        else:
            chk.violate(cid, inst, loc(f, w), f.name,
                        'the retry loop halves %s but none of its give-up tests (%s) holds once the guess is 0: with nnz = 0 (annz = 0) and a '
                        'workspace that is exactly full the loop repeats the same failing attempt forever'
                        % (sorted(halved.values()), '; '.join(pretty(e.c[0])[:50] for e in exits) or 'none'), cfgname=cfgname)
    if n < 1:
        raise AnalysisBroken('%s: retry loop not found' % f.name)
    return n


def _lin(e):
    """linear form {var-id-or-text: coeff, 1: const} of an integer expression built from + - and literals; None if not linear"""
    e = strip(e)
    v = const_value(e)
    if v is not None:
        return {1: v}
    if e.k == 'Ref':
        return {('v', e.a.get('id')): 1}
    if e.k == 'Binary' and e.a['op'] in ('+', '-'):
        a, b = _lin(e.c[0]), _lin(e.c[1])
        if a is None or b is None:
            return None
        out = dict(a)
        for k, c in b.items():
            out[k] = out.get(k, 0) + (c if e.a['op'] == '+' else -c)
        return {k: c for k, c in out.items() if c != 0}
    return None


def relaxed_capacity_rule(chk, cid, prog, p, cfgname):
    """A relaxed supernode jcol..kcol is stored column after column in lusup[] by a loop `for (icol = jcol; icol <= kcol; icol++)` that never
    tests the capacity itself; the one test in front of it must therefore ask for rows x (number of columns the loop stores).  The demand is
    recognised as `new_next = nextlu + R * W`; W, as a linear form, must equal the trip count of that loop (kcol - jcol + 1)."""
    n = 0
    for fname in (p + 'gstrf', p + 'gsitrf'):
        f = prog.func(fname)
        if f is None:
            raise AnalysisBroken('%s not found' % fname)
        chk.saw(unit=f.unit, func=f.unit + ':' + f.name)
        for blk in f.body.walk():
            if blk.k != 'Block':
                continue
            for i, st in enumerate(blk.c):
                s0 = strip(st)
                if not (s0.k == 'Assign' and s0.a['op'] == '=' and strip(s0.c[0]).k == 'Ref' and strip(s0.c[0]).a.get('name') == 'new_next'):
                    continue
                r = strip(s0.c[1])
                if not (r.k == 'Binary' and r.a['op'] == '+'):
                    continue
                prod = [x for x in (strip(r.c[0]), strip(r.c[1])) if x.k == 'Binary' and x.a['op'] == '*']
                if not prod:
                    continue
                # the storing loop: the next For in this block whose induction variable runs between two plain variables
                loop = next((x for x in blk.c[i + 1:] if x.k == 'For' and x.c[0] is not None and x.c[1] is not None), None)
                if loop is None:
                    continue
                init, cond = strip(loop.c[0]), strip(loop.c[1])
                if init.k != 'Assign' or cond.k != 'Binary' or cond.a['op'] not in ('<=', '<'):
                    continue
                lo, hi = _lin(init.c[1]), _lin(cond.c[1])
                if lo is None or hi is None:
                    continue
                trip = dict(hi)
                for k, c in lo.items():
                    trip[k] = trip.get(k, 0) - c
                if cond.a['op'] == '<=':
                    trip[1] = trip.get(1, 0) + 1
                trip = {k: c for k, c in trip.items() if c != 0}
                n += 1
                inst = '%s:relaxed-supernode-demand-covers-every-column' % fname
                facs = [_lin(x) for x in prod[0].c]
                if trip in facs:
                    chk.ok(cid, inst, sample='`%s`; storing loop `for (%s; %s; ..)`' % (pretty(s0)[:70], pretty(init), pretty(cond)))
                else:
                    chk.violate(cid, inst, loc(f, s0), fname,
                                '`%s` asks for space for %s columns, but the loop `for (%s; %s; ..)` that follows stores %s columns of the relaxed '
                                'supernode without another capacity test: the last column is written past lusup[] when the array is exactly full'
                                % (pretty(s0)[:80], ' or '.join(pretty(x)[:20] for x in prod[0].c), pretty(init), pretty(cond),
                                   pretty(cond.c[1]) + ' - ' + pretty(init.c[1]) + (' + 1' if cond.a['op'] == '<=' else '')), cfgname=cfgname)
    if n < 2:
        raise AnalysisBroken('relaxed_capacity_rule(%s): %d relaxed-supernode demands found, expected 2' % (p, n))
    return n


def reuse_keeps_stack_rule(chk, cid, prog, p, cfgname):
    """Fact = SamePattern_SameRowPerm with a caller workspace re-enters ?LUMemInit while the factors of the previous call still occupy the head of
    work[] (stack.used / stack.top1 say how much).  On that branch the allocator state must be carried over: ?SetupSpace, which starts an
    empty stack (used = top1 = 0), may only run for a fresh factorization; otherwise the next expansion computes its moves from a stack that
    claims to be empty and shifts nothing (or hands out memory the old factors still occupy).  CFG reachability from the false edge of
    `fact != SamePattern_SameRowPerm` (resp. the true edge of `==`) up to the function exits."""
    f = prog.func(p + 'LUMemInit')
    if f is None:
        raise AnalysisBroken('%sLUMemInit not found' % p)
    chk.saw(unit=f.unit, func=f.unit + ':' + f.name)
    cfg = prog.cfg(f)
    start = []
    for cn in cfg.nodes:
        if cn.kind == 'cond' and cn.ast is not None:
            c = strip(cn.ast)
            if c.k == 'Binary' and c.a['op'] in ('!=', '==') and 'SamePattern_SameRowPerm' in canon(c, ids=False):
                want = False if c.a['op'] == '!=' else True
                start += [s for (s, lab) in cn.succ if lab is want]
    if not start:
        raise AnalysisBroken('%s: the test of fact against SamePattern_SameRowPerm was not found' % f.name)
    seen = set()
    st = list(start)
    bad = None
    while st:
        q = st.pop()
        if q in seen:
            continue
        seen.add(q)
        cn = cfg.nodes[q]
        if cn.ast is not None and cn.kind in ('stmt', 'cond', 'return'):
            for x in cn.ast.walk():
                if x.k == 'Call' and (callee_name(x) or '').endswith('SetupSpace'):
                    bad = bad or (x, 'calls %s, which empties the workspace stack' % callee_name(x))
                if x.k == 'Assign' and x.a['op'] == '=' and canon(x.c[0], ids=False).replace(' ', '') in ('Glu->stack.used', 'Glu->stack.top1') and const_value(x.c[1]) == 0:
                    bad = bad or (x, 'resets %s' % canon(x.c[0], ids=False))
        st.extend(s for (s, _) in cn.succ)
    inst = '%s:reuse-branch-keeps-the-workspace-stack' % f.name
    if bad is None:
        chk.ok(cid, inst, sample='%d CFG nodes reachable on the reuse branch; none re-initialises the stack' % len(seen))
    else:
        chk.violate(cid, inst, loc(f, bad[0]), f.name,
                    'on the Fact = SamePattern_SameRowPerm branch ?LUMemInit %s although the factors of the previous call still lie at the head of work[]: the next '
                    'expansion moves nothing / hands their memory out again, and U, lsub, usub are overwritten with info = 0' % bad[1], cfgname=cfgname)
    return 1


def companion_reserve_rule(chk, cid, prog, p, cfgname):
    """In a caller workspace UCOL and USUB grow together (one value and one row subscript per entry of U).  When ?expand grows UCOL by `extra` bytes
    it books room for the same number of int subscripts behind it.  `extra` bytes hold extra / sizeof(value) entries, which need
    extra * sizeof(int) / sizeof(value) bytes of subscripts: the booked amount `extra / k` is enough iff k <= sizeof(value) / sizeof(int) -
    k = 1 in single precision (a float is as wide as an int), at most 2 for double and single complex, 4 for double complex.  A smaller
    reservation leaves the tail of usub[] above stack.top1, where the next expansion does not move it."""
    VAL = {'s': 4, 'd': 8, 'c': 8, 'z': 16}
    f = prog.func(p + 'expand')
    if f is None:
        raise AnalysisBroken('%sexpand not found' % p)
    chk.saw(unit=f.unit, func=f.unit + ':' + f.name)
    n = 0
    for x in f.body.walk():
        if x.k != 'If':
            continue
        c = strip(x.c[0])
        if not (c.k == 'Binary' and c.a['op'] == '==' and 'UCOL' in canon(c, ids=False)):
            continue
        for a in x.c[1].walk():
            if a.k == 'Assign' and a.a['op'] == '+=' and canon(a.c[0], ids=False).replace(' ', '') in ('Glu->stack.top1', 'Glu->stack.used'):
                r = strip(a.c[1])
                k = None
                if r.k == 'Ref' and r.a.get('name') == 'extra':
                    k = 1
                elif r.k == 'Binary' and r.a['op'] == '/' and strip(r.c[0]).k == 'Ref' and strip(r.c[0]).a.get('name') == 'extra' and const_value(r.c[1]):
                    k = const_value(r.c[1])
                n += 1
                inst = '%s:room-for-the-subscripts-of-the-new-U-entries:%s' % (f.name, canon(a.c[0], ids=False).split('.')[-1])
                if k is not None and k * 4 <= VAL[p]:
                    chk.ok(cid, inst, sample='`%s`: extra / %d bytes for ints next to %d-byte values' % (pretty(a)[:40], k, VAL[p]))
                else:
                    chk.violate(cid, inst, loc(f, a), f.name,
                                '`%s` books %s for the row subscripts that accompany `extra` bytes of new U values; with %d-byte values and 4-byte subscripts at least '
                                'extra / %d is needed: the upper part of the grown usub[] lies above stack.top1 and is left behind by the next in-workspace move'
                                % (pretty(a)[:40], pretty(r)[:20], VAL[p], VAL[p] // 4), cfgname=cfgname)
    if n < 2:
        chk.violate(cid, '%s:room-for-the-subscripts-of-the-new-U-entries:absent' % f.name, loc(f, f.body), f.name,
                    'when UCOL grows in the caller workspace no room is booked for the row subscripts that accompany the new U values (no `stack.top1 += ..; '
                    'stack.used += ..` under `type == UCOL`): the grown usub[] lies above stack.top1 and is not moved by the next expansion', cfgname=cfgname)
        return 1
    return n


def layout_order_rule(chk, cid, prog, p, cfgname):
    """In a caller workspace the four growable arrays lie back to back in the order LUSUP, UCOL, LSUB, USUB; ?expand relies on it (the block behind
    the array that grows starts at expanders[type + 1].mem).  ?LUMemInit creates them with four consecutive ?expand calls - once for the first
    guess and once more in the retry loop: each group of four calls must name the types in exactly that order."""
    f = prog.func(p + 'LUMemInit')
    if f is None:
        raise AnalysisBroken('%sLUMemInit not found' % p)
    chk.saw(unit=f.unit, func=f.unit + ':' + f.name)
    want = list(ORDER)
    n = 0
    for blk in f.body.walk():
        if blk.k != 'Block':
            continue
        seq = []
        for st in blk.c:
            calls = [y for y in st.walk() if y.k == 'Call' and callee_name(y) == p + 'expand']
            if len(calls) == 1 and len(calls[0].c) >= 3:
                seq.append((canon(calls[0].c[2], ids=False), calls[0]))
            elif seq:
                if len(seq) >= 2:
                    n += 1
                    names = [t for (t, _) in seq]
                    inst = '%s:arrays-created-in-layout-order@%d' % (f.name, n)
                    if names == want[:len(names)] and len(names) == 4:
                        chk.ok(cid, inst, sample=' '.join(names))
                    else:
                        chk.violate(cid, inst, loc(f, seq[0][1]), f.name,
                                    'the growable arrays are created in the order %s; ?expand assumes the workspace layout %s (the block to shift starts at '
                                    'expanders[type + 1].mem): a later in-workspace expansion moves the wrong block and info stays 0' % (' '.join(names), ' '.join(want)),
                                    cfgname=cfgname)
                seq = []
        if len(seq) >= 2:
            n += 1
            names = [t for (t, _) in seq]
            inst = '%s:arrays-created-in-layout-order@%d' % (f.name, n)
            if names == want:
                chk.ok(cid, inst, sample=' '.join(names))
            else:
                chk.violate(cid, inst, loc(f, seq[0][1]), f.name,
                            'the growable arrays are created in the order %s; ?expand assumes the workspace layout %s' % (' '.join(names), ' '.join(want)), cfgname=cfgname)
    if n < 2:
        raise AnalysisBroken('%s: %d groups of ?expand calls found, expected 2 (first guess, retry)' % (f.name, n))
    return n
