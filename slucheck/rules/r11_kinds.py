"""R11  index kinds: a units-of-measure analysis for integer subscripts.

Every integer array of the factorization has a documented domain and range (perm_r: row -> pivot position, iperm_c: position -> column,
xlsub: position -> place in lsub, lsub: place -> row, supno: position -> supernode, swap/iswap of the ILU pivoting: position <-> row ...).
All of these are plain `int`, and for the square matrices the test-suite uses rows, columns and positions even have the same range, so
confusing two of them compiles and passes.  The analysis is a forward dataflow over the CFG that gives every integer local the kind of the
value it currently holds:

   x = arr[e]            kind(x) = range(arr)                       for (i = 0; i < m; ..)     kind(i) = `any index below the row count`
   x = y +/- constant    kind(x) = kind(y)                          for (i = xlsub[j]; ..)     kind(i) = place in lsub
   join of two kinds     the kind if equal, otherwise unknown

and reports, with the offending construct,
   K1  a subscript whose kind is definitely not the domain of the array it indexes (iswap[] indexed by a position, perm_r[] swept by a loop over
       the column count);
   K2  a value of a definitely wrong kind stored into a permutation array;
   K3  an array handed to a callee parameter that has a different role (perm_c where iperm_c is expected);
   K4  a local array whose allocation extent mentions only the column count but which is indexed by rows (or vice versa).
Unknown kinds never report.  Row-count / column-count recognition (m, nrow, nr, ->nrow vs n, ncol, nc, ->ncol) is only used in routines that
mention both, i.e. that actually distinguish rows from columns.
"""
from ..facts import strip, callee_name, const_value, loc, root_ref
from ..ir import pretty
from .extent import alloc_count

# name -> (domain, range)
ARR = {
    'perm_r': ('row', 'pos'), 'iperm_r': ('pos', 'row'),
    'perm_c': ('col', 'pos'), 'iperm_c': ('pos', 'col'),
    'etree': ('pos', 'pos'),
    'xsup': ('sn', 'pos'), 'supno': ('pos', 'sn'),
    'xlsub': ('pos', 'ls'), 'lsub': ('ls', 'row'),
    'xlusup': ('pos', 'lu'),
    'xusub': ('pos', 'us'), 'usub': ('us', 'row'),
    'swap': ('pos', 'row'), 'iswap': ('row', 'pos'),
    'xprune': ('pos', 'ls'),
    'relax_end': ('pos', 'pos'),
    'marker_relax': ('row', 'pos'),
    # depth-first-search work arrays of the symbolic phase (per panel column for the panel versions: the *_col aliases inherit the range)
    'segrep': (None, 'pos'), 'repfnz': ('pos', 'pos'), 'parent': ('pos', 'pos'), 'xplore': ('pos', 'ls'),
}
STORE_CHECKED = {'perm_r', 'iperm_r', 'perm_c', 'iperm_c', 'swap', 'iswap', 'supno', 'xsup'}
EXT = {'row': 'M', 'col': 'N', 'pos': 'N'}
OFFSET_KINDS = {'ls', 'lu', 'us', 'nz'}
M_NAMES = {'m', 'nrow', 'nr', 'M'}
N_NAMES = {'n', 'ncol', 'nc', 'N'}
# routines documented for rectangular A (m >= n): only here does the row count / column count distinction carry information.  The drivers, the
# solve / refine / estimate routines and the ILU factorization require a square matrix and legitimately use either count for both.
RECT = {'getata', 'at_plus_a', 'get_perm_c', 'sp_preorder', 'sp_coletree', 'SetIWork', 'countnz', 'fixupL', 'relax_snode', 'heap_relax_snode'}
RECT_P = ['gstrf', 'gsequ', 'laqgs', 'langs', 'SetRWork', 'LUMemInit', 'panel_dfs', 'panel_bmod', 'PivotGrowth', 'Create_CompCol_Matrix', 'Create_SuperNode_Matrix',
          'Create_Dense_Matrix']
for _p in 'sdcz':
    RECT |= {_p + x for x in RECT_P} | {'sp_%sgemv' % _p, 'sp_%sgemm' % _p}
# parameters whose name fixes their kind throughout the factorization code (value, or pointee for an `int *` out-parameter)
PARAM_KINDS = {'jcol': 'pos', 'fsupc': 'pos', 'pivrow': 'row'}
LOCAL_KINDS = {'jcol': 'pos', 'kcol': 'pos', 'icol': 'pos', 'jj': 'pos'}
LOCAL_KIND_FUNCS = {'gstrf', 'gsitrf'}
PARAM_EXT = {('gsequ', 'r'): 'M', ('gsequ', 'c'): 'N', ('laqgs', 'r'): 'M', ('laqgs', 'c'): 'N'}
# routines that relabel lsub from rows to positions / work on the final (position-labelled) structure
EXEMPT_FUNCS = {'fixupL'}


def ext_of(k):
    if k is None:
        return None
    if k[0] == 'ext':
        return k[1]
    return EXT.get(k[1])


def conflict(ki, ka, use_ext=True):
    """index kind ki against array domain ka (both ('role', r) or ('ext', E)); True only on a definite mismatch"""
    if ki is None or ka is None:
        return False
    if ki[0] == 'role' and ka[0] == 'role':
        if {ki[1], ka[1]} == {'row', 'col'}:
            return False      # a diagonal entry is named by its row and by its column alike
        return ki[1] != ka[1]
    if not use_ext:
        return False
    ei, ea = ext_of(ki), ext_of(ka)
    return ei is not None and ea is not None and ei != ea


def describe(k):
    if k is None:
        return 'unknown'
    if k[0] == 'ext':
        return {'M': 'an index below the row count', 'N': 'an index below the column count'}[k[1]]
    return {'row': 'a row index', 'col': 'a column index of A', 'pos': 'a pivot/column position', 'sn': 'a supernode number', 'ls': 'a place in lsub[]',
            'lu': 'a place in lusup[]', 'us': 'a place in usub[]', 'nz': 'a place in A\'s index array'}[k[1]]


class Analyzer(object):
    def __init__(self, prog, f):
        self.prog = prog
        self.f = f
        self.reports = {}
        self.nsub = 0
        self.ncall = 0
        self.nstore = 0
        self.nlocal = 0
        names = set()
        for x in f.body.walk():
            if x.k == 'Ref':
                names.add(x.a.get('name'))
            elif x.k == 'Member':
                names.add(x.a.get('name'))
        self.use_ext = f.name in RECT and bool(names & M_NAMES) and bool(names & N_NAMES)
        # local arrays: var id -> extent class of the allocation
        self.local_ext = {}
        self.alias = {}     # var id -> array name it points into (range only)
        # scale-factor arrays of the equilibration routines: r[] has one entry per row, c[] one per column (documented in their headers)
        base = f.name[1:] if f.name[:1] in 'sdcz' else f.name
        for (pn, pid_, pt) in f.params:
            if (base, pn) in PARAM_EXT:
                self.local_ext[pid_] = PARAM_EXT[(base, pn)]
        for x in f.body.walk():
            tgt = rhs = None
            if x.k == 'Assign' and x.a['op'] == '=' and strip(x.c[0]).k == 'Ref':
                tgt, rhs = strip(x.c[0]).a.get('id'), x.c[1]
            elif x.k == 'Var' and x.c:
                tgt, rhs = x.a.get('id'), x.c[0]
            if tgt is None:
                continue
            r = strip(rhs)
            if r.k == 'Assign':
                r = strip(r.c[1])
            if r.k == 'Call':
                cnt = alloc_count(r)
                if cnt is not None and self.use_ext:
                    cls = self.classify_extent(cnt)
                    if tgt in self.local_ext and self.local_ext[tgt] != cls:
                        self.local_ext[tgt] = None
                    else:
                        self.local_ext[tgt] = cls
                continue
            base = None
            if r.k == 'Unary' and r.a['op'] == '&' and strip(r.c[0]).k == 'Index':
                base = self.array_name(strip(r.c[0]).c[0])
            elif r.k == 'Binary' and r.a['op'] in ('+', '-'):
                base = self.array_name(r.c[0])
            if base:
                if tgt in self.alias and self.alias[tgt] != base:
                    self.alias[tgt] = None
                else:
                    self.alias[tgt] = base

    # ------------------------------------------------------------ helpers
    def classify_extent(self, e):
        hasm = hasn = False
        for y in e.walk():
            nm = y.a.get('name') if y.k in ('Ref', 'Member') else None
            if nm in M_NAMES:
                hasm = True
            if nm in N_NAMES:
                hasn = True
        if hasm and not hasn:
            return 'M'
        if hasn and not hasm:
            return 'N'
        return None

    def array_name(self, e):
        e = strip(e)
        if e.k == 'Ref':
            nm = e.a.get('name')
            if nm in ARR:
                return nm
            return None
        if e.k == 'Member' and e.a.get('name') in ARR and e.a.get('arrow'):
            b = strip(e.c[0])
            if b.k == 'Ref' and (b.t or '').replace(' ', '').startswith('GlobalLU_t*'):
                return e.a['name']
        return None

    def bound_kind(self, e, env):
        """kind conveyed by an upper bound expression"""
        e0 = strip(e)
        k = self.kind(e0, env)
        if k is not None:
            return k
        if not self.use_ext:
            return None
        nm = e0.a.get('name') if e0.k in ('Ref', 'Member') else None
        if nm in M_NAMES:
            return ('ext', 'M')
        if nm in N_NAMES:
            return ('ext', 'N')
        return None

    def kind(self, e, env):
        e = strip(e)
        if e.k == 'Ref':
            k0 = env.get(e.a.get('id'))
            if k0 is None and e.a.get('dk') == 'VarDecl' and e.a.get('name') in LOCAL_KINDS and self.f.name[1:] in LOCAL_KIND_FUNCS:
                return ('role', LOCAL_KINDS[e.a.get('name')])      # the column counters of the factor routines
            return k0
        if e.k == 'Unary':
            op = e.a['op']
            if op == '*' and strip(e.c[0]).k == 'Ref':
                return env.get(('*', strip(e.c[0]).a.get('id')))
            if op in ('++', '--', 'post++', 'post--', '+'):
                return self.kind(e.c[0], env)
            return None
        if e.k == 'Index':
            b = strip(e.c[0])
            nm = self.array_name(b)
            if nm:
                return ('role', ARR[nm][1])
            if b.k == 'Ref' and self.alias.get(b.a.get('id')):
                return ('role', ARR[self.alias[b.a['id']]][1])
            return None
        if e.k == 'Binary' and e.a['op'] in ('+', '-'):
            ka, kb = self.kind(e.c[0], env), self.kind(e.c[1], env)
            ca, cb = const_value(e.c[0]), const_value(e.c[1])
            if ka is not None and kb is not None:
                return None
            if ka is not None and (cb is not None or (ka[0] == 'role' and ka[1] in OFFSET_KINDS)):
                return ka
            if kb is not None and e.a['op'] == '+' and (ca is not None or (kb[0] == 'role' and kb[1] in OFFSET_KINDS)):
                return kb
            return None
        if e.k == 'Cond':
            a, b = self.kind(e.c[1], env), self.kind(e.c[2], env)
            return a if a == b else None
        if e.k == 'Assign':
            return self.kind(e.c[1], env) if e.a['op'] == '=' else None
        return None

    def report(self, key, node, what):
        self.reports.setdefault(key, (node, what))

    # ------------------------------------------------------------ checks + transfer on one expression tree
    def visit(self, e, env, check):
        e = strip(e)
        if e.k == 'Assign':
            lv = strip(e.c[0])
            self.visit(e.c[1], env, check)
            if lv.k == 'Ref':
                if e.a['op'] == '=':
                    k = self.kind(e.c[1], env)
                elif e.a['op'] in ('+=', '-='):
                    k0 = env.get(lv.a.get('id'))
                    k = k0 if (k0 is not None and (const_value(e.c[1]) is not None or (k0[0] == 'role' and k0[1] in OFFSET_KINDS))) else None
                else:
                    k = None
                self.set(env, lv.a.get('id'), k)
                return
            if lv.k == 'Unary' and lv.a['op'] == '*' and strip(lv.c[0]).k == 'Ref':
                k = self.kind(e.c[1], env) if e.a['op'] == '=' else None
                self.set(env, ('*', strip(lv.c[0]).a.get('id')), k)
                return
            self.visit(lv, env, check)
            if check and lv.k == 'Index' and e.a['op'] == '=':
                nm = self.array_name(lv.c[0])
                if nm in STORE_CHECKED:
                    self.nstore += 1
                    kv = self.kind(e.c[1], env)
                    want = ('role', ARR[nm][1])
                    if conflict(kv, want, use_ext=False):
                        self.report('K2:%s:%s' % (nm, pretty(e)[:40]), e,
                                    '`%s` stores %s into %s[], whose entries are %ss' % (pretty(e)[:60], describe(kv), nm, describe(want)[2:]))
            return
        if e.k == 'Var':
            if e.c:
                self.visit(e.c[0], env, check)
                self.set(env, e.a.get('id'), self.kind(e.c[0], env))
            return
        if e.k == 'Unary' and e.a['op'] in ('++', '--', 'post++', 'post--'):
            self.visit(e.c[0], env, check)
            return          # kind unchanged
        if e.k == 'Call':
            for a in e.c[1:]:
                self.visit(a, env, check)
            if check:
                self.check_call(e, env)
            for a in e.c[1:]:
                a = strip(a)
                if a.k == 'Unary' and a.a['op'] == '&' and strip(a.c[0]).k == 'Ref':
                    self.set(env, strip(a.c[0]).a.get('id'), None)
                if a.k == 'Ref' and ('*', a.a.get('id')) in env:
                    self.set(env, ('*', a.a.get('id')), None)
            return
        if e.k == 'Index':
            self.visit(e.c[0], env, check)
            self.visit(e.c[1], env, check)
            if check:
                self.check_subscript(e, env)
            return
        for c in e.c:
            self.visit(c, env, check)

    def set(self, env, key, k):
        if key is None:
            return
        if k is None:
            env.pop(key, None)
        else:
            env[key] = k

    def check_subscript(self, e, env):
        b = strip(e.c[0])
        ki = self.kind(e.c[1], env)
        nm = self.array_name(b)
        if nm:
            if ARR[nm][0] is None:
                return
            self.nsub += 1
            ka = ('role', ARR[nm][0])
            if conflict(ki, ka):
                self.report('K1:%s[%s]' % (nm, pretty(e.c[1])[:30]), e,
                            '`%s`: %s[] is indexed by %ss, but `%s` is %s here' % (pretty(e)[:50], nm, describe(ka)[2:], pretty(e.c[1])[:30], describe(ki)))
            return
        if b.k == 'Ref' and self.local_ext.get(b.a.get('id')):
            self.nlocal += 1
            ea = self.local_ext[b.a['id']]
            ei = ext_of(ki)
            if ei is not None and ei != ea:
                self.report('K4:%s[%s]' % (b.a['name'], pretty(e.c[1])[:30]), e,
                            '`%s`: array `%s` has an extent that depends only on the %s count (by its allocation, or as its routine documents it), but `%s` is %s'
                            % (pretty(e)[:50], b.a['name'], {'M': 'row', 'N': 'column'}[ea], pretty(e.c[1])[:30], describe(ki)))

    def check_call(self, e, env):
        name = callee_name(e)
        tgt = self.prog.resolve(name, self.f.unit) if name else None
        if tgt is None:
            return
        for (pname, pid, pt), a in zip(tgt.params, e.c[1:]):
            if pname not in ARR:
                continue
            nm = self.array_name(a)
            if nm is None:
                continue
            self.ncall += 1
            if ARR[nm] != ARR[pname] and None not in (ARR[nm][0], ARR[pname][0]):
                self.report('K3:%s(%s<-%s)' % (name, pname, nm), e,
                            'argument `%s` (%s -> %s) is passed for parameter `%s` of %s, which is used as a map from %s to %s'
                            % (nm, describe(('role', ARR[nm][0])), describe(('role', ARR[nm][1])), pname, name, describe(('role', ARR[pname][0])),
                               describe(('role', ARR[pname][1]))))

    # ------------------------------------------------------------ dataflow
    def refine(self, cond, env, label):
        """on the true edge of `v < bound` / `v <= bound` (false edge of `v >= bound`) an index of unknown kind takes the kind of the bound"""
        c = strip(cond)
        if c.k != 'Binary':
            return
        op = c.a['op']
        l, r = strip(c.c[0]), strip(c.c[1])
        var = bound = None
        if (op in ('<', '<=') and label is True) or (op in ('>=', '>') and label is False):
            var, bound = l, r
        elif (op in ('>', '>=') and label is True) or (op in ('<=', '<') and label is False):
            var, bound = r, l
        if var is None or var.k != 'Ref' or var.a.get('id') is None:
            return
        if env.get(var.a['id']) is not None:
            return
        k = self.bound_kind(bound, env)
        if k is not None:
            env[var.a['id']] = k

    def run(self):
        cfg = self.prog.cfg(self.f)
        env0 = {}
        for (nm, pid, pt) in self.f.params:
            if nm in PARAM_KINDS:
                t = (pt or '').replace(' ', '')
                if t in ('int', 'int_t', 'constint'):
                    env0[pid] = ('role', PARAM_KINDS[nm])
                elif t in ('int*', 'int_t*'):
                    env0[('*', pid)] = ('role', PARAM_KINDS[nm])
        IN = {cfg.entry.id: env0}
        work = [cfg.entry.id]
        rounds = 0
        while work:
            rounds += 1
            if rounds > 200000:
                raise RuntimeError('kind dataflow does not converge in %s' % self.f.name)
            nid = work.pop()
            node = cfg.nodes[nid]
            env = dict(IN[nid])
            if node.ast is not None and node.kind in ('stmt', 'cond', 'return', 'switch'):
                self.visit(node.ast, env, False)
            for (s, lab) in node.succ:
                out = env
                if node.kind == 'cond' and lab in (True, False):
                    out = dict(env)
                    self.refine(node.ast, out, lab)
                if s not in IN:
                    IN[s] = dict(out)
                    work.append(s)
                else:
                    cur = IN[s]
                    new = {k: v for k, v in cur.items() if out.get(k) == v}
                    if len(new) != len(cur):
                        IN[s] = new
                        work.append(s)
        # checking pass with the fixpoint environments
        for nid, env0 in IN.items():
            node = cfg.nodes[nid]
            if node.ast is not None and node.kind in ('stmt', 'cond', 'return', 'switch'):
                self.visit(node.ast, dict(env0), True)
        return self.reports


_CONTROL_OK = {}


def positive_control():
    """fixtures/r11_kinds.c must be reported for K1, K2, K3 and K4 (the expected count on a healthy tree is zero)"""
    if _CONTROL_OK:
        return
    import os
    from ..facts import Program
    from ..run import VERIF, AnalysisBroken
    fx = Program.load(paths=[os.path.join(VERIF, 'fixtures', 'r11_kinds.c')])
    f = fx.func('getata')
    if f is None:
        raise AnalysisBroken('R11 positive control: fixtures/r11_kinds.c not parsed')
    reps = Analyzer(fx, f).run()
    kinds = sorted({k.split(':')[0] for k in reps})
    if kinds != ['K1', 'K2', 'K3', 'K4']:
        raise AnalysisBroken('R11 positive control: expected K1..K4 on fixtures/r11_kinds.c, engine saw %s' % sorted(reps))
    _CONTROL_OK['ok'] = sorted(reps)


def run(chk, cid, prog, cfgname, units=None, funcs=None, floor=None):
    positive_control()
    chk.clause(cid, 'subscripts, stored values and array arguments have the index kind the array is documented to take')
    tot = [0, 0, 0, 0]
    nf = 0
    for f in prog.all_funcs():
        if units is not None and f.unit not in units:
            continue
        if funcs is not None and f.name not in funcs:
            continue
        if f.unit.startswith('CBLAS/') or f.name in EXEMPT_FUNCS:
            continue
        an = Analyzer(prog, f)
        try:
            reps = an.run()
        except RuntimeError as e:
            from ..run import AnalysisBroken
            raise AnalysisBroken(str(e))
        n = an.nsub + an.ncall + an.nstore + an.nlocal
        if not n:
            continue
        nf += 1
        tot[0] += an.nsub
        tot[1] += an.ncall
        tot[2] += an.nstore
        tot[3] += an.nlocal
        chk.saw(unit=f.unit, func=f.unit + ':' + f.name)
        if not reps:
            chk.ok(cid, '%s:%s' % (f.unit, f.name), sample='%d subscripts, %d array arguments, %d stores, %d local-array subscripts' % (an.nsub, an.ncall, an.nstore, an.nlocal))
        for key, (node, what) in sorted(reps.items()):
            chk.violate(cid, '%s:%s' % (f.name, key), loc(f, node), f.name, what, cfgname=cfgname)
    if floor is not None and sum(tot) < floor:
        from ..run import AnalysisBroken
        raise AnalysisBroken('R11: %d kind obligations examined, floor %d' % (sum(tot), floor))
    chk.samples.append('positive control fixtures/r11_kinds.c -> reported: %s (expected)' % _CONTROL_OK.get('ok'))
    chk.notes.append('%s R11: %d functions, %d subscripts, %d array arguments, %d stores, %d local-array subscripts' % (cfgname, nf, tot[0], tot[1], tot[2], tot[3]))
    return sum(tot)
