"""C12 Condition estimate is a valid one-sided bound; growth factor matches factors  —  R3 (driver cond group, ?gscon), structural rules (?PivotGrowth), R9."""
from ..facts import Program
from ..run import Check, AnalysisBroken
from ..rules import cond, r9_sibling, kernels, reentry
from ..rules.effects import PathEffects
from . import _drv, _gssvx, _expert

R9_UNITS = ['gscon.c', 'lacon2.c', 'langs.c', 'pivotgrowth.c', 'gssvx.c', 'sp_blas2.c']
R9_EXTRA = {'dzsum1.c', 'izmax1.c'}


def run(tier):
    chk = Check('C12', tier, level='other')
    chk.explanation = (
        'R3 on ?gssvx (all valuations of Trans x storage x ConditionNumber x PivotGrowth x factorization outcome, 4 types): the norm letter '
        'is \'1\' iff the effective transpose sense is no-transpose (row storage reverses it) and the same letter reaches ?langs (on the '
        'matrix that was factored) and ?gscon; no estimate and no info = n+1 warning without ConditionNumber; ?PivotGrowth(ncol, AA, perm_c, '
        'L, U) when asked, ?PivotGrowth(*info, ...) on a singular return. R3 on ?gscon (norm letter x kase returned by ?lacon2): '
        'kase == kase1 -> sp_?trsv(L,N,U) then (U,N,N), otherwise (U,T,N) then (L,T,U), kase1 = 1 iff one-norm; rcond = (1/ainvnm)/anorm. '
        '?PivotGrowth: inverse of perm_c built by inversion, A read through it, every update of the result inside the column loop bounded by '
        'ncols. The non-transposed solves of sp_?trsv (used only by ?gscon) keep their gemv scratch vector cleared between supernodes (kernel rule). R9 siblings (incl. ?lacon2, dzsum1/scsum1, izmax1/icmax1). Not decided: rcond <= true value, rcond <= 1, growth equals its '
        'definition (values).')
    cfgs = ['tested'] if tier == 'quick' else ['tested', 'cblas', 'idx64']
    chk.configs = cfgs
    for cfgname in cfgs:
        prog = Program.load(which=('SRC',), cfg=cfgname)
        eff = PathEffects(prog)
        chk.clause('C12.cond', 'R3 oracle group `cond` of ?gssvx (D1, D3)')
        chk.clause('C12.D2', 'R3 oracle of ?gscon')
        chk.clause('C12.D3', '?PivotGrowth column discipline')
        n = n2 = 0
        for p in _drv.PRECS:
            f, fl, leaves = _gssvx.leaves_for(prog, eff, p, ilu=False, tier=tier, split=('Fact', 'Trans', 'A.Stype', 'ConditionNumber', 'PivotGrowth', 'info', 'B.ncol'))
            ctx = _expert.Ctx(prog, f, fl, p, False)
            _expert.run_leaf_groups(chk, 'C12', ctx, leaves, ('cond',), cfgname)
            n += len(leaves)
            n2 += cond.gscon_oracle(chk, 'C12.D2', prog, eff, p, cfgname)
            cond.pivotgrowth_rules(chk, 'C12.D3', prog, p, cfgname)
        kernels.run_basic(chk, 'C12.kern', prog, cfgname, ('trsv',), floor_scratch=4)
        chk.clause('C12.kern.const', 'locals that stand for constants are not also used as scratch')
        kernels.constant_names_rule(chk, 'C12.kern.const', prog, cfgname)
        chk.clause('C12.kern.sweep', 'sp_?trsv solves every supernode')
        for p in _drv.PRECS:
            kernels.supernode_sweep_rule(chk, 'C12.kern.sweep', prog, p, cfgname)
        cond.norm_sum_rule(chk, 'C12.norm', prog, cfgname)
        chk.clause('C12.est', 'the norm estimate behind RCOND is a magnitude by construction')
        for _p in 'sdcz':
            cond.estimate_nonnegative_rule(chk, 'C12.est', prog, _p, cfgname)
            cond.alt_vector_rule(chk, 'C12.est', prog, _p, cfgname)
        kernels.paired_cursor_rule(chk, 'C12.cursor', prog, ['sp_%strsv' % q for q in 'sdcz'], cfgname, floor=4)
        chk.clause('C12.lacon', 'reverse-communication state of ?lacon2 written before read on every call history')
        for p in _drv.PRECS:
            reentry.run(chk, 'C12.lacon', prog, p, cfgname)
        if n < 4 * 100 or n2 < 4 * 9:
            raise AnalysisBroken('C12: %d driver leaves, %d gscon leaves; floors 400, 36' % (n, n2))
        if cfgname == 'tested':
            r9_sibling.run(chk, prog, 'C12.D4', {p + u for p in 'dz' for u in R9_UNITS} | R9_EXTRA, cfgname)
    return chk.finish()
