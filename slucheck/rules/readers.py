"""C16: structural rules on the matrix file readers."""
import re
from ..facts import strip, callee_name, const_value, loc, root_ref, canon
from ..ir import pretty
from .extent import alloc_count

READER_UNITS_PAT = re.compile(r'(SRC/[sdcz]read(hb|rb|MM|triple)\.c|EXAMPLE/dreadtriple_noheader\.c)$')


def array_size(t):
    m = re.search(r'\[(\d+)\]', t or '')
    return int(m.group(1)) if m else None


def run(chk, prefix, prog, cfgname):
    ca = chk.clause(prefix + '.base', 'index-base conversion of parsed indices')
    cb = chk.clause(prefix + '.buf', 'line/field buffers are large enough')
    cc = chk.clause(prefix + '.fmt', 'scanf conversions agree with the pointee types')
    cd = chk.clause(prefix + '.ext', 'co-indexed arrays have equal extents')
    nunits = 0
    for u in prog.units:
        if not READER_UNITS_PAT.search(u.rel):
            continue
        nunits += 1
        for f in u.funcs:
            chk.saw(unit=u.rel, func=u.rel + ':' + f.name)
            locs = {vid: v for vid, v in f.locals.items()}
            # ---- (buf) fgets / fscanf %Nc / constant subscript stores
            for x in f.body.walk():
                if x.k == 'Call' and callee_name(x) == 'fgets' and len(x.c) > 2:
                    b = strip(x.c[1])
                    if b.k == 'Ref' and b.a.get('id') in locs:
                        K = array_size(locs[b.a['id']].t)
                        N = const_value(x.c[2])
                        if K is not None and N is not None:
                            inst = '%s:%s:fgets(%s)' % (u.rel, f.name, b.a['name'])
                            if N <= K:
                                chk.ok(prefix + '.buf', inst, sample='%d <= %d' % (N, K))
                            else:
                                chk.violate(prefix + '.buf', inst, loc(f, x), f.name, 'fgets may store %d bytes into `%s`, which has %d' % (N, b.a['name'], K), cfgname=cfgname)
                if x.k == 'Call' and callee_name(x) in ('fscanf', 'sscanf', 'scanf'):
                    fi = 1 if callee_name(x) == 'scanf' else 2
                    if len(x.c) > fi and strip(x.c[fi]).k == 'Str':
                        fmt = strip(x.c[fi]).a['value'].strip('"')
                        convs = re.findall(r'%(\*?)(\d*)(hh|h|ll|l|L)?([diuxfegcs])', fmt)
                        args = x.c[fi + 1:]
                        ai = 0
                        for (star, width, lm, cv) in convs:
                            if star:
                                continue
                            if ai >= len(args):
                                break
                            a = strip(args[ai])
                            ai += 1
                            if cv == 'c' and width and a.k == 'Ref' and a.a.get('id') in locs:
                                K = array_size(locs[a.a['id']].t)
                                if K is not None:
                                    inst = '%s:%s:%%%sc->%s' % (u.rel, f.name, width, a.a['name'])
                                    if int(width) <= K:
                                        chk.ok(prefix + '.buf', inst, sample='%s <= %d' % (width, K))
                                    else:
                                        chk.violate(prefix + '.buf', inst, loc(f, x), f.name, '%%%sc stores %s bytes into `%s`, which has %d' % (width, width, a.a['name'], K), cfgname=cfgname)
                            # (fmt) conversion vs pointee type
                            t = (a.a.get('dt') or a.t or '')
                            pt = t.replace('*', '').strip() if '*' in t else None
                            if a.k == 'Unary' and a.a['op'] == '&':
                                pt = (strip(a.c[0]).a.get('dt') or strip(a.c[0]).t or '').strip()
                            for _ in range(3):
                                if pt and pt in u.typedefs and u.typedefs[pt][0] and u.typedefs[pt][0] != pt:
                                    pt = u.typedefs[pt][0]
                            if pt and cv in 'dfeg' and not (cv == 'd' and 'idx64' in cfgname):
                                want = None
                                if cv == 'd':
                                    want = {'': {'int'}, 'l': {'long'}, 'll': {'long long'}}.get(lm or '', None)
                                else:
                                    want = {'': {'float'}, 'l': {'double'}}.get(lm or '', None)
                                if want is not None:
                                    inst = '%s:%s:%%%s%s->%s' % (u.rel, f.name, lm or '', cv, pretty(a)[:24])
                                    if pt in want:
                                        chk.ok(prefix + '.fmt', inst)
                                    else:
                                        chk.violate(prefix + '.fmt', inst, loc(f, x), f.name,
                                                    'conversion %%%s%s stores a %s but the argument `%s` points to %s' % (lm or '', cv, '/'.join(sorted(want)), pretty(a)[:40], pt),
                                                    cfgname=cfgname)
                if x.k == 'Assign' and strip(x.c[0]).k == 'Index':
                    lv = strip(x.c[0])
                    b = strip(lv.c[0])
                    c = const_value(lv.c[1])
                    if b.k == 'Ref' and b.a.get('id') in locs and c is not None:
                        K = array_size(locs[b.a['id']].t)
                        if K is not None:
                            inst = '%s:%s:%s[%d]' % (u.rel, f.name, b.a['name'], c)
                            if 0 <= c < K:
                                chk.ok(prefix + '.buf', inst, nontrivial=False)
                            else:
                                chk.violate(prefix + '.buf', inst, loc(f, x), f.name, 'store at constant subscript %d of `%s[%d]`' % (c, b.a['name'], K), cfgname=cfgname)
            # ---- (base) ReadVector: parsed index minus one
            if f.name == 'ReadVector':
                dest = f.params[2][1] if len(f.params) > 2 else None
                st = [x for x in f.body.walk() if x.k == 'Assign' and root_ref(x.c[0]) is not None and root_ref(x.c[0]).a.get('id') == dest and strip(x.c[0]).k != 'Ref']
                ok = len(st) == 1 and strip(st[0].c[1]).k == 'Binary' and strip(st[0].c[1]).a['op'] == '-' and const_value(strip(st[0].c[1]).c[1]) == 1
                inst = '%s:ReadVector:index-minus-one' % u.rel
                if ok:
                    chk.ok(prefix + '.base', inst, sample=pretty(st[0]))
                else:
                    chk.violate(prefix + '.base', inst, loc(f, (st or [f.body])[0]), f.name,
                                'Harwell/Rutherford-Boeing indices are 1-based: each parsed index must be stored as value - 1 (found %s)' % [pretty(x)[:50] for x in st], cfgname=cfgname)
            # ---- (base) coordinate readers: one guarded decrement per scanned index array
            scans = [x for x in f.body.walk() if x.k == 'Call' and callee_name(x) in ('fscanf', 'scanf') and
                     sum(1 for a in x.c[1:] if strip(a).k == 'Unary' and strip(a).a['op'] == '&' and strip(strip(a).c[0]).k == 'Index') >= 3]
            if scans:
                idxarrs = []
                for a in scans[0].c[1:]:
                    a = strip(a)
                    if a.k == 'Unary' and a.a['op'] == '&' and strip(a.c[0]).k == 'Index':
                        b = strip(strip(a.c[0]).c[0])
                        if b.k == 'Ref' and 'int' in (b.t or ''):
                            idxarrs.append(b)
                for b in idxarrs:
                    decs = []

                    def walk(n, guards):
                        if n.k == 'If':
                            walk(n.c[1], guards + [(n.c[0], True)])
                            if len(n.c) > 2:
                                walk(n.c[2], guards + [(n.c[0], False)])
                            return
                        if n.k == 'Unary' and n.a['op'] == '--' and strip(n.c[0]).k == 'Index' and strip(strip(n.c[0]).c[0]).k == 'Ref' \
                                and strip(strip(n.c[0]).c[0]).a['id'] == b.a['id']:
                            decs.append((n, list(guards)))
                        for c in n.c:
                            walk(c, guards)
                    walk(f.body, [])
                    inst = '%s:%s:%s-to-zero-based' % (u.rel, f.name, b.a['name'])
                    ok = len(decs) == 1 and len(decs[0][1]) >= 1
                    if ok:
                        g, pol = decs[0][1][-1]
                        g = strip(g)
                        ok = (g.k == 'Unary' and g.a['op'] == '!' and pol) or (g.k == 'Binary' and g.a['op'] == '==' and const_value(g.c[1]) == 0 and pol)
                    if ok:
                        chk.ok(prefix + '.base', inst, sample='%s under %s' % (pretty(decs[0][0]), pretty(decs[0][1][-1][0])))
                    else:
                        chk.violate(prefix + '.base', inst, loc(f, (decs or [(f.body,)])[0][0]), f.name,
                                    'coordinate files may be 0- or 1-based: `%s[]` must be decremented exactly once per entry, only when the file is not zero-based '
                                    '(found %d decrement(s))' % (b.a['name'], len(decs)), cfgname=cfgname)
            # ---- (ext) co-indexed local arrays
            allocs = {}
            for x in f.body.walk():
                tgt = rhs = None
                if x.k == 'Assign' and x.a['op'] == '=' and strip(x.c[0]).k == 'Ref':
                    tgt, rhs = strip(x.c[0]).a['id'], strip(x.c[1])
                elif x.k == 'Var' and x.c:
                    tgt, rhs = x.a['id'], strip(x.c[0])
                if rhs is not None:
                    if rhs.k == 'Assign':
                        rhs = strip(rhs.c[1])
                    if rhs.k == 'Call':
                        c = alloc_count(rhs)
                        if c is not None:
                            allocs.setdefault(tgt, set()).add(canon(c, ids=False))
            if len(allocs) >= 2:
                groups = {}
                for x in f.body.walk():
                    if x.k == 'Call' and callee_name(x) in ('fscanf', 'scanf'):
                        by = {}
                        for a in x.c[1:]:
                            a = strip(a)
                            if a.k == 'Unary' and a.a['op'] == '&' and strip(a.c[0]).k == 'Index':
                                el = strip(a.c[0])
                                b, i = strip(el.c[0]), strip(el.c[1])
                                if b.k == 'Ref' and b.a['id'] in allocs and i.k == 'Ref':
                                    by.setdefault(i.a['id'], set()).add(b.a['id'])
                        for iv, arrs in by.items():
                            if len(arrs) >= 2:
                                groups[frozenset(arrs)] = x
                for arrs, node in groups.items():
                    exts = {vid: allocs[vid] for vid in arrs}
                    names = {vid: f.locals[vid].a['name'] for vid in arrs if vid in f.locals}
                    inst = '%s:%s:{%s}' % (u.rel, f.name, ','.join(sorted(names.values())))
                    vals = set()
                    for s_ in exts.values():
                        vals |= s_
                    if len(vals) == 1:
                        chk.ok(prefix + '.ext', inst, sample='all %s' % sorted(vals))
                    else:
                        chk.violate(prefix + '.ext', inst, loc(f, node), f.name,
                                    'arrays %s are filled side by side with one subscript but are allocated with different extents %s'
                                    % (sorted(names.values()), {names[v]: sorted(e) for v, e in exts.items() if v in names}), cfgname=cfgname)
    return nunits
