"""R6 `wspace`: the two-ended stack allocator over the caller's work[] (Glu->stack.{used, top1, top2, size, array}).

(a) only the allocator routines store into the stack fields;
(b) every one of them preserves  I = used - top1 - size + top2  (so  used = top1 + size - top2  is inductive and
    `bytes + used >= size` is the right fullness test), or establishes I = 0 from scratch - linear-form dataflow on the CFG;
(c) every comparison against stack.size has the shape  (x + stack.used) >= stack.size ;
(d) a pointer obtained from ?user_malloc / ?expand is tested against NULL before it is stored into Glu or dereferenced;
(e) ?user_free(k) releases only acquisitions that are known to have succeeded on the path to the call.
"""
from ..facts import strip, callee_name, const_value, loc, root_ref, canon
from ..ir import pretty

FIELDS = ('used', 'top1', 'top2', 'size')
WRITERS = ('SetupSpace', 'user_malloc', 'user_free', 'expand', 'LUWorkInit', 'LUWorkFree', 'StackCompress', 'LUMemInit')


def stack_field(e):
    """name of the stack field an l/r-value denotes:  X->stack.<field>"""
    e = strip(e)
    if e.k == 'Member' and not e.a['arrow'] and e.a['name'] in FIELDS + ('array',):
        b = strip(e.c[0])
        if b.k == 'Member' and b.a['name'] == 'stack':
            return e.a['name']
    return None


def is_writer(name, p):
    return any(name == p + w for w in WRITERS)


# ---------------------------------------------------------------- linear forms
def lf_add(a, b, sign=1):
    out = dict(a)
    for k, v in b.items():
        out[k] = out.get(k, 0) + sign * v
        if out[k] == 0:
            del out[k]
    return out


def lf_scale(a, c):
    return {k: v * c for k, v in a.items() if v * c != 0}


def lin(e, state):
    e = strip(e)
    fld = stack_field(e)
    if fld in FIELDS:
        return dict(state[fld])
    c = const_value(e)
    if c is not None:
        return {'1': c} if c else {}
    if e.k == 'Ref' and ('L:' + str(e.a.get('id'))) in state:
        return dict(state['L:' + str(e.a.get('id'))])      # a local that saved a stack field (mark / release idiom)
    if e.k == 'Binary' and e.a['op'] in ('+', '-'):
        return lf_add(lin(e.c[0], state), lin(e.c[1], state), 1 if e.a['op'] == '+' else -1)
    if e.k == 'Binary' and e.a['op'] == '*':
        ca, cb = const_value(e.c[0]), const_value(e.c[1])
        if ca is not None:
            return lf_scale(lin(e.c[1], state), ca)
        if cb is not None:
            return lf_scale(lin(e.c[0], state), cb)
    if e.k == 'Unary' and e.a['op'] == '-':
        return lf_scale(lin(e.c[0], state), -1)
    # opaque atom; if it mentions stack fields, substitute their current forms textually is impossible -> keep canonical text
    return {canon(e): 1}


def memmodel_test(node, enums):
    """(polarity, 'SYSTEM'|'USER') if the branch node tests Glu->MemModel against one of its two values"""
    if node.kind != 'cond' or node.ast is None:
        return None
    c = strip(node.ast)
    if c.k == 'Binary' and c.a['op'] in ('==', '!='):
        l, r = strip(c.c[0]), strip(c.c[1])
        if l.k == 'Member' and l.a['name'] == 'MemModel' and r.k == 'Ref' and r.a['name'] in ('SYSTEM', 'USER'):
            return (c.a['op'] == '==', r.a['name'])
    return None


def freeze(state):
    return tuple((f, tuple(sorted(state[f].items()))) for f in sorted(state))


def thaw(fr):
    return {f: dict(items) for (f, items) in fr}


INIT = {'used': {'U0': 1}, 'top1': {'T10': 1}, 'top2': {'T20': 1}, 'size': {'S0': 1}}


def invariant(state):
    i = lf_add(state['used'], state['top1'], -1)
    i = lf_add(i, state['size'], -1)
    return lf_add(i, state['top2'], 1)


def check_invariant(chk, cid, prog, f, p, cfgname, preserving, tail_empty_on_entry=False, must_empty_tail=False):
    cfg = prog.cfg(f)
    init = dict(INIT)
    if tail_empty_on_entry:
        # between factorizations the tail end is empty: ?LUWorkFree (and ?SetupSpace) leave top2 == size
        init = dict(INIT, top2={'S0': 1})
    IN = {cfg.entry.id: {freeze(init)}}
    work = [cfg.entry.id]
    fresh = [0]
    nst = 0

    def transfer(node, st):
        st = {k: dict(v) for k, v in st.items()}
        if node.kind not in ('stmt', 'cond', 'return', 'switch') or node.ast is None:
            return st
        for e in node.ast.walk():
            if e.k == 'Assign' and e.a['op'] == '=' and strip(e.c[0]).k == 'Ref' and stack_field(e.c[1]) in FIELDS:
                st['L:' + str(strip(e.c[0]).a['id'])] = lin(e.c[1], st)
            if e.k == 'Assign':
                fld = stack_field(e.c[0])
                if fld in FIELDS:
                    if e.a['op'] == '=':
                        st[fld] = lin(e.c[1], st)
                    elif e.a['op'] in ('+=', '-='):
                        st[fld] = lf_add(st[fld], lin(e.c[1], st), 1 if e.a['op'] == '+=' else -1)
                    else:
                        st[fld] = {canon(e): 1}
            elif e.k == 'Unary' and e.a['op'] in ('++', '--') and stack_field(e.c[0]) in FIELDS:
                fld = stack_field(e.c[0])
                st[fld] = lf_add(st[fld], {'1': 1}, 1 if e.a['op'] == '++' else -1)
            elif e.k == 'Call':
                name = callee_name(e)
                if name in preserving:
                    # the callee preserves I (checked separately); the end(s) it works on move by an unknown amount
                    ends = {'top1', 'top2'}
                    if name.endswith('expand'):
                        ends = {'top1'}                       # the four factor arrays live at the head
                    elif name.endswith('LUWorkInit'):
                        ends = {'top2'}                       # work arrays live at the tail
                    elif name.endswith(('user_malloc', 'user_free')) and len(e.c) > 2 and strip(e.c[2]).k == 'Ref':
                        ends = {'top1'} if strip(e.c[2]).a['name'] == 'HEAD' else ({'top2'} if strip(e.c[2]).a['name'] == 'TAIL' else ends)
                    fresh[0] += 1
                    if 'top1' in ends:
                        a1 = {'a%d' % fresh[0]: 1}
                        st['used'] = lf_add(st['used'], lf_add(a1, st['top1'], -1))
                        st['top1'] = a1
                    if 'top2' in ends:
                        a2 = {'b%d' % fresh[0]: 1}
                        st['used'] = lf_add(st['used'], lf_add(a2, st['top2'], -1), -1)
                        st['top2'] = a2
        return st
    guard = 0
    while work:
        nid = work.pop()
        node = cfg.nodes[nid]
        mm = memmodel_test(node, prog.enums)
        for fr in list(IN[nid]):
            st_out = transfer(node, thaw(fr))
            for (s, lab) in node.succ:
                st2 = st_out
                if mm is not None and isinstance(lab, bool):
                    # correlated predicate  Glu->MemModel == SYSTEM|USER  (two-valued): prune / record
                    want = mm[1] if (lab == mm[0]) else ('USER' if mm[1] == 'SYSTEM' else 'SYSTEM')
                    cur = st_out.get('mm')
                    if cur is not None and cur != {want: 1}:
                        continue
                    st2 = dict(st_out)
                    st2['mm'] = {want: 1}
                out = freeze(st2)
                d = IN.setdefault(s, set())
                if out not in d:
                    if len(d) > 64:
                        continue
                    d.add(out)
                    work.append(s)
        guard += 1
        if guard > 20000:
            break
    I0 = invariant(init)
    bad = []
    tail = []
    exits = 0
    for node in cfg.nodes:
        if node.kind == 'return' and node.id in IN:
            for fr in IN[node.id]:
                exits += 1
                st = thaw(fr)
                I = invariant(st)
                if I == I0 or I == {}:
                    continue
                bad.append((node, I))
    if must_empty_tail:
        for node in cfg.nodes:
            if node.kind == 'return' and node.id in IN:
                for fr in IN[node.id]:
                    st = thaw(fr)
                    if st['top2'] != st['size'] and freeze({k: st[k] for k in FIELDS}) != freeze({k: init[k] for k in FIELDS}):      # untouched = malloc mode
                        tail.append(node)
        inst2 = '%s:tail-released' % f.name
        if tail:
            chk.violate(cid, inst2, loc(f, tail[0].ast if tail[0].ast is not None else f.body), f.name,
                        'the work arrays at the tail end must be released completely (top2 == size on exit); later factorizations rely on it', cfgname=cfgname)
        else:
            chk.ok(cid, inst2)
    inst = '%s:invariant' % f.name
    if bad:
        node, I = bad[0]
        chk.violate(cid, inst, loc(f, node.ast if node.ast is not None else f.body), f.name,
                    'on a path to this exit the stack bookkeeping is inconsistent: used - top1 - size + top2 changes by %s (it must stay constant, '
                    'so that used = top1 + size - top2 and the fullness test is exact)' % _show(lf_add(I, I0, -1)), cfgname=cfgname)
    else:
        chk.ok(cid, inst, sample='%d exit state(s): I preserved or established as 0' % exits)
    return 1


def _show(l):
    return ' + '.join('%s*%s' % (v, k) if v != 1 else k for k, v in sorted(l.items())) or '0'


def run(chk, cid_prefix, prog, cfgname):
    ca = chk.clause(cid_prefix + '.a', 'only the allocator writes the stack fields')
    cb = chk.clause(cid_prefix + '.b', 'used = top1 + size - top2 preserved')
    cc = chk.clause(cid_prefix + '.c', 'fullness test is (x + used) >= size')
    cd = chk.clause(cid_prefix + '.d', 'NULL from the allocator is honoured')
    ce = chk.clause(cid_prefix + '.e', 'release matches successful acquisitions')
    n = 0
    for f in prog.all_funcs():
        if f.unit.startswith(('CBLAS/', 'FORTRAN/')):
            continue
        p = None
        for q in 'sdcz':
            if is_writer(f.name, q):
                p = q
        stores = []
        for x in f.body.walk():
            if x.k == 'Assign' and stack_field(x.c[0]):
                stores.append(x)
            elif x.k == 'Unary' and x.a['op'] in ('++', '--') and stack_field(x.c[0]):
                stores.append(x)
        # (a)
        if stores and p is None:
            chk.violate(cid_prefix + '.a', '%s:writes-stack' % f.name, loc(f, stores[0]), f.name,
                        '`%s` modifies the workspace bookkeeping outside the allocator routines' % pretty(stores[0]), cfgname=cfgname)
        elif stores:
            chk.ok(cid_prefix + '.a', f.name, sample='%d store(s)' % len(stores))
        if p is None:
            continue
        chk.saw(unit=f.unit, func=f.unit + ':' + f.name)
        n += 1
        pres = {p + w for w in ('user_malloc', 'user_free', 'expand', 'LUWorkInit')}
        # (b)
        if stores or any(callee_name(x) in pres for x in f.body.walk() if x.k == 'Call'):
            check_invariant(chk, cid_prefix + '.b', prog, f, p, cfgname, pres, tail_empty_on_entry=f.name.endswith('LUMemInit'),
                            must_empty_tail=f.name.endswith('LUWorkFree'))
        # (c)
        for x in f.body.walk():
            if x.k == 'Binary' and x.a['op'] in ('<', '<=', '>', '>=', '==', '!='):
                sides = [stack_field(x.c[0]), stack_field(x.c[1])]
                if 'size' in sides:
                    other = strip(x.c[0] if sides[1] == 'size' else x.c[1])
                    op = x.a['op'] if sides[1] == 'size' else {'<': '>', '<=': '>=', '>': '<', '>=': '<='}.get(x.a['op'], x.a['op'])
                    ok = op == '>=' and other.k == 'Binary' and other.a['op'] == '+' and 'used' in (stack_field(other.c[0]), stack_field(other.c[1]))
                    inst = '%s:fullness-test' % f.name
                    if ok:
                        chk.ok(cid_prefix + '.c', inst, sample=pretty(x))
                    else:
                        chk.violate(cid_prefix + '.c', inst + ':' + canon(x, ids=False)[:60], loc(f, x), f.name,
                                    'the workspace is full when request + stack.used >= stack.size (used counts both ends); the code tests `%s`' % pretty(x), cfgname=cfgname)
        # (d) and (e)
        acq = {}     # var id -> (call node, size var id or None)
        for x in f.body.walk():
            tgt = rhs = None
            if x.k == 'Assign' and x.a['op'] == '=':
                tgt, rhs = strip(x.c[0]), strip(x.c[1])
            elif x.k == 'Var' and x.c:
                tgt, rhs = x, strip(x.c[0])
            if rhs is not None and rhs.k == 'Call' and callee_name(rhs) in (p + 'user_malloc', p + 'expand'):
                if tgt.k in ('Ref', 'Var'):
                    vid = tgt.a['id']
                    szv = None
                    if callee_name(rhs) == p + 'expand':
                        a0 = strip(rhs.c[1])
                        if a0.k == 'Unary' and a0.a['op'] == '&' and strip(a0.c[0]).k == 'Ref':
                            szv = strip(a0.c[0]).a['id']
                    acq.setdefault(vid, []).append((rhs, szv))
        if acq:
            tested = set()
            for x in f.body.walk():
                if x.k in ('If', 'While', 'Do'):
                    cond = x.c[0] if x.k != 'Do' else x.c[1]
                    for y in cond.walk():
                        if y.k == 'Ref' and y.a.get('id') in acq:
                            tested.add(y.a['id'])
            untested = sorted(f.locals[v].a['name'] for v in acq if v not in tested and v in f.locals)
            inst = '%s:null-honoured' % f.name
            if untested:
                chk.violate(cid_prefix + '.d', inst + ':{%s}' % ','.join(untested), loc(f, acq[[v for v in acq if v not in tested][0]][0][0]), f.name,
                            'pointer(s) %s come from the workspace allocator, which returns NULL when the workspace is too small, and are stored into Glu / used '
                            'without any NULL test' % untested, cfgname=cfgname)
            else:
                chk.ok(cid_prefix + '.d', inst, sample='%d pointer(s) tested' % len(acq))
        for x in f.body.walk():
            if x.k == 'Call' and callee_name(x) == p + 'user_free':
                # which acquisitions does the released amount cover?
                names = {y.a['id'] for y in x.c[1].walk() if y.k == 'Ref'}
                covered = [v for v, lst in acq.items() if any(sz in names for (_, sz) in lst if sz is not None)]
                # enclosing guards that establish non-NULL
                guards = _guards_of(f.body, x)
                maybe_null = []
                for v in covered:
                    known = False
                    for (cond, pol) in guards:
                        if _implies_nonnull(cond, pol, v):
                            known = True
                    if not known:
                        maybe_null.append(f.locals[v].a['name'] if v in f.locals else '?')
                inst = '%s:release-amount' % f.name
                if maybe_null:
                    chk.violate(cid_prefix + '.e', inst + ':{%s}' % ','.join(sorted(maybe_null)), loc(f, x), f.name,
                                '%suser_free releases the sizes of %s in one amount although, on this path, some of them were not granted (the enclosing test says at '
                                'least one is NULL): used / top1 go below the true occupancy and the next requests are granted memory below work[]'
                                % (p, sorted(maybe_null)), cfgname=cfgname)
                else:
                    chk.ok(cid_prefix + '.e', inst)
    return n


def _guards_of(root, target):
    res = []

    def rec(n, guards):
        if n is target:
            res.extend(guards)
            return True
        if n.k == 'If':
            if rec(n.c[0], guards):
                return True
            if rec(n.c[1], guards + [(n.c[0], True)]):
                return True
            if len(n.c) > 2 and rec(n.c[2], guards + [(n.c[0], False)]):
                return True
            return False
        if n.k == 'While':
            if rec(n.c[1], guards + [(n.c[0], True)]):
                return True
            return rec(n.c[0], guards)
        for c in n.c:
            if rec(c, guards):
                return True
        return False
    rec(root, [])
    return res


def _implies_nonnull(cond, pol, vid):
    c = strip(cond)
    if pol and c.k == 'Ref' and c.a.get('id') == vid:
        return True
    if (not pol) and c.k == 'Unary' and c.a['op'] == '!' and strip(c.c[0]).k == 'Ref' and strip(c.c[0]).a.get('id') == vid:
        return True
    if c.k == 'Binary' and c.a['op'] == '&&' and pol:
        return _implies_nonnull(c.c[0], True, vid) or _implies_nonnull(c.c[1], True, vid)
    if c.k == 'Binary' and c.a['op'] == '||' and not pol:
        return _implies_nonnull(c.c[0], False, vid) or _implies_nonnull(c.c[1], False, vid)
    return False
