"""C09 Calls are reentrant, thread-safe and deterministic  —  rule R1, whole library."""
import os
from .. import front
from ..facts import Program
from ..run import Check, AnalysisBroken, VERIF
from ..rules import r1_state

FLOOR_FUNCS, FLOOR_UNITS, FLOOR_EXT = 500, 235, 28


def run(tier):
    chk = Check('C09', tier, level='proof')
    chk.explanation = (
        'Rule R1 over every translation unit of SRC, CBLAS and FORTRAN/c_fortran_?gssv.c as parsed by clang with the build flags: '
        '(i) census of every object with static storage duration (file scope or static local) - each must be const or never '
        'stored to / incremented / have its address reach a writing parameter; (ii) every callee not defined in the library is '
        'classified reentrant or not from a reviewed table (an unclassified callee aborts the analysis, exit 2); (iii) every '
        'indirect call goes through a parameter or local; (iv) every function names only parameters, locals, such static objects '
        'and stdin/stdout/stderr. With (i)-(iv) a call can neither race with nor be influenced by another call on disjoint '
        'arguments, for every schedule and history. R1.vi: the caller-side state array isave[] of the reverse-communication estimator ?lacon2 is written before it is read on every call history (per-resume-state must-be-written dataflow), so estimates do not depend on stack residue. R10.shared: the factors and permutations handed to the solve-side routines, and the matrix arrays the caller hands to the Fortran bridge, are in no may-write set, so calls that share them read-only cannot race. Decides: absence of library-level shared mutable state. Does NOT decide: '
        'bit-identical floating-point output as such (follows only with platform determinism), uninitialised reads, '
        'thread-safety of libc malloc/stdio and of the vendor BLAS (assumed).')
    chk.assumptions = ['malloc/free/stdio of the C library and the vendor BLAS kernels are thread-safe',
                       'callers pass disjoint objects to concurrent calls', 'no read of uninitialised memory (not decided here)']
    cfgs = ['tested'] if tier == 'quick' else ['tested', 'cblas', 'idx64', 'cblas-idx64', 'assert']
    chk.configs = cfgs
    # positive control: the fixture must be seen as mutable static state
    fx = Program.load(paths=[os.path.join(VERIF, 'fixtures', 'r1_static_state.c')])
    probe = Check('C09', tier)
    cen = r1_state.run(probe, fx, fixture=True)
    names = sorted(o['name'] for o in cen['mutable'])
    if names != ['calls', 'work']:
        raise AnalysisBroken('R1 positive control: expected mutable objects [calls, work] in fixtures/r1_static_state.c, engine saw %s' % names)
    for cfgname in cfgs:
        prog = Program.load(cfg=cfgname)
        cen = r1_state.run(chk, prog, cfgname=cfgname)
        if cen['functions'] < FLOOR_FUNCS or cen['units'] < FLOOR_UNITS or len(cen['externals']) < FLOOR_EXT:
            raise AnalysisBroken('C09: scanned %d functions / %d units / %d external callees; floors %d/%d/%d'
                                 % (cen['functions'], cen['units'], len(cen['externals']), FLOOR_FUNCS, FLOOR_UNITS, FLOOR_EXT))
        chk.notes.append('%s: %d units, %d functions, %d static-storage objects (%d mutable), %d external callees, %d indirect calls'
                         % (cfgname, cen['units'], cen['functions'], cen['objects'], len(cen['mutable']), len(cen['externals']), cen['indirect']))
        if cen['unknown_effects']:
            chk.notes.append('%s: external callees without an effect row (treated as writing every argument): %s' % (cfgname, cen['unknown_effects']))
        if tier == 'thorough':
            # independent of the AST: object-file symbol census
            c5 = chk.clause('R1.nm', 'llvm-nm data/bss census agrees')
            nm = r1_state.nm_census(front.library_units(), cfgname)
            ast_mut = {o['name'] for o in cen['mutable']}
            for p, syms in sorted(nm.items()):
                rel = os.path.relpath(p, front.repo())
                if syms is None:
                    raise AnalysisBroken('clang -c failed on %s [%s]' % (rel, cfgname))
                extra = [s for (cl, s) in syms if cl in 'bBC' or (cl in 'dD')]
                # .data/.bss symbols must all be objects the AST census classified; read-only ones land in .rodata (class r/R)
                unknown = [s for s in extra if s.split('.')[0] not in ast_mut and not _known_readonly(cen, s)]
                if unknown:
                    chk.violate('R1.nm', '%s:%s' % (os.path.basename(rel), unknown[0]), rel, '-',
                                'object file has writable data symbol `%s` that the AST census did not classify' % unknown[0], cfgname=cfgname)
                else:
                    chk.ok('R1.nm', rel + '@' + cfgname, nontrivial=bool(extra))
    init_rule(chk, Program.load(which=('SRC',), cfg='tested'))
    shared_inputs_rule(chk, Program.load(which=('SRC', 'FORTRAN'), cfg='tested'))
    # an estimate that was not requested is output-only garbage: it may not decide anything (R3 oracle group `cond` of the expert driver)
    from . import _drv, _gssvx, _expert
    from ..rules.effects import PathEffects as _PE
    _pg = Program.load(which=('SRC',), cfg='tested')
    _eff = _PE(_pg)
    chk.clause('C09.cond', 'R3 oracle group `cond` of ?gssvx: rcond is not consulted unless it was computed')
    for p in _drv.PRECS:
        f, fl, leaves = _gssvx.leaves_for(_pg, _eff, p, ilu=False, tier='quick', split=('Fact', 'ConditionNumber', 'PivotGrowth', 'info', 'A.Stype', 'Trans'))
        ctx = _expert.Ctx(_pg, f, fl, p, False)
        _expert.run_leaf_groups(chk, 'C09', ctx, leaves, ('cond',), 'tested')
    # a shifted block that is not copied completely leaves whatever the caller's buffer held before in the factors: hidden input
    from ..rules import expand as _expand
    chk.clause('C09.bcopy', 'the in-place shift of the caller workspace copies every byte of the block (no residue of earlier contents)')
    _expand.bcopy_rule(chk, 'C09.bcopy', _pg, 'tested')
    from ..rules import lints as _lints
    _lints.scratch_initialised_rule(chk, 'C09.scratch', _pg, 'tested')
    chk.clause('C09.qsel', 'the scratch array handed to the quick-select of the secondary drop rule is filled for exactly the entries that are read')
    _lints.qselect_input_rule(chk, 'C09.qsel', _pg, 'tested')
    from ..rules import misc as _misc
    chk.clause('C09.slot', 'a slot reserved for the fill position of an empty ILU column is written before the pivot search reads it')
    for _p in 'sdcz':
        _misc.reserved_slot_rule(chk, 'C09.slot', _pg, _p, 'tested')
    chk.clause('R1.vii', 'output-only arguments do not steer the computation (usepr only for SamePattern_SameRowPerm)')
    _ps = Program.load(which=('SRC',), cfg='tested')
    for p in 'sdcz':
        _misc.option_choice_rules(chk, 'R1.vii', _ps, p, 'tested')
    from ..rules import reentry
    chk.clause('R1.vi', 'reverse-communication state of ?lacon2 written before read on every call history')
    prog_s = Program.load(which=('SRC',), cfg='tested')
    for p in 'sdcz':
        reentry.run(chk, 'R1.vi', prog_s, p, 'tested')
    chk.samples.append('positive control fixtures/r1_static_state.c -> reported mutable: calls, work (expected)')
    return chk.finish()


def _known_readonly(cen, sym):
    return False


# Work arrays that the factorization reads before it writes them.  They are carved from a caller workspace (arbitrary previous
# contents) or from malloc, so the routine that hands them out must initialise them, otherwise a call depends on what the memory
# was used for before (history dependence).  Instances confirmed by reading; one line of reason each.
INIT_TABLE = [
    # (function pattern with ? = precision, array expression (canonical, no ids), reason)
    ('?SetRWork', '(*dense)', 'SPA of the panel: the numeric kernels assume zeros outside the current pattern'),
    ('?SetRWork', '(*tempv)', 'temporary vectors of the BLAS-2/3 updates are accumulated into'),
    ('SetIWork', '(*repfnz)', 'first-nonzero markers are tested against SLU_EMPTY before being set'),
    ('SetIWork', '(*panel_lsub)', 'panel row lists are tested against SLU_EMPTY'),
    ('?gstrf', 'marker', 'marker arrays are compared with the current column before being set'),
    ('?gstrf', 'perm_r', 'rows without a pivot are recognised by SLU_EMPTY after the loop'),
    ('?gsitrf', 'marker', 'as ?gstrf'),
    ('?gsitrf', 'perm_r', 'as ?gstrf'),
]


def shared_inputs_rule(chk, prog):
    """objects that concurrent calls may legitimately share - the factors L, U and the permutations during solves, the caller's matrix arrays during
    a bridge call - are in nobody's may-write set (R10, sound under the no-alias contract): a routine that writes a shared input, even if it
    restores it before returning, races with the other thread"""
    from ..rules import r10
    from ..rules.effects import PathEffects
    cid = 'R10.shared'
    chk.clause(cid, 'inputs that concurrent calls may share are never written')
    eff = PathEffects(prog)
    ro = {'stat': ['->'], 'info': ['[]']}
    for p in 'sdcz':
        r10.maywrite(chk, cid, prog, eff, 'c_fortran_%sgssv_' % p, {'b': ['[]'], 'f_factors': [''], 'info': ['[]']})
        r10.maywrite(chk, cid, prog, eff, p + 'gstrs', dict(ro, B=['->Store->nzval']))
        r10.maywrite(chk, cid, prog, eff, 'sp_' + p + 'trsv', dict(ro, x=['[]']))
        r10.maywrite(chk, cid, prog, eff, p + 'gscon', dict(ro, rcond=['[]']))
        r10.maywrite(chk, cid, prog, eff, p + 'gsrfs', dict(ro, X=['->Store->nzval'], ferr=['[]'], berr=['[]']))
        r10.maywrite(chk, cid, prog, eff, 'sp_' + p + 'gemv', {'y': ['[]']})


def init_rule(chk, prog, cid='R1.v'):
    from ..facts import strip, callee_name, canon, loc
    chk.clause(cid, 'work arrays initialised by the routine that hands them out')
    for (pat, arr, why) in INIT_TABLE:
        names = [pat.replace('?', p) for p in 'sdcz'] if '?' in pat else [pat]
        for nm in names:
            f = prog.func(nm)
            if f is None:
                raise AnalysisBroken('C09 init rule: %s not found' % nm)
            ok = False
            for x in f.body.walk():
                if x.k == 'Call' and callee_name(x) in ('ifill', 'sfill', 'dfill', 'cfill', 'zfill', 'memset') and len(x.c) > 1:
                    if canon(x.c[1], ids=False) == arr:
                        ok = True
                if x.k == 'For':
                    for y in x.c[3].walk():
                        if y.k == 'Assign' and strip(y.c[0]).k == 'Index' and canon(strip(y.c[0]).c[0], ids=False) == arr and strip(y.c[1]).k in ('Int', 'Float', 'Ref'):
                            ok = True
            inst = '%s:%s' % (nm, arr)
            # the filled extent must be the whole region that was carved out for the array:  *next = *arr + len;  fill(*arr, count, v)  ->  count == len
            if ok:
                def factors(e):
                    e = strip(e)
                    if e.k == 'Binary' and e.a['op'] == '*':
                        return factors(e.c[0]) + factors(e.c[1])
                    return [canon(e, ids=False)]
                ln = cnt = None
                for x in f.body.walk():
                    if x.k == 'Assign' and x.a['op'] == '=':
                        r = strip(x.c[1])
                        if r.k == 'Binary' and r.a['op'] == '+' and canon(r.c[0], ids=False) == arr:
                            ln = r.c[1]
                    if x.k == 'Call' and callee_name(x) in ('ifill', 'sfill', 'dfill', 'cfill', 'zfill') and len(x.c) > 2 and canon(x.c[1], ids=False) == arr:
                        cnt = x.c[2]
                if ln is not None and cnt is not None and sorted(factors(ln)) != sorted(factors(cnt)):
                    chk.violate(cid, inst + ':extent', loc(f, cnt), nm,
                                '%s carves %s element(s) out of the work area for %s but initialises %s of them: the rest keeps whatever the memory held before '
                                '(or the fill runs into the next array)' % (nm, canon(ln, ids=False), arr, canon(cnt, ids=False)))
                    continue
            if ok:
                chk.ok(cid, inst, sample=why)
            else:
                chk.violate(cid, inst, loc(f, f.body), nm,
                            '%s hands out / uses the work array %s without initialising it (%s): with a caller workspace or recycled heap memory the result then depends on '
                            'what the memory held before' % (nm, arr, why))
