"""Whole-program facts: function table, call graph, expression helpers."""
import os
from . import front, cfg as cfgmod
from .ir import N, pretty


class Program(object):
    def __init__(self, units):
        self.units = units
        self.by_rel = {u.rel: u for u in units}
        self.funcs = {}        # (unit rel, name) -> Func
        self.globalf = {}      # name -> Func  (external linkage)
        for u in units:
            for f in u.funcs:
                self.funcs[(u.rel, f.name)] = f
                if not f.static:
                    # first definition wins; duplicates recorded
                    self.globalf.setdefault(f.name, f)
        self._cfg = {}
        self.enums = {}
        for u in units:
            self.enums.update(u.enums)

    @classmethod
    def load(cls, which=('SRC', 'CBLAS', 'FORTRAN'), cfg='tested', paths=None):
        paths = paths if paths is not None else front.library_units(which)
        return cls(front.load_units(paths, cfg))

    def resolve(self, name, from_unit=None):
        if from_unit is not None and (from_unit, name) in self.funcs:
            return self.funcs[(from_unit, name)]
        return self.globalf.get(name)

    def func(self, name, unit=None):
        f = self.resolve(name, unit)
        return f

    def cfg(self, f):
        key = (f.unit, f.name)
        if key not in self._cfg:
            self._cfg[key] = cfgmod.build(f)
        return self._cfg[key]

    def all_funcs(self):
        for u in self.units:
            for f in u.funcs:
                yield f

    def callees(self, f):
        """list of (callee name, call node, resolved Func or None, is_direct)"""
        out = []
        for n in f.body.walk():
            if n.k == 'Call':
                c = n.c[0]
                if c.k == 'Ref' and c.a.get('dk') == 'FunctionDecl':
                    out.append((c.a['name'], n, self.resolve(c.a['name'], f.unit), True))
                else:
                    out.append((None, n, None, False))
        return out

    def callgraph(self):
        g = {}
        for f in self.all_funcs():
            g[(f.unit, f.name)] = set()
            for (name, n, tgt, direct) in self.callees(f):
                if tgt is not None:
                    g[(f.unit, f.name)].add((tgt.unit, tgt.name))
        return g

    def reachable_from(self, roots):
        g = self.callgraph()
        seen = set()
        st = [(f.unit, f.name) for f in roots]
        while st:
            k = st.pop()
            if k in seen:
                continue
            seen.add(k)
            st.extend(g.get(k, ()))
        return [self.funcs[k] for k in seen]

    def topo_bottom_up(self):
        """functions ordered callees-first (call graph is acyclic; cycles are broken arbitrarily)"""
        g = self.callgraph()
        order, state = [], {}
        for root in g:
            if root in state:
                continue
            st = [(root, iter(sorted(g[root])))]
            state[root] = 1
            while st:
                k, it = st[-1]
                adv = False
                for s in it:
                    if s not in state:
                        state[s] = 1
                        st.append((s, iter(sorted(g.get(s, ())))))
                        adv = True
                        break
                if not adv:
                    order.append(k)
                    st.pop()
        return [self.funcs[k] for k in order]


# ---------------------------------------------------------------- expression helpers
def strip(e):
    """drop casts"""
    while e.k == 'Cast' and e.c:
        e = e.c[0]
    return e


def callee_name(call):
    c = call.c[0] if call.c else None
    if c is not None and c.k == 'Ref':
        return c.a['name']
    return None


def canon(e, ids=True):
    """canonical string of an expression; variables by declaration id so that two
    textually different spellings of the same object compare equal and shadowing
    cannot confuse; casts dropped"""
    k = e.k
    if k == 'Ref':
        if e.a.get('dk') in ('FunctionDecl', 'EnumConstantDecl') or not ids:
            return e.a['name']
        return '%s@%s' % (e.a['name'], e.a['id'][-5:])
    if k == 'Int':
        return str(e.a['value'])
    if k == 'Float':
        return repr(e.a['value'])
    if k == 'Char':
        return "c%d" % e.a['value']
    if k == 'Str':
        return e.a['value']
    if k == 'Member':
        return canon(e.c[0], ids) + ('->' if e.a['arrow'] else '.') + e.a['name']
    if k == 'Index':
        return '%s[%s]' % (canon(e.c[0], ids), canon(e.c[1], ids))
    if k == 'Unary':
        return '(%s%s%s)' % ('post' if e.a.get('postfix') else '', e.a['op'], canon(e.c[0], ids))
    if k in ('Binary', 'Assign'):
        return '(%s %s %s)' % (canon(e.c[0], ids), e.a['op'], canon(e.c[1], ids))
    if k == 'Call':
        return '%s(%s)' % (canon(e.c[0], ids), ','.join(canon(x, ids) for x in e.c[1:]))
    if k == 'Cast':
        return canon(e.c[0], ids)
    if k == 'Cond':
        return '(%s?%s:%s)' % tuple(canon(x, ids) for x in e.c)
    if k == 'Sizeof':
        return 'sizeof(%s)' % (e.a.get('argtype') or (canon(e.c[0], ids) if e.c else '?'))
    return '<%s %s>' % (k, ','.join(canon(x, ids) for x in e.c))


def refs(e):
    for n in e.walk():
        if n.k == 'Ref':
            yield n


def root_ref(e):
    """the Ref at the root of an l-value expression (through . -> [] * & casts and pointer arithmetic), or None"""
    while True:
        e = strip(e)
        if e.k == 'Ref':
            return e
        if e.k in ('Member', 'Index'):
            e = e.c[0]
        elif e.k == 'Unary' and e.a['op'] in ('*', '&', '++', '--'):
            e = e.c[0]
        elif e.k == 'Binary' and e.a['op'] in ('+', '-'):
            # pointer arithmetic: the pointer operand
            l = strip(e.c[0])
            if l.t and ('*' in l.t or '[' in l.t):
                e = e.c[0]
            else:
                r = strip(e.c[1])
                if r.t and ('*' in r.t or '[' in r.t):
                    e = e.c[1]
                else:
                    e = e.c[0]
        else:
            return None


def const_value(e, enums=None):
    """fold an integer constant expression; None if not constant"""
    e = strip(e)
    if 'const' in e.a:
        try:
            return int(e.a['const'])
        except (ValueError, TypeError):
            pass
    if e.k == 'Int' or e.k == 'Char':
        return e.a['value']
    if e.k == 'Ref' and e.a.get('dk') == 'EnumConstantDecl':
        if enums is not None and e.a['name'] in enums:
            return enums[e.a['name']]
        return None
    if e.k == 'Unary' and e.a['op'] in ('-', '+', '~', '!'):
        v = const_value(e.c[0], enums)
        if v is None:
            return None
        return {'-': -v, '+': v, '~': ~v, '!': int(not v)}[e.a['op']]
    if e.k == 'Binary':
        a = const_value(e.c[0], enums)
        b = const_value(e.c[1], enums)
        if a is None or b is None:
            return None
        op = e.a['op']
        try:
            if op == '+': return a + b
            if op == '-': return a - b
            if op == '*': return a * b
            if op == '/': return int(a / b) if b else None
            if op == '%': return a % b if b else None
            if op == '<<': return a << b
            if op == '>>': return a >> b
            if op == '&': return a & b
            if op == '|': return a | b
            if op == '^': return a ^ b
            if op == '==': return int(a == b)
            if op == '!=': return int(a != b)
            if op == '<': return int(a < b)
            if op == '>': return int(a > b)
            if op == '<=': return int(a <= b)
            if op == '>=': return int(a >= b)
            if op == '&&': return int(bool(a) and bool(b))
            if op == '||': return int(bool(a) or bool(b))
        except Exception:
            return None
    return None


def loc(f, n):
    return '%s:%d' % (f.unit, n.line if n is not None and n.line else f.line)
