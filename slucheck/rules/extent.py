"""Allocation extent vs initialisation extent: an array that is allocated with N elements and then initialised by a counting loop
must be initialised over exactly N elements (an initialisation loop that stops short leaves the tail at whatever the allocator
returned; one that runs long writes past the block)."""
from ..facts import strip, callee_name, const_value, loc, root_ref, canon
from ..ir import pretty

ELEM_ALLOCS = {'intMalloc', 'int32Malloc', 'intCalloc', 'int32Calloc', 'mxCallocInt', 'floatMalloc', 'doubleMalloc', 'floatCalloc', 'doubleCalloc',
               'singlecomplexMalloc', 'doublecomplexMalloc', 'singlecomplexCalloc', 'doublecomplexCalloc', 'complexMalloc', 'complexCalloc'}


def alloc_count(call):
    name = callee_name(call)
    if name in ELEM_ALLOCS and len(call.c) > 1:
        return strip(call.c[1])
    if name in ('superlu_malloc', 'malloc') and len(call.c) > 1:
        e = strip(call.c[1])
        if e.k == 'Binary' and e.a['op'] == '*':
            a, b = strip(e.c[0]), strip(e.c[1])
            if b.k == 'Sizeof':
                return a
            if a.k == 'Sizeof':
                return b
    return None


def run(chk, cid, prog, units, cfgname):
    chk.clause(cid, 'initialisation loop covers exactly the allocated extent')
    n = 0
    for f in prog.all_funcs():
        if f.unit not in units:
            continue
        chk.saw(unit=f.unit, func=f.unit + ':' + f.name)
        allocs = {}
        for x in f.body.walk():
            tgt = rhs = None
            if x.k == 'Assign' and x.a['op'] == '=' and strip(x.c[0]).k == 'Ref':
                tgt, rhs = strip(x.c[0]).a['id'], strip(x.c[1])
            elif x.k == 'Var' and x.c:
                tgt, rhs = x.a['id'], strip(x.c[0])
            if rhs is not None:
                call = rhs
                if call.k == 'Assign':
                    call = strip(call.c[1])
                if call.k == 'Call':
                    c = alloc_count(call)
                    if c is not None:
                        allocs.setdefault(tgt, []).append(c)
        if not allocs:
            continue
        for lp in f.body.walk():
            if lp.k != 'For':
                continue
            cond = strip(lp.c[1])
            if not (cond.k == 'Binary' and cond.a['op'] in ('<', '<=') and strip(cond.c[0]).k == 'Ref'):
                continue
            iv = strip(cond.c[0]).a['id']
            init = strip(lp.c[0])
            if not (init.k == 'Assign' and strip(init.c[0]).k == 'Ref' and strip(init.c[0]).a['id'] == iv and const_value(init.c[1]) == 0):
                continue
            # the stores of the loop:  arr[iv] = simple   (in the body or folded into the increment:  arr[iv++] = c)
            cands = []
            body_stmts = lp.c[3].c if lp.c[3].k == 'Block' else [lp.c[3]]
            for st in body_stmts + [lp.c[2]]:
                st = strip(st)
                if st.k == 'Assign' and st.a['op'] == '=' and strip(st.c[0]).k == 'Index':
                    cands.append(st)
            simple_body = all(strip(s).k in ('Assign', 'Empty') for s in body_stmts)
            if not simple_body:
                continue
            for st in cands:
                lv = strip(st.c[0])
                base = strip(lv.c[0])
                sub = strip(lv.c[1])
                if sub.k == 'Unary' and sub.a['op'] == '++':
                    sub = strip(sub.c[0])
                if base.k != 'Ref' or base.a['id'] not in allocs or sub.k != 'Ref' or sub.a['id'] != iv:
                    continue
                rhs = strip(st.c[1])
                if any(y.k == 'Index' for y in rhs.walk()):
                    continue     # a copy loop, not an initialisation
                want = {canon(c, ids=False) for c in allocs[base.a['id']]}
                bound = canon(cond.c[1], ids=False)
                got = bound if cond.a['op'] == '<' else '(%s + 1)' % bound
                n += 1
                inst = '%s:init-extent:%s' % (f.name, base.a['name'])
                if got in want:
                    chk.ok(cid, inst, sample='%s elements allocated and initialised' % got)
                else:
                    chk.violate(cid, inst, loc(f, lp), f.name,
                                '`%s` is allocated with %s element(s) but the loop that initialises it runs over %s: the remaining entries keep arbitrary values '
                                '(or the loop writes past the block)' % (base.a['name'], sorted(want), got), cfgname=cfgname)
    return n


# ---------------------------------------------------------------- element size of a raw allocation
RAW_ALLOCS = {'superlu_malloc', 'malloc', 'superlu_python_module_malloc'}


# element sizes in the two supported index widths (32-bit, 64-bit int_t); types not listed have to match by name
SIZES = {'char': (1, 1), 'int': (4, 4), 'unsigned int': (4, 4), 'float': (4, 4), 'double': (8, 8), 'singlecomplex': (8, 8), 'doublecomplex': (16, 16),
         'int_t': (4, 8), 'flops_t': (4, 4), 'long long': (8, 8), 'long long int': (8, 8), 'int64_t': (8, 8), 'size_t': (8, 8)}


def _too_small(u, t):
    """a block of sizeof(u) elements used as elements of type t: too small in some supported configuration (unknown types: must match by name)"""
    if u not in SIZES or t not in SIZES:
        return True
    return any(a < b for a, b in zip(SIZES[u], SIZES[t]))


def _pointee(t):
    t = (t or '').replace('const ', '').replace('volatile ', '').strip()
    if not t.endswith('*'):
        return None
    return t[:-1].strip()


def elem_size_rule(chk, cid, prog, units, cfgname, floor=1):
    """`p = (T *) SUPERLU_MALLOC(count * sizeof(U))`: U must be T (by name - int_t and int are the same size only in the 32-bit-index build) and the
    pointer that receives the block must point to T as well.  A block sized for a narrower element than the one it is indexed as is overrun."""
    chk.clause(cid, 'raw allocations are sized with the element type of the pointer that receives them')
    n = 0
    for f in prog.all_funcs():
        if units is not None and f.unit not in units:
            continue
        for x in f.body.walk():
            tgt_t = rhs = None
            if x.k == 'Assign' and x.a['op'] == '=':
                tgt_t, rhs = x.c[0].t, x.c[1]
            elif x.k == 'Var' and x.c:
                tgt_t, rhs = x.t, x.c[0]
            if rhs is None:
                continue
            casts = []
            e = rhs
            while e.k in ('Cast', 'Paren') and e.c:
                if e.k == 'Cast' and e.a.get('cast') in ('BitCast', 'NoOp', None) and e.t:
                    casts.append(e.t)
                e = e.c[-1]
            if e.k != 'Call' or callee_name(e) not in RAW_ALLOCS or len(e.c) < 2:
                continue
            sz = [y for y in e.c[1].walk() if y.k == 'Sizeof' and y.a.get('argtype')]
            if len(sz) != 1:
                continue
            u = sz[0].a['argtype'].replace('struct ', '').strip()
            if strip(e.c[1]) is sz[0]:
                pass     # a single object
            want = [t for t in (_pointee(c) for c in casts + [tgt_t]) if t not in (None, 'void', 'char', 'unsigned char')]
            if not want:
                continue
            n += 1
            chk.saw(unit=f.unit, func=f.unit + ':' + f.name)
            inst = '%s:alloc-elem-size@%s' % (f.name, pretty(x.c[0] if x.k == 'Assign' else x)[:30] if x.k == 'Assign' else x.a.get('name'))
            bad = [t for t in want if t.replace('struct ', '') != u and _too_small(u, t.replace('struct ', ''))]
            if not bad:
                chk.ok(cid, inst, sample='sizeof(%s) for %s' % (u, want[0]))
            else:
                chk.violate(cid, inst, loc(f, x), f.name,
                            'block sized with sizeof(%s) is used through a pointer to %s, which is larger (in the 64-bit-index build at least): the block is '
                            'too small for the accesses made through it' % (u, bad[0]), cfgname=cfgname)
    if n < floor:
        from ..run import AnalysisBroken
        raise AnalysisBroken('elem_size_rule: %d allocation sites, floor %d' % (n, floor))
    return n
