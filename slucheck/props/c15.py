"""C15 Incomplete LU never breaks down and is exact when dropping is off  —  R3 on ?gsisx (MC64 / equilibration / scaling / row-index restore), R5, R4, R9 + twins."""
from ..facts import Program
from ..run import Check, AnalysisBroken
from ..rules import r5_grow, r9_sibling, factor_tail, pivot, misc, r11_kinds
from ..rules import r3_dispatch as r3
from ..rules.effects import PathEffects
from . import _drv, _gssvx, _expert, c19
from ._drv import Expect

R9_UNITS = ['gsisx.c', 'gsitrf.c', 'ldperm.c']
R9_ILU = ['ilu_%sdrop_row.c', 'ilu_%scopy_to_ucol.c', 'ilu_%spivotL.c', 'ilu_%spanel_dfs.c', 'ilu_%scolumn_dfs.c', 'ilu_%ssnode_dfs.c']
TWINS = [('SRC/relax_snode.c', 'relax_snode', 'SRC/ilu_relax_snode.c', 'ilu_relax_snode', 'ext'),
         ('SRC/heap_relax_snode.c', 'heap_relax_snode', 'SRC/ilu_heap_relax_snode.c', 'ilu_heap_relax_snode', 'ext'),
         ('SRC/util.c', 'countnz', 'SRC/util.c', 'ilu_countnz', 'ext')]


def mc64_group(chk, cid, ctx, leaves, cfgname):
    """MC64 dispatch, scaling by exp of both duals, row relabel undone on every exit, fold of perm into perm_r"""
    f, fl, p, E = ctx.f, ctx.fl, ctx.p, ctx.E
    ex = Expect(chk, cid, f, fl, cfgname)
    Arow = '$%d->Store->rowind' % ctx.k_A
    Anz = '$%d->Store->nzval' % ctx.k_A
    for lf in leaves:
        v = lf.val
        if not ctx.nofact(lf) or 'RowPerm' not in v or ctx.nr(lf):
            continue
        sel = ['RowPerm', 'info_ldperm', 'Equil']
        ld = lf.calls(p + 'ldperm')
        want = v['RowPerm'] == E['LargeDiag_MC64']
        ok = (len(ld) == 1) == want and (not ld or (ld[0]['args'][0] == 5 and ld[0]['args'][3:5] == [('path', '$%d->Store->colptr' % ctx.k_A), ('path', Arow)]
                                               and ld[0]['args'][7:9] == [('p', ctx.k_R), ('p', ctx.k_C)]))
        ex.check(lf, ok, 'mc64-dispatch', ['RowPerm'], '%sldperm(5, n, nnz, colptr, rowind, nzval, perm, R, C) must run iff RowPerm = LargeDiag_MC64 and a factorization is requested' % p,
                 ld[0]['line'] if ld else None)
        if not want or not ld:
            continue
        relabel = [e for e in lf.stores() if e['base'] == Arow]
        if v.get('info_ldperm') != 0:
            ex.check(lf, not relabel, 'no-relabel-after-failed-mc64', sel, 'MC64 reported structural singularity: A\'s row indices must not be permuted', relabel[0]['line'] if relabel else None)
            continue
        permdesc = r3.ptr_desc(ld[0]['args'][6])
        fwd = [e for e in relabel if permdesc in e['rhs_idx_reads'] | e['rhs_reads']]
        back = [e for e in relabel if e not in fwd]
        if not ex.check(lf, len(fwd) == 1, 'rows-relabelled-by-perm', sel, 'A\'s row indices must be relabelled by the MC64 permutation (rowind[i] = perm[rowind[i]])',
                        (relabel or ld)[0]['line']):
            continue
        # every return reachable after the relabel passes through the restore
        rets = [r for r in lf.returns() if lf.can_reach(fwd[0]['node'], r['node'])]
        # a restore loop counts as passed when its head is reached (it may legitimately run zero times)
        heads = [h for b in back for h in (b['loop_heads'][:1] or [b['node']])]
        leaks = [r for r in rets if lf.can_reach(fwd[0]['node'], r['node'], avoiding=heads)] if back else rets
        qonly = all(v.get('lwork') == -1 for _ in [0])
        if v.get('lwork') == -1:
            pass      # the size-query exit is reported once per routine by the C08 query group (known finding F5)
        else:
            ex.check(lf, bool(back) and not leaks, 'row-indices-restored', sel + ['info'],
                     'the caller\'s matrix must be returned with its original row indices: every return after the MC64 relabel must pass through the inverse relabel',
                     (leaks or rets or fwd)[0]['line'])
        if v.get('Equil') == E['YES']:
            rs = [e for e in lf.stores() if e['base'] == '$%d' % ctx.k_R and e['rhs'] is not None and any(y.k == 'Call' and y.c and y.c[0].a.get('name') == 'exp' for y in e['rhs'].walk())]
            cs = [e for e in lf.stores() if e['base'] == '$%d' % ctx.k_C and e['rhs'] is not None and any(y.k == 'Call' and y.c and y.c[0].a.get('name') == 'exp' for y in e['rhs'].walk())]
            ex.check(lf, len(rs) == 1 and len(cs) == 1, 'duals-exponentiated', sel, 'MC64 returns logarithms: both R and C must be replaced by exp(.) before they are used as scale factors',
                     (rs + cs + ld)[0]['line'])
            sc = [e for e in lf.stores() if e['base'] == Anz and lf.can_reach(ld[0]['node'], e['node'])]
            used = set()
            for e in sc:
                used |= e['rhs_reads'] & {ctx.Rp, ctx.Cp}
            ex.check(lf, used == {ctx.Rp, ctx.Cp}, 'scaled-by-both-duals', sel, 'after MC64 each entry is scaled by R[row]*C[col]; the code uses %s' % sorted(used), (sc or ld)[0]['line'])
            eq = [e for e in lf.stores() if e['target'] == '*$%d' % ctx.k_equed and lf.can_reach(ld[0]['node'], e['node'])]
            ex.check(lf, bool(eq) and {e['value'] for e in eq} == {ord('B')}, 'equed-B-after-mc64', sel, 'MC64 scaling sets equed = B', (eq or ld)[0]['line'])
        # fold: perm_r := perm_r o perm
        if v.get('lwork') != -1 and 'info' in v:
            comp = [e for e in lf.stores() if '$%d' % ctx.k_perm_r in e['rhs_reads'] and permdesc in e['rhs_idx_reads']]
            wpr = [e for e in lf.stores() if e['base'] == '$%d' % ctx.k_perm_r]
            ex.check(lf, len(comp) == 1 and bool(wpr), 'perm_r-folded-with-mc64', sel, 'perm_r must become perm_r o perm (t[i] = perm_r[perm[i]], copied back)', (comp or ld)[0]['line'])


def run(tier):
    chk = Check('C15', tier, level='other')
    chk.explanation = (
        'R3 on ?gsisx (4 types): equilibration / scaling / solve-transpose groups as for the expert driver, plus the MC64 path: ?ldperm(5, '
        '...) iff RowPerm = LargeDiag_MC64; fall back to ?gsequ / ?laqgs when it fails; R and C exponentiated, A scaled by both, equed = B; '
        'A\'s row indices relabelled by perm and restored by the inverse on every return that follows; perm_r folded with perm. R5 on the ILU '
        'producers (capacity tests incl. the zero-column fill, aliases re-read); tail rules of ?gsitrf (count / fix-up before wrap, reuse branch refresh); R4 ownership on the ILU routines; loops up to relax_end[] are inclusive; R9 siblings and relaxed-supernode / countnz '
        'twins. Not decided: breakdown-freedom, exactness with dropping off (values).')
    cfgs = ['tested'] if tier == 'quick' else ['tested', 'idx64']
    chk.configs = cfgs
    for cfgname in cfgs:
        prog = Program.load(which=('SRC',), cfg=cfgname)
        eff = PathEffects(prog)
        from ..rules import symbolic as _sym
        _sym.dfs_twin_rule(chk, 'C15.dfs', prog, ['ilu_%scolumn_dfs' % q for q in 'sdcz'], cfgname)
        for g in ('equil', 'scale'):
            chk.clause('C15.' + g, 'R3 oracle group `%s` of ?gsisx' % g)
        chk.clause('C15.iluguard', 'R3 oracle group: what runs after ?gsitrf for each outcome')
        chk.clause('C15.mc64', 'R3 MC64 path of ?gsisx (D1, D2)')
        chk.clause('C15.tail', 'loop and tail rules of ?gsitrf')
        r11_kinds.run(chk, 'C15.kinds', prog, cfgname, floor=1900)
        nl = 0
        for p in _drv.PRECS:
            f, fl, leaves = _gssvx.leaves_for(prog, eff, p, ilu=True, tier=tier, split=('Fact', 'Trans', 'Equil', 'A.Stype', 'equed', 'info', 'RowPerm', 'PivotGrowth'),
                                              lwork_values=(0,), fact_values=None if tier == 'thorough' else ('DOFACT', 'SamePattern_SameRowPerm', 'FACTORED'))
            if f is None:
                raise AnalysisBroken('C15: %sgsisx not found' % p)
            ctx = _expert.Ctx(prog, f, fl, p, True)
            _expert.run_leaf_groups(chk, 'C15', ctx, leaves, ('equil', 'scale', 'iluguard'), cfgname)
            mc64_group(chk, 'C15.mc64', ctx, leaves, cfgname)
            nl += len(leaves)
            factor_tail.run(chk, 'C15.tail', prog, p, cfgname, ilu=True)
        if nl < 4 * 150:
            raise AnalysisBroken('C15: %d driver leaves, floor 600' % nl)
        ns, nc = r5_grow.run(chk, 'C15.D3', prog, cfgname)
        # ?gsitrf itself is analysed (and its out-of-space exits recorded) under C19
        fnames = {f.name for f in prog.all_funcs() if 'ilu_' in f.unit or f.unit.endswith(('gsisx.c', 'ldperm.c', 'mark_relax.c', 'qselect.c'))}
        c19.run_r4(chk, prog, cfgname, funcs=fnames, cid='C15.D4')
        k = misc.relax_end_inclusive(chk, 'C15.relax', prog, cfgname)
        chk.clause('C15.filltol', 'the value that replaces a zero pivot is nonzero')
        for p in _drv.PRECS:
            misc.ilu_fill_tolerance_rule(chk, 'C15.filltol', prog, p, cfgname)
        chk.clause('C15.droprow', 'ilu_?drop_row moves values and subscripts of a row together')
        for p in _drv.PRECS:
            misc.drop_row_alignment(chk, 'C15.droprow', prog, p, cfgname)
            misc.hole_fill_rule(chk, 'C15.droprow', prog, p, cfgname)
        chk.clause('C15.emptycol', 'an empty L column never joins the previous supernode (supernodes keep at least as many rows as columns)')
        for p in _drv.PRECS:
            misc.ilu_empty_column_rule(chk, 'C15.emptycol', prog, p, cfgname)
        from ..rules import pivot as _pivot
        chk.clause('C15.pivguard', 'ilu_?pivotL accepts the remembered pivot / the diagonal only if its magnitude is non-zero and passes the threshold')
        for p in _drv.PRECS:
            _pivot.ilu_threshold_guard_rule(chk, 'C15.pivguard', prog, p, cfgname)
            _pivot.ilu_magnitude_twin_rule(chk, 'C15.pivguard', prog, p, cfgname)
        chk.clause('C15.slot', 'a slot reserved for the fill position of an empty ILU column is written before the pivot search reads it')
        for p in _drv.PRECS:
            misc.reserved_slot_rule(chk, 'C15.slot', prog, p, cfgname)
        chk.clause('C15.qselect', 'quick-select partition: each scan and the move after it are complements (progress on ties)')
        misc.partition_complement_rule(chk, 'C15.qselect', prog, cfgname)
        from ..rules import lints as _lints2
        _lints2.qselect_input_rule(chk, 'C15.qselect', prog, cfgname)
        chk.clause('C15.cabs', 'the magnitude used by the complex drop rules and pivot search takes the real and the imaginary part')
        misc.complex_magnitude_rule(chk, 'C15.cabs', prog, cfgname)
        if k < 9:
            raise AnalysisBroken('C15: %d loops up to relax_end[] found, floor 9' % k)
        if cfgname == 'tested':
            units = {p + u for p in 'dz' for u in R9_UNITS} | {u % p for p in 'dz' for u in R9_ILU}
            r9_sibling.run(chk, prog, 'C15.D5', units, cfgname)
        r9_sibling.run_twins(chk, prog, 'C15.twins', TWINS, cfgname)
    return chk.finish()
