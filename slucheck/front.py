"""Front end: clang -fsyntax-only -Xclang -ast-dump=json  ->  compact IR (ir.py).

Nothing in /repo is executed.  The dump of one unit is read from a pipe,
reduced and discarded; reduced units are cached under /verif/.cache keyed by
the content of the unit, of every header it can include and of the flags, so a
changed working tree is always re-parsed.
"""
import os, sys, json, hashlib, pickle, subprocess, re, glob
from concurrent.futures import ProcessPoolExecutor
from .ir import N, Func, Unit

REPO = os.environ.get('SLU_REPO', '/repo')
VERIF = os.path.dirname(os.path.dirname(os.path.abspath(__file__)))
CACHE = os.environ.get('SLU_CACHE', os.path.join(VERIF, '.cache'))
CLANG = 'clang'
FRONT_VERSION = '7'

# ---------------------------------------------------------------- configurations
# name -> extra flags.  'tested' is the configuration of the repository's build
# (see _build/build.ninja: -DUSE_VENDOR_BLAS -DNDEBUG -std=c99, 32-bit int_t).
CONFIGS = {
    'tested':        ['-DUSE_VENDOR_BLAS', '-DNDEBUG'],
    'cblas':         ['-DNDEBUG'],
    'idx64':         ['-DUSE_VENDOR_BLAS', '-DNDEBUG', '-DXSDK_INDEX_SIZE=64'],
    'cblas-idx64':   ['-DNDEBUG', '-DXSDK_INDEX_SIZE=64'],
    'assert':        ['-DUSE_VENDOR_BLAS', '-UNDEBUG'],
}


def repo():
    return os.environ.get('SLU_REPO', REPO)


def flags_for(cfg):
    r = repo()
    return ['-std=c99', '-I%s/SRC' % r, '-I%s/CBLAS' % r, '-Wno-everything'] + CONFIGS[cfg]


def library_units(which=('SRC', 'CBLAS', 'FORTRAN')):
    r = repo()
    out = []
    if 'SRC' in which:
        out += sorted(glob.glob(r + '/SRC/*.c'))
    if 'CBLAS' in which:
        out += sorted(glob.glob(r + '/CBLAS/*.c'))
    if 'FORTRAN' in which:
        out += sorted(glob.glob(r + '/FORTRAN/c_fortran_?gssv.c'))
    if 'EXAMPLE' in which:
        out += sorted(glob.glob(r + '/EXAMPLE/dreadtriple_noheader.c'))
    return out


_hdr_hash = {}


def headers_hash():
    r = repo()
    if r not in _hdr_hash:
        h = hashlib.sha256()
        for p in sorted(glob.glob(r + '/SRC/*.h') + glob.glob(r + '/CBLAS/*.h')):
            h.update(p.encode())
            with open(p, 'rb') as f:
                h.update(f.read())
        _hdr_hash[r] = h.hexdigest()
    return _hdr_hash[r]


# ---------------------------------------------------------------- macro table
_define_re = re.compile(r'^\s*#\s*define\s+([A-Za-z_][A-Za-z0-9_]*)')


def macro_lines(path, _memo={}):
    """(line -> macro name) for every line of every #define in `path`."""
    try:
        key = (path, os.path.getmtime(path), os.path.getsize(path))
    except OSError:
        return {}
    if key in _memo:
        return _memo[key]
    out = {}
    try:
        with open(path, errors='replace') as f:
            lines = f.read().split('\n')
    except OSError:
        lines = []
    i = 0
    while i < len(lines):
        m = _define_re.match(lines[i])
        if m:
            name = m.group(1)
            out[i + 1] = name
            while lines[i].rstrip().endswith('\\') and i + 1 < len(lines):
                i += 1
                out[i + 1] = name
        i += 1
    _memo[key] = out
    return out


# ---------------------------------------------------------------- conversion
class _Conv(object):
    def __init__(self, unit_path):
        self.unit_path = os.path.realpath(unit_path)
        self.cur_file = None
        self.cur_line = 0

    # --- location bookkeeping: clang elides file/line equal to the last printed
    def bare(self, l):
        if 'file' in l:
            self.cur_file = l['file']
        if 'line' in l:
            self.cur_line = l['line']
        return (self.cur_file, self.cur_line)

    def loc(self, l):
        """returns (file, line, macro-name-or-None) of a loc object, use-site based"""
        if not l:
            return (self.cur_file, self.cur_line, None)
        if 'spellingLoc' in l:
            sf, sl = self.bare(l['spellingLoc'])
            ef, el = self.bare(l['expansionLoc'])
            mac = None
            if sf:
                mac = macro_lines(sf).get(sl)
            return (ef, el, mac)
        f, ln = self.bare(l)
        return (f, ln, None)

    def node_loc(self, j):
        """process 'loc' and 'range' of node j in dump order; return begin loc"""
        res = None
        if 'loc' in j:
            res = self.loc(j['loc'])
        if 'range' in j:
            b = self.loc(j['range'].get('begin'))
            self.loc(j['range'].get('end'))
            if res is None or res[0] is None:
                res = b
            elif b[2] and not res[2]:
                res = (res[0], res[1], b[2])
        if res is None:
            res = (self.cur_file, self.cur_line, None)
        return res

    def skip(self, j):
        """walk a subtree only to keep the location state right"""
        st = [j]
        # must be in document order: explicit recursion with a stack of iterators
        def rec(x):
            if not isinstance(x, dict):
                return
            self.node_loc(x)
            for c in x.get('inner', ()):  # noqa
                rec(c)
        rec(j)

    @staticmethod
    def ty(j):
        t = j.get('type')
        if not t:
            return None
        return t.get('qualType')

    @staticmethod
    def dty(j):
        t = j.get('type')
        if not t:
            return None
        return t.get('desugaredQualType') or t.get('qualType')

    def conv(self, j):
        if not j or 'kind' not in j:
            return N('Empty')
        k = j['kind']
        f, line, mac = self.node_loc(j)
        inner = j.get('inner', [])
        if k in ('ImplicitCastExpr', 'ParenExpr', 'ConstantExpr'):
            if k == 'ConstantExpr' and 'value' in j and inner:
                ch = self.conv(inner[0])
                ch.a.setdefault('const', j['value'])
                return ch
            if k == 'ImplicitCastExpr' and j.get('castKind') in ('IntegralToFloating', 'FloatingCast', 'IntegralCast', 'FloatingToIntegral'):
                ch = self.conv(inner[0])
                return ch
            return self.conv(inner[0])
        t = self.ty(j)
        a = {}
        dt = self.dty(j)
        if dt and dt != t:
            a['dt'] = dt
        n = N(k, t, None, a, line, mac)
        cv = self.conv
        if k == 'CompoundStmt':
            n.k = 'Block'
            n.c = [cv(x) for x in inner]
        elif k == 'DeclStmt':
            n.k = 'Decl'
            n.c = [cv(x) for x in inner]
        elif k == 'VarDecl':
            n.k = 'Var'
            a['name'] = j.get('name')
            a['id'] = j['id']
            if j.get('storageClass'):
                a['storage'] = j['storageClass']
            n.c = []
            for x in inner:
                if 'init' in j and 'kind' in x and not x['kind'].endswith('Attr'):
                    n.c.append(cv(x))
                else:
                    self.skip(x)
        elif k == 'IfStmt':
            n.k = 'If'
            n.c = [cv(x) for x in inner]
        elif k == 'ForStmt':
            n.k = 'For'
            # init, condvar, cond, inc, body
            n.c = [cv(inner[0]), cv(inner[2]), cv(inner[3]), cv(inner[4])]
        elif k == 'WhileStmt':
            n.k = 'While'
            n.c = [cv(x) for x in inner]
        elif k == 'DoStmt':
            n.k = 'Do'
            n.c = [cv(x) for x in inner]
        elif k == 'SwitchStmt':
            n.k = 'Switch'
            n.c = [cv(x) for x in inner]
        elif k == 'CaseStmt':
            n.k = 'Case'
            n.c = [cv(x) for x in inner]
        elif k == 'DefaultStmt':
            n.k = 'Default'
            n.c = [cv(x) for x in inner]
        elif k == 'BreakStmt':
            n.k = 'Break'
        elif k == 'ContinueStmt':
            n.k = 'Continue'
        elif k == 'ReturnStmt':
            n.k = 'Return'
            n.c = [cv(x) for x in inner]
        elif k == 'GotoStmt':
            n.k = 'Goto'
            a['target'] = j.get('targetLabelDeclId')
        elif k == 'LabelStmt':
            n.k = 'Label'
            a['id'] = j.get('declId')
            a['name'] = j.get('name')
            n.c = [cv(x) for x in inner]
        elif k == 'NullStmt':
            n.k = 'Empty'
        elif k == 'BinaryOperator':
            op = j['opcode']
            n.k = 'Assign' if op == '=' else 'Binary'
            a['op'] = op
            n.c = [cv(x) for x in inner]
        elif k == 'CompoundAssignOperator':
            n.k = 'Assign'
            a['op'] = j['opcode']
            n.c = [cv(x) for x in inner]
        elif k == 'UnaryOperator':
            n.k = 'Unary'
            a['op'] = j['opcode']
            if j.get('isPostfix'):
                a['postfix'] = True
            n.c = [cv(x) for x in inner]
        elif k == 'CallExpr':
            n.k = 'Call'
            n.c = [cv(x) for x in inner]
        elif k == 'DeclRefExpr':
            n.k = 'Ref'
            rd = j.get('referencedDecl', {})
            a['name'] = rd.get('name')
            a['id'] = rd.get('id')
            a['dk'] = rd.get('kind')
        elif k == 'MemberExpr':
            n.k = 'Member'
            a['name'] = j.get('name')
            a['arrow'] = bool(j.get('isArrow'))
            n.c = [cv(x) for x in inner]
        elif k == 'ArraySubscriptExpr':
            n.k = 'Index'
            n.c = [cv(x) for x in inner]
        elif k == 'CStyleCastExpr':
            n.k = 'Cast'
            a['cast'] = j.get('castKind')
            n.c = [cv(x) for x in inner]
        elif k == 'IntegerLiteral':
            n.k = 'Int'
            a['value'] = int(j['value'])
        elif k == 'FloatingLiteral':
            n.k = 'Float'
            try:
                a['value'] = float(j['value'])
            except ValueError:
                a['value'] = j['value']
        elif k == 'CharacterLiteral':
            n.k = 'Char'
            a['value'] = int(j['value'])
        elif k == 'StringLiteral':
            n.k = 'Str'
            a['value'] = j.get('value')
        elif k == 'ConditionalOperator':
            n.k = 'Cond'
            n.c = [cv(x) for x in inner]
        elif k == 'UnaryExprOrTypeTraitExpr':
            n.k = 'Sizeof'
            a['name'] = j.get('name')
            if 'argType' in j:
                a['argtype'] = j['argType'].get('qualType')
                a['argdt'] = j['argType'].get('desugaredQualType') or j['argType'].get('qualType')
            n.c = [cv(x) for x in inner]
        elif k == 'InitListExpr':
            n.k = 'InitList'
            n.c = [cv(x) for x in inner]
        else:
            n.c = [cv(x) for x in inner if isinstance(x, dict) and 'kind' in x]
        return n

    # ------------------------------------------------------------ top level
    def unit(self, tu, path, cfg):
        u = Unit()
        u.path = path
        u.rel = os.path.relpath(path, repo())
        u.cfg = cfg
        u.funcs = []
        u.globals = []
        u.statics = []
        u.enums = {}
        u.records = {}
        u.typedefs = {}
        u.protos = {}
        main = os.path.realpath(path)
        for j in tu.get('inner', []):
            k = j.get('kind')
            f, line, mac = self.node_loc(j)
            inmain = bool(f) and os.path.realpath(f) == main
            inner = j.get('inner', [])
            if k == 'FunctionDecl':
                body = [x for x in inner if x.get('kind') == 'CompoundStmt']
                params = [x for x in inner if x.get('kind') == 'ParmVarDecl']
                if body and (inmain or not j.get('isImplicit')):
                    fn = Func()
                    fn.name = j['name']
                    fn.file = f
                    fn.line = line
                    fn.unit = u.rel
                    fn.static = j.get('storageClass') == 'static'
                    fn.rtype = (self.ty(j) or '').split('(')[0].strip()
                    fn.params = []
                    for x in inner:
                        if x.get('kind') == 'ParmVarDecl':
                            self.node_loc(x)
                            fn.params.append((x.get('name'), x['id'], self.ty(x)))
                            for y in x.get('inner', ()):  # noqa
                                self.skip(y)
                        elif x.get('kind') == 'CompoundStmt':
                            fn.body = self.conv(x)
                        else:
                            self.skip(x)
                    fn.endline = self.cur_line
                    fn.file = f
                    if inmain:
                        u.funcs.append(fn)
                    else:
                        # function defined in a header (static inline): keep, flagged by file
                        u.funcs.append(fn)
                else:
                    u.protos[j['name']] = (self.ty(j), [self.ty(p) for p in params], [p.get('name') for p in params])
                    for x in inner:
                        self.skip(x)
            elif k == 'VarDecl':
                init = None
                g = {'name': j.get('name'), 'id': j['id'], 'type': self.ty(j), 'dtype': self.dty(j),
                     'storage': j.get('storageClass'), 'file': f, 'line': line, 'inmain': inmain,
                     'hasinit': 'init' in j}
                u.globals.append(g)
                for x in inner:
                    self.skip(x)
            elif k == 'EnumDecl':
                val = -1
                for x in inner:
                    self.node_loc(x)
                    if x.get('kind') == 'EnumConstantDecl':
                        val += 1
                        for y in x.get('inner', ()):  # noqa
                            self.skip(y)
                            if y.get('kind') == 'ConstantExpr' and 'value' in y:
                                val = int(y['value'])
                            elif y.get('kind') == 'ImplicitCastExpr':
                                for z in y.get('inner', ()):  # noqa
                                    if 'value' in z and z.get('kind') in ('ConstantExpr', 'IntegerLiteral'):
                                        val = int(z['value'])
                        u.enums[x['name']] = val
            elif k == 'RecordDecl':
                fields = []
                for x in inner:
                    self.node_loc(x)
                    if x.get('kind') == 'FieldDecl':
                        fields.append((x.get('name'), self.ty(x)))
                    for y in x.get('inner', ()):  # noqa
                        self.skip(y)
                u.records[j['id']] = (j.get('name'), fields)
            elif k == 'TypedefDecl':
                tgt = None

                def find_decl(x):
                    if isinstance(x, dict):
                        if 'decl' in x and isinstance(x['decl'], dict) and x['decl'].get('kind') == 'RecordDecl':
                            return x['decl']['id']
                        for y in x.get('inner', ()):  # noqa
                            r = find_decl(y)
                            if r:
                                return r
                    return None
                for x in inner:
                    self.skip(x)
                rid = find_decl(j)
                u.typedefs[j['name']] = (self.ty(j), rid)
            else:
                for x in inner:
                    self.skip(x)
        # static locals
        for fn in u.funcs:
            for n in fn.body.walk():
                if n.k == 'Var':
                    fn.locals[n.a['id']] = n
                    if n.a.get('storage') == 'static':
                        u.statics.append({'name': n.a['name'], 'func': fn.name, 'type': n.t, 'line': n.line, 'id': n.a['id'],
                                          'file': fn.file})
        return u


def parse_unit(path, cfg='tested'):
    cmd = [CLANG, '-fsyntax-only', '-Xclang', '-ast-dump=json'] + flags_for(cfg) + [path]
    p = subprocess.run(cmd, stdout=subprocess.PIPE, stderr=subprocess.PIPE)
    if p.returncode != 0:
        raise RuntimeError('clang failed on %s [%s]:\n%s' % (path, cfg, p.stderr.decode(errors='replace')[-2000:]))
    tu = json.loads(p.stdout)
    del p
    return _Conv(path).unit(tu, path, cfg)


def _cache_key(path, cfg):
    h = hashlib.sha256()
    h.update(FRONT_VERSION.encode())
    h.update(os.path.relpath(path, repo()).encode())
    with open(path, 'rb') as f:
        h.update(f.read())
    h.update(headers_hash().encode())
    h.update(' '.join(CONFIGS[cfg]).encode())
    h.update(cfg.encode())
    return h.hexdigest()


def load_unit(path, cfg='tested'):
    key = _cache_key(path, cfg)
    cp = os.path.join(CACHE, key[:2], key + '.pkl')
    if os.path.exists(cp):
        try:
            with open(cp, 'rb') as f:
                u = pickle.load(f)
            u.path = path
            return u
        except Exception:
            pass
    u = parse_unit(path, cfg)
    try:
        os.makedirs(os.path.dirname(cp), exist_ok=True)
        tmp = cp + '.%d.tmp' % os.getpid()
        with open(tmp, 'wb') as f:
            pickle.dump(u, f, protocol=pickle.HIGHEST_PROTOCOL)
        os.replace(tmp, cp)
    except OSError:
        pass
    return u


def _load(args):
    sys.setrecursionlimit(20000)
    try:
        return load_unit(*args)
    except Exception as e:  # report, never swallow
        return ('ERR', args[0], str(e))


def load_units(paths, cfg='tested', jobs=None):
    """parse (or fetch from cache) all `paths`; returns list of Unit; raises on any failure"""
    sys.setrecursionlimit(20000)
    jobs = jobs or min(16, os.cpu_count() or 4)
    paths = list(paths)
    if len(paths) <= 2:
        res = [_load((p, cfg)) for p in paths]
    else:
        with ProcessPoolExecutor(max_workers=jobs) as ex:
            res = list(ex.map(_load, [(p, cfg) for p in paths], chunksize=2))
    errs = [r for r in res if isinstance(r, tuple)]
    if errs:
        raise RuntimeError('front end failed on %d unit(s): %s' % (len(errs), '; '.join('%s: %s' % (e[1], e[2][:300]) for e in errs[:3])))
    return res
