"""C14: sp_?trsv dispatch table, sp_?gemv lengths / short-cuts, documented flag spellings (R3)."""
from ..facts import strip, callee_name, loc
from . import r3_dispatch as r3
from ..props._drv import Flags, Expect, ppos

DOC_TRANS = 'NnTtCc'
DOC_UPLO = 'UuLl'
DOC_DIAG = 'UuNn'


def strs(e, k=3, pmap=None):
    """first letters of the leading string arguments; a char* parameter handed through counts with the letter the leaf fixed for it"""
    out = []
    for a in e['args'][:k]:
        if isinstance(a, tuple) and a[0] == 'str':
            out.append(a[1].strip('"')[:1])
        elif isinstance(a, tuple) and a[0] == 'p' and pmap and a[1] in pmap:
            out.append(pmap[a[1]])
    return out


def rejected_spellings(ex, f, leaves, flagnames, what):
    """one finding per flag: the documented letters for which every leaf is rejected by the screening"""
    for fn in flagnames:
        by = {}
        for lf in leaves:
            if fn in lf.val:
                by.setdefault(lf.val[fn], []).append(bool(lf.calls('input_error')))
        bad = sorted(chr(k) for k, v in by.items() if v and all(v))
        good = sorted(chr(k) for k, v in by.items() if v and not all(v))
        inst = '%s:documented-spellings-of-%s' % (f.name, fn)
        if bad:
            ex.chk.violate(ex.cid, inst + ':rejects:' + ''.join(bad), '%s:%d' % (f.unit, f.line), f.name,
                           'the header documents %s = %s; the screening rejects %s with info < 0 (accepts only %s)' % (fn, what[fn], bad, good), cfgname=ex.cfgname)
        else:
            ex.chk.ok(ex.cid, inst, sample='accepts %s' % good)


def trsv_oracle(chk, cid, prog, eff, p, cfgname):
    f = prog.func('sp_' + p + 'trsv')
    if f is None:
        from ..run import AnalysisBroken
        raise AnalysisBroken('sp_%strsv not found' % p)
    chk.saw(unit=f.unit, func=f.unit + ':' + f.name)
    fl = Flags(prog, f, p)
    fl.add('uplo', '*$1', [ord(c) for c in DOC_UPLO], list(DOC_UPLO))
    fl.add('trans', '*$2', [ord(c) for c in DOC_TRANS], list(DOC_TRANS))
    fl.add('diag', '*$3', [ord(c) for c in DOC_DIAG], list(DOC_DIAG))
    fl.matrix('L', ['SLU_SC'], 'SLU_TRLU')
    fl.matrix('U', ['SLU_NC'], 'SLU_TRU')
    trsv, gemv = p + 'trsv_', p + 'gemv_'
    kern = {trsv, gemv, p + 'lsolve', p + 'usolve', p + 'matvec', 'input_error'}
    eng = r3.Engine(prog, f, fl.flags, callees=lambda n: n in kern, eff=eff)
    leaves = eng.run()
    ex = Expect(chk, cid, f, fl, cfgname)
    cplx = p in 'cz'
    for lf in leaves:
        v = lf.val
        sel = [k for k in ('uplo', 'trans', 'diag') if k in v]
        if lf.calls('input_error'):
            continue
        u, t = chr(v['uplo']).upper(), chr(v['trans']).upper()
        pmap = {1: chr(v['uplo']), 2: chr(v['trans']), 3: chr(v['diag'])}
        tv = lf.calls(trsv)
        gv = lf.calls(gemv)
        own = lf.calls(p + ('lsolve' if u == 'L' else 'usolve'))     # bundled kernels (build without USE_VENDOR_BLAS), no-transpose only
        if not tv and own and t == 'N':
            other = lf.calls(p + ('usolve' if u == 'L' else 'lsolve'))
            ex.check(lf, not other, 'bundled-kernel', sel, 'uplo = %s must use %s, not %s' % (u, own[0]['name'], other[0]['name'] if other else ''), own[0]['line'])
            want_dir = 'up' if u == 'L' else 'down'
            dirs = {e['loops'][0][0] if e['loops'] else None for e in own}
            ex.check(lf, dirs == {want_dir}, 'sweep-direction', sel, 'supernodes must be swept %s for uplo=%s, trans=N; the enclosing loop runs %s'
                     % ('first to last' if want_dir == 'up' else 'last to first', u, sorted(map(str, dirs))), own[0]['line'])
            continue
        if not ex.check(lf, bool(tv), 'dense-kernel-reached', sel, 'no dense triangular kernel is reached for an accepted flag combination'):
            continue
        tl = 'N' if t == 'N' else ('C' if (cplx and t == 'C') else 'T')
        want_trsv = [u, tl, 'U' if u == 'L' else 'N']
        got = sorted({tuple(x.upper() for x in strs(e, 3, pmap)) for e in tv})
        ok = got == [tuple(want_trsv)] or ((not cplx) and t == 'C' and got == [(u, 'C', want_trsv[2])])
        ex.check(lf, ok, 'trsv-flags', sel, 'the supernodal diagonal block must be solved with %s("%s","%s","%s"); the code calls %s'
                 % (trsv, want_trsv[0], want_trsv[1], want_trsv[2], got), tv[0]['line'])
        # sweep direction over supernodes: forward for (L,N) and (U,T/C), backward for (U,N) and (L,T/C)
        want_dir = 'up' if (u, t == 'N') in (('L', True), ('U', False)) else 'down'
        dirs = {e['loops'][0][0] if e['loops'] else None for e in tv}
        ex.check(lf, dirs == {want_dir}, 'sweep-direction', sel, 'supernodes must be swept %s for uplo=%s, trans=%s; the enclosing loop runs %s'
                 % ('first to last' if want_dir == 'up' else 'last to first', u, t, sorted(map(str, dirs))), tv[0]['line'])
        if gv:
            gl = sorted({tuple(x.upper() for x in strs(e, 1, pmap)) for e in gv})
            ok = gl == [(tl,)] or ((not cplx) and t == 'C' and gl == [('C',)]) or (t != 'N' and gl == [('T',)] and not cplx)
            ex.check(lf, ok, 'gemv-flag', sel, 'the off-diagonal block update must use %s("%s"); the code uses %s' % (gemv, tl, gl), gv[0]['line'])
    rejected_spellings(ex, f, leaves, ('uplo', 'trans', 'diag'), {'uplo': 'U u L l', 'trans': 'N n T t C c', 'diag': 'U u N n'})
    return len(leaves)


def gemv_oracle(chk, cid, prog, eff, p, cfgname):
    f = prog.func('sp_' + p + 'gemv')
    if f is None:
        from ..run import AnalysisBroken
        raise AnalysisBroken('sp_%sgemv not found' % p)
    chk.saw(unit=f.unit, func=f.unit + ':' + f.name)
    fl = Flags(prog, f, p)
    fl.add('trans', '*$1', [ord(c) for c in DOC_TRANS], list(DOC_TRANS))
    fl.add('A.nrow', '$3->nrow', [7])
    fl.add('A.ncol', '$3->ncol', [11])
    fl.add('incx', '$5', [1])
    fl.add('incy', '$8', [1, -1], ['1', '-1'])
    cplx = p in 'cz'
    if not cplx:
        fl.add('alpha', '$2', [0.0, 2.5], ['0', '2.5'])
        fl.add('beta', '$6', [0.0, 1.0, 3.0], ['0', '1', '3'])
    eng = r3.Engine(prog, f, fl.flags, callees=lambda n: n in ('input_error',), eff=eff)
    leaves = eng.run()
    ex = Expect(chk, cid, f, fl, cfgname)
    Y, X, An = '$%d' % ppos(f, 'y'), '$%d' % ppos(f, 'x'), '$3->Store->nzval'
    names = {v.a['name']: vid for vid, v in f.locals.items()}
    for need in ('lenx', 'leny', 'kx', 'ky'):
        if need not in names:
            from ..run import AnalysisBroken
            raise AnalysisBroken('sp_%sgemv: local `%s` (vector length / start offset) not found; the rule needs to be re-anchored' % (p, need))
    for lf in leaves:
        v = lf.val
        sel = ['trans']
        if lf.calls('input_error'):
            continue
        nt = chr(v['trans']).upper() == 'N'
        rets = lf.returns()
        full = [r for r in rets if 'L:%s' % names['lenx'] in r['env']]
        if not cplx and v.get('alpha') == 0.0 and v.get('beta') == 1.0:
            st = [e for e in lf.stores() if e['base'] == Y]
            ex.check(lf, not st, 'quick-return', ['alpha', 'beta'], 'alpha = 0 and beta = 1 leave y unchanged: no store to y may happen', st[0]['line'] if st else None)
            continue
        if not full:
            continue
        env = full[-1]['env']
        lx, ly = env.get('L:%s' % names['lenx']), env.get('L:%s' % names['leny'])
        want = (11, 7) if nt else (7, 11)
        ex.check(lf, (lx, ly) == want, 'vector-lengths', sel, 'x has %s and y has %s elements for this TRANS (A is 7 x 11 here); the code uses lenx = %s, leny = %s'
                 % (want[0], want[1], lx, ly), full[-1]['line'])
        if v.get('incy') == -1:
            ky = env.get('L:%s' % names['ky'])
            ex.check(lf, ky == want[1] - 1, 'start-of-y-for-negative-stride', ['trans', 'incy'],
                     'with incy = -1 the first element of y is at offset (leny-1) = %d; the code starts at %s' % (want[1] - 1, ky), full[-1]['line'])
        # beta scaling runs over leny elements
        if not cplx and v.get('beta') in (0.0, 3.0):
            sc = [e for e in lf.stores() if e['base'] == Y and An not in e['rhs_reads'] and X not in e['rhs_reads'] and e['loops']]
            bounds = {e['loops'][-1][1] for e in sc}
            ex.check(lf, bool(sc) and bounds == {want[1]}, 'beta-scaling-covers-y', ['trans', 'beta'],
                     'y := beta*y must run over the %d elements of y; loop bound(s) seen: %s' % (want[1], sorted(map(str, bounds))), sc[0]['line'] if sc else full[-1]['line'])
        if not cplx and v.get('alpha') == 0.0:
            up = [e for e in lf.stores() if e['base'] == Y and (An in e['rhs_reads'] or X in e['rhs_reads'])]
            ex.check(lf, not up, 'alpha-zero-skips-product', ['alpha'], 'alpha = 0: A and x must not contribute to y', up[0]['line'] if up else None)
    rejected_spellings(ex, f, leaves, ('trans',), {'trans': 'N n T t C c'})
    return len(leaves)


def conjugate_branch_rule(chk, cid, prog, cfgname):
    """The branch of sp_{c,z}trsv / sp_{c,z}gemv that serves trans = 'C' works with conj(A'): every matrix element it reads in scalar code has
    to be conjugated first (zz_conj / cc_conj into a temporary, or `.i` read through a unary minus), and the dense kernels it calls receive
    the caller's trans flag.  An element of Lval / Uval / Aval handed to a multiply or divide directly makes the branch compute with A' for
    that element - invisible for real data and for real right-hand sides.  The rule inspects the else-branch that follows the test for "T"."""
    from ..facts import strip, callee_name, canon, loc, root_ref
    from ..ir import pretty
    from ..run import AnalysisBroken
    chk.clause(cid, 'the conjugate-transpose branch conjugates every matrix element it uses in scalar arithmetic')
    MATS = {'Lval', 'Uval', 'Aval'}
    CONJ = {'zz_conj', 'cc_conj', 'd_cnjg', 'r_cnjg'}
    n = 0
    for fname in ('sp_ctrsv', 'sp_ztrsv', 'sp_cgemv', 'sp_zgemv'):
        f = prog.func(fname)
        if f is None:
            raise AnalysisBroken('%s not found' % fname)
        chk.saw(unit=f.unit, func=f.unit + ':' + f.name)
        branch = None
        for x in f.body.walk():
            if x.k == 'If' and len(x.c) > 2 and x.c[2] is not None and x.c[2].k != 'If':
                t = canon(x.c[0], ids=False)
                if 'strncmp(trans' in t.replace(' ', '') and '"T"' in t:
                    branch = x.c[2]
        if branch is None:
            raise AnalysisBroken('%s: the branch behind the test for "T" was not found' % fname)
        # macro-expanded conjugations: a Block that reads X.r and -X.i of the same element
        ok_nodes = set()
        for b in branch.walk():
            if b.k == 'Block':
                idx = [y for y in b.walk() if y.k == 'Index' and root_ref(y) is not None and root_ref(y).a.get('name') in MATS]
                neg = [y for y in b.walk() if y.k == 'Unary' and y.a['op'] == '-' and any(z.k == 'Member' and z.a.get('name') == 'i' and any(
                    w.k == 'Index' and root_ref(w) is not None and root_ref(w).a.get('name') in MATS for w in z.walk()) for z in y.walk())]
                stmts_ = [s_ for s_ in b.c]
                if idx and neg and len(stmts_) <= 3 and all(strip(s_).k == 'Assign' for s_ in stmts_):
                    for y in idx:
                        ok_nodes.add(id(y))
        # hand-written conjugation spread over two statements of one block:  t.r = A[i].r;  t.i = -A[i].i;
        for b in branch.walk():
            if b.k != 'Block':
                continue
            negd = set()
            for st_ in b.c:
                for y in st_.walk():
                    if y.k == 'Unary' and y.a['op'] == '-':
                        for z in y.walk():
                            if z.k == 'Member' and z.a.get('name') == 'i' and strip(z.c[0]).k == 'Index':
                                negd.add(canon(strip(z.c[0]), ids=False))
            if not negd:
                continue
            for st_ in b.c:
                if strip(st_).k != 'Assign':
                    continue
                for z in st_.walk():
                    if z.k == 'Member' and z.a.get('name') == 'r' and strip(z.c[0]).k == 'Index' and canon(strip(z.c[0]), ids=False) in negd:
                        ok_nodes.add(id(strip(z.c[0])))
        for x in branch.walk():
            if x.k == 'Call' and callee_name(x) in CONJ:
                for y in x.walk():
                    if y.k == 'Index':
                        ok_nodes.add(id(y))
            if x.k == 'Call' and (callee_name(x) or '').lower().rstrip('_').endswith(('trsv', 'gemv', 'trsm', 'gemm')) and callee_name(x) not in ('sp_ctrsv',):
                for y in x.walk():
                    if y.k == 'Index':
                        ok_nodes.add(id(y))      # dense kernels get the transpose flag
            if x.k == 'Unary' and x.a['op'] == '-':
                for y in x.walk():
                    if y.k == 'Index':
                        ok_nodes.add(id(y))
        for x in branch.walk():
            if x.k == 'Index' and root_ref(x) is not None and root_ref(x).a.get('name') in MATS and strip(x.c[0]).k == 'Ref':
                n += 1
                inst = '%s:conjugated-element@%d' % (fname, n)
                # reads of .r next to a negated .i of the same element text are part of a hand-written conjugation
                if id(x) in ok_nodes:
                    chk.ok(cid, inst, sample=pretty(x)[:30], nontrivial=True)
                else:
                    chk.violate(cid, inst, loc(f, x), fname,
                                '`%s` is used un-conjugated in the trans = C branch of %s: for this element the routine computes with the plain transpose instead of the conjugate transpose, '
                                'which is wrong as soon as the element has an imaginary part' % (pretty(x)[:40], fname), cfgname=cfgname)
    if n < 6:
        raise AnalysisBroken('%s: %d matrix elements found in the conjugate branches, floor 6' % (cid, n))
    return n
