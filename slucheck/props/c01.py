"""C01 Simple driver returns a solution of A*X=B  —  R3 (dispatch of ?gssv, ?gstrs), R7 (permutation roles in ?gstrs), R9."""
from ..facts import Program, loc
from ..run import Check, AnalysisBroken
from ..rules import r3_dispatch as r3, r9_sibling, kernels, expand, preorder
from ..rules.effects import PathEffects as Effects
from ..rules.r3_dispatch import ptr_desc
from . import _drv
from ._drv import Flags, Expect, ppos

R9_UNITS = ['gssv.c', 'gstrf.c', 'gstrs.c', 'panel_bmod.c', 'column_bmod.c', 'snode_bmod.c', 'pivotL.c', 'copy_to_ucol.c', 'myblas2.c',
            'panel_dfs.c', 'column_dfs.c', 'snode_dfs.c', 'pruneL.c', 'sp_blas2.c']


def gssv_oracle(chk, prog, eff, p, cfgname):
    f = prog.func(p + 'gssv')
    if f is None:
        raise AnalysisBroken('C01: %sgssv not found' % p)
    E = prog.enums
    fl = Flags(prog, f, p)
    fl.enum('Fact', '$1->Fact', ['DOFACT'])
    fl.enum('ColPerm', '$1->ColPerm', ['NATURAL', 'MMD_ATA', 'MMD_AT_PLUS_A', 'COLAMD', 'MY_PERMC'])
    fl.matrix('A', ['SLU_NC', 'SLU_NR'], 'SLU_GE')
    fl.dense('B', ncols=(0, 2))
    fl.add('info', None, [0, 3, 15], ['0', 'singular(1..n)', 'memory(>n)'])
    names = {p + 'gstrf', p + 'gstrs', 'get_perm_c', 'sp_preorder', p + 'Create_CompCol_Matrix', 'input_error', 'Destroy_CompCol_Permuted',
             'Destroy_SuperMatrix_Store'}
    eng = r3.Engine(prog, f, fl.flags, havoc=[(lambda n: n == p + 'gstrf', _drv.havoc_last_arg('info'))], callees=lambda n: n in names, eff=eff)
    leaves = eng.run()
    ex = Expect(chk, 'C01.D1', f, fl, cfgname)
    kA, kB = ppos(f, 'A'), ppos(f, 'B')
    kpc, kpr, kL, kU = ppos(f, 'perm_c'), ppos(f, 'perm_r'), ppos(f, 'L'), ppos(f, 'U')
    NR, MYP = E['SLU_NR'], E['MY_PERMC']
    for lf in leaves:
        v = lf.val
        nr = v.get('A.Stype') == NR
        sel = ['A.Stype', 'ColPerm', 'info']
        pre = lf.calls('sp_preorder')
        fac = lf.calls(p + 'gstrf')
        sol = lf.calls(p + 'gstrs')
        gpc = lf.calls('get_perm_c')
        cre = lf.calls(p + 'Create_CompCol_Matrix')
        if lf.calls('input_error'):
            ex.check(lf, False, 'valid-call-rejected', sel, 'a valid call reaches input_error')
            continue
        if not ex.check(lf, len(pre) == 1 and len(fac) == 1, 'preorder-then-factor-once', ['A.Stype'],
                        'expected exactly one sp_preorder and one %sgstrf call, saw %d and %d' % (p, len(pre), len(fac))):
            continue
        pre, fac = pre[0], fac[0]
        # the matrix that is ordered and factored
        AA = pre['args'][1]
        if nr:
            ok = len(cre) == 1 and AA == cre[0]['args'][0] and AA is not None and AA[0] == 'fresh'
            ex.check(lf, ok, 'row-storage-view-created', ['A.Stype'], 'row storage: the matrix handed to sp_preorder must be the column view created from A',
                     pre['line'])
            if len(cre) == 1:
                a = cre[0]['args']
                want = [('path', '$%d->ncol' % kA), ('path', '$%d->nrow' % kA), None, ('path', '$%d->Store->nzval' % kA),
                        ('path', '$%d->Store->colind' % kA), ('path', '$%d->Store->rowptr' % kA), E['SLU_NC']]
                got = [a[1], a[2], None, a[4], a[5], a[6], a[7]]
                # dimensions may have been folded to their representative values
                dims_ok = (a[1] in (want[0], v.get('A.ncol'))) and (a[2] in (want[1], v.get('A.nrow')))
                ex.check(lf, dims_ok and got[3:] == want[3:], 'row-storage-view-is-transpose', ['A.Stype'],
                         'the column view of a row-stored A must be (ncol x nrow, nzval, colind, rowptr, SLU_NC) = A^T; got %s' % (got,), cre[0]['line'])
        else:
            ex.check(lf, AA == ('p', kA) and not cre, 'column-storage-used-directly', ['A.Stype'],
                     'column storage: sp_preorder must receive A itself (got %s)' % (AA,), pre['line'])
        # ordering
        if v.get('ColPerm') == MYP:
            ex.check(lf, not gpc, 'my-permc-respected', ['ColPerm'], 'MY_PERMC: get_perm_c must not be called (the caller supplied perm_c)',
                     gpc[0]['line'] if gpc else None)
        else:
            ok = len(gpc) == 1 and gpc[0]['args'][0] == v.get('ColPerm') and gpc[0]['args'][1] == AA and gpc[0]['args'][2] == ('p', kpc) \
                and lf.must_precede([gpc[0]['node']], pre['node'])
            ex.check(lf, ok, 'ordering-computed', ['ColPerm', 'A.Stype'],
                     'get_perm_c(options->ColPerm, <matrix being factored>, perm_c) must run once, before sp_preorder', gpc[0]['line'] if gpc else pre['line'])
        ok = pre['args'][0] == ('p', 1) and pre['args'][2] == ('p', kpc) and pre['args'][4] is not None and pre['args'][4] == fac['args'][1] \
            and pre['args'][3] is not None and pre['args'][3] == fac['args'][4]
        ex.check(lf, ok, 'preorder-feeds-factor', ['A.Stype'], 'sp_preorder(options, AA, perm_c, etree, &AC) must produce the AC and etree that %sgstrf consumes' % p,
                 fac['line'])
        a = fac['args']
        ok = a[0] == ('p', 1) and a[7] == ('p', kpc) and a[8] == ('p', kpr) and a[9] == ('p', kL) and a[10] == ('p', kU) \
            and a[5] == 0 and a[6] == 0 and ptr_desc(a[-1]) == '$%d' % len(f.params)
        ex.check(lf, ok, 'factor-arguments', [], '%sgstrf must receive (options, &AC, relax, panel, etree, NULL, 0, perm_c, perm_r, L, U, ..., info)' % p, fac['line'])
        ex.check(lf, lf.must_precede([pre['node']], fac['node']), 'preorder-before-factor', [], 'sp_preorder must precede %sgstrf' % p, fac['line'])
        # solve
        if v.get('info') == 0:
            ok = len(sol) == 1
            if ex.check(lf, ok, 'solve-on-success', ['info'], 'info == 0: %sgstrs must be called exactly once (saw %d)' % (p, len(sol))):
                s = sol[0]
                want_t = E['TRANS'] if nr else E['NOTRANS']
                ex.check(lf, s['args'][0] == want_t, 'solve-transpose-sense', ['A.Stype'],
                         'the solve must use %s for %s storage (the factors are those of %s); got %s'
                         % ('TRANS' if nr else 'NOTRANS', 'row' if nr else 'column', 'A^T' if nr else 'A', s['args'][0]), s['line'])
                ok = s['args'][1:6] == [('p', kL), ('p', kU), ('p', kpc), ('p', kpr), ('p', kB)]
                ex.check(lf, ok, 'solve-arguments', [], '%sgstrs must receive (trans, L, U, perm_c, perm_r, B)' % p, s['line'])
                ex.check(lf, lf.must_precede([fac['node']], s['node']), 'factor-before-solve', [], '%sgstrf must precede %sgstrs' % (p, p), s['line'])
        else:
            ex.check(lf, not sol, 'no-solve-on-failure', ['info'], 'info != 0: %sgstrs must not be called' % p, sol[0]['line'] if sol else None)
            bw = [e for e in lf.stores() if e['base'].startswith('$%d' % kB)]
            ex.check(lf, not bw, 'rhs-untouched-on-failure', ['info'], 'info != 0: B must not be written', bw[0]['line'] if bw else None)
    return len(leaves)


def gstrs_oracle(chk, prog, eff, p, cfgname):
    f = prog.func(p + 'gstrs')
    if f is None:
        raise AnalysisBroken('C01: %sgstrs not found' % p)
    E = prog.enums
    fl = Flags(prog, f, p)
    fl.enum('trans', '$1', ['NOTRANS', 'TRANS', 'CONJ'])
    fl.matrix('L', ['SLU_SC'], 'SLU_TRLU')
    fl.matrix('U', ['SLU_NC'], 'SLU_TRU')
    fl.dense('B', ncols=(2,))
    blas = {p + 'trsm_', p + 'gemm_', p + 'trsv_', p + 'gemv_', p + 'lsolve', p + 'usolve', p + 'matvec', 'sp_' + p + 'trsv'}
    eng = r3.Engine(prog, f, fl.flags, callees=lambda n: n in blas, eff=eff)
    leaves = eng.run()
    ex = Expect(chk, 'C01.D2', f, fl, cfgname)
    kpc, kpr, kB = ppos(f, 'perm_c'), ppos(f, 'perm_r'), ppos(f, 'B')
    PC, PR = '$%d' % kpc, '$%d' % kpr
    cplx = p in 'cz'
    for lf in leaves:
        t = lf.val.get('trans')
        sel = ['trans']
        st = lf.stores()
        scat = {P: [e for e in st if P in e['idx_reads']] for P in (PC, PR)}
        gath = {P: [e for e in st if P in e['rhs_idx_reads']] for P in (PC, PR)}
        solves = lf.calls(lambda n: n in blas)
        if not ex.check(lf, bool(solves), 'has-solves', sel, 'no triangular-solve kernel is reached'):
            continue
        first_solve = [e['node'] for e in solves]
        if t == E['NOTRANS']:
            pre, post, bad_pre, bad_post = scat[PR], gath[PC], scat[PC], gath[PR]
            role = ('scatter by perm_r before', 'gather by perm_c after')
        else:
            pre, post, bad_pre, bad_post = scat[PC], gath[PR], scat[PR], gath[PC]
            role = ('scatter by perm_c before', 'gather by perm_r after')
        ex.check(lf, bool(pre) and not bad_pre, 'rhs-permuted-in', sel,
                 'the right-hand side must be permuted with a %s the solves (and with no other permutation)' % role[0],
                 (bad_pre or pre or [{'line': None}])[0]['line'])
        ex.check(lf, bool(post) and not bad_post, 'solution-permuted-out', sel,
                 'the solution must be permuted with a %s the solves (and with no other permutation)' % role[1],
                 (bad_post or post or [{'line': None}])[0]['line'])
        if pre and post:
            ok = all(not lf.can_reach(s, e['node']) for e in pre for s in first_solve) and all(not lf.can_reach(e['node'], s) for e in post for s in first_solve)
            ex.check(lf, ok, 'permute-solve-permute-order', sel, 'permutation of B must come before, and of X after, every triangular solve', pre[0]['line'])
        # order and flags of the solves
        if t == E['NOTRANS']:
            def uplo(e):
                for a in e['args'][:2]:
                    if isinstance(a, tuple) and a[0] == 'str' and a[1].strip('"') in ('L', 'U'):
                        # trsm: side, uplo ; trsv: uplo first
                        pass
                strs = [a[1].strip('"') for a in e['args'] if isinstance(a, tuple) and a[0] == 'str']
                if e['name'].endswith('trsm_'):
                    return strs[1] if len(strs) > 1 else None
                if e['name'].endswith('trsv_'):
                    return strs[0] if strs else None
                if e['name'].endswith('lsolve'):
                    return 'L'
                if e['name'].endswith('usolve'):
                    return 'U'
                return None
            Ls = [e for e in solves if uplo(e) == 'L']
            Us = [e for e in solves if uplo(e) == 'U']
            ok = bool(Ls) and bool(Us) and all(not lf.can_reach(u['node'], l['node']) for u in Us for l in Ls)
            ex.check(lf, ok, 'forward-then-back', sel, 'NOTRANS: every solve with L must precede every solve with U', (Us or Ls or solves)[0]['line'])
            for e in Ls + Us:
                strs = [a[1].strip('"') for a in e['args'] if isinstance(a, tuple) and a[0] == 'str']
                if e['name'].endswith('trsm_'):
                    want = ['L', 'L', 'N', 'U'] if uplo(e) == 'L' else ['L', 'U', 'N', 'N']
                    ex.check(lf, strs[:4] == want, 'kernel-flags-' + uplo(e), sel, '%s must be called with %s, got %s' % (e['name'], want, strs[:4]), e['line'])
                elif e['name'].endswith('trsv_'):
                    want = ['L', 'N', 'U'] if uplo(e) == 'L' else ['U', 'N', 'N']
                    ex.check(lf, strs[:3] == want, 'kernel-flags-' + uplo(e), sel, '%s must be called with %s, got %s' % (e['name'], want, strs[:3]), e['line'])
        else:
            tr = [e for e in solves if e['name'] == 'sp_' + p + 'trsv']
            ok = len(tr) == 2
            if ex.check(lf, ok, 'two-transposed-solves', sel, 'TRANS/CONJ: exactly sp_%strsv(U,..) and sp_%strsv(L,..) per right-hand side' % (p, p)):
                sig = [[a[1].strip('"') for a in e['args'][:3] if isinstance(a, tuple) and a[0] == 'str'] for e in tr]
                letter = 'C' if (cplx and t == E['CONJ']) else 'T'
                allowed = [letter] if cplx else ['T', 'C']
                ok = sig[0][0] == 'U' and sig[0][2] == 'N' and sig[1][0] == 'L' and sig[1][2] == 'U' and sig[0][1] in allowed and sig[1][1] == sig[0][1]
                ex.check(lf, ok, 'transposed-solve-flags', sel,
                         'must solve with U^%s then L^%s: sp_%strsv("U","%s","N") then ("L","%s","U"); got %s' % (letter, letter, p, letter, letter, sig), tr[0]['line'])
                ex.check(lf, not lf.can_reach(tr[1]['node'], tr[0]['node']) or tr[0]['inloop'], 'U-before-L', sel, 'the U^T solve must precede the L^T solve', tr[0]['line'])
                xs = [ptr_desc(e['args'][5]) for e in tr]
                ex.check(lf, xs[0] is not None and xs[0] == xs[1] and xs[0].startswith('$%d' % kB), 'solves-on-B', sel,
                         'both transposed solves must operate on the same column of B', tr[0]['line'])
    return len(leaves)


def run(tier):
    chk = Check('C01', tier, level='other')
    chk.explanation = (
        'R3 (flag-partitioned constant propagation over the CFG, one run per needed flag valuation) on ?gssv and ?gstrs for all four '
        'arithmetic types. ?gssv: for every valuation of (A->Stype in {NC,NR}) x (ColPerm in 5 values) x (info after ?gstrf in {0, 1..n, >n}) '
        'x (nrhs in {0,2}) the oracle requires: row storage is factored through the column view (ncol x nrow, nzval, colind, rowptr) = A^T and '
        'solved with TRANS, column storage directly with NOTRANS; get_perm_c(options->ColPerm, AA, perm_c) iff not MY_PERMC, before '
        'sp_preorder; sp_preorder feeds &AC and etree to ?gstrf; ?gstrs(trans, L, U, perm_c, perm_r, B) iff info == 0; B never written '
        'when info != 0. ?gstrs: NOTRANS = scatter by perm_r, L-solves before U-solves with the documented BLAS flags, gather by perm_c; '
        'TRANS/CONJ = scatter by perm_c, sp_?trsv(U,t,N) then sp_?trsv(L,t,U) with t = T (C for CONJ in complex units), gather by perm_r. '
        'Kernel rules (necessary conditions on the numerical updates): accumulating dense kernels start from a cleared scratch vector; in the 2-D panel update every statement touching the parked triangular-solve vectors runs for the same set of segment sizes; ?LUWorkInit, ?SetRWork and ?panel_bmod agree on the tempv layout (maxsuper | rowblk per column, in terms of sp_ienv); every product contributing to a position in the supernodal value block has the leading dimension as a factor. R9: s=d, c=z agreement of the factorization and solve kernels. Each clause is a necessary condition: breaking it gives a wrong X '
        'for any unsymmetric A / non-identity permutation. Does NOT decide the residual bound or the numerical updates themselves.')
    chk.assumptions = ['representative values stand for the classes info in {0, 1..n, >n}, nrhs in {0, >0}', 'no-alias contract between arguments']
    cfgs = ['tested'] if tier == 'quick' else ['tested', 'cblas', 'idx64']
    chk.configs = cfgs
    for cfgname in cfgs:
        prog = Program.load(which=('SRC',), cfg=cfgname)
        eff = Effects(prog)
        from ..rules import symbolic as _sym
        _sym.dfs_twin_rule(chk, 'C01.dfs', prog, [q + 'column_dfs' for q in 'sdcz'], cfgname)
        chk.clause('C01.D1', 'R3 dispatch oracle of ?gssv')
        chk.clause('C01.D2', 'R3/R7 permutation roles and solve order of ?gstrs')
        n1 = n2 = 0
        for p in _drv.PRECS:
            n1 += gssv_oracle(chk, prog, eff, p, cfgname)
            n2 += gstrs_oracle(chk, prog, eff, p, cfgname)
            chk.saw(unit='SRC/%sgssv.c' % p, func='SRC/%sgssv.c:%sgssv' % (p, p))
            chk.saw(unit='SRC/%sgstrs.c' % p, func='SRC/%sgstrs.c:%sgstrs' % (p, p))
        from ..rules.effects import PathEffects as _PE
        chk.clause('C01.preorder', 'R3 oracle of sp_preorder')
        kernels.paired_cursor_rule(chk, 'C01.cursor', prog, [q + 'gstrs' for q in 'sdcz'], cfgname, floor=4)
        kernels.leading_dimension_agreement(chk, 'C01.ld', prog, [q + 'gstrs' for q in 'sdcz'], cfgname, floor=4)
        preorder.run(chk, 'C01.preorder', prog, _PE(prog), cfgname)
        kernels.run_basic(chk, 'C01.kern', prog, cfgname, ('solve', 'bmod'), floor_scratch=4 if cfgname != 'cblas' else 20)
        kernels.run_factor(chk, 'C01.kern', prog, cfgname)
        from ..rules import r12_supernodal
        chk.clause('C01.kern.index', 'abstract interpretation of the supernodal update kernels in a polynomial index domain: every access to the supernode block is the entry the algebra needs')
        for _p in 'ds':
            r12_supernodal.run(chk, 'C01.kern.index', prog, _p, cfgname)
            r12_supernodal.run_snode(chk, 'C01.kern.index', prog, _p, cfgname)
        from ..rules import r5_grow as _r5
        _r5.run(chk, 'R5', prog, cfgname)
        chk.clause('C01.kern.copy', 'growth of factor storage carries the old contents over')
        expand.copy_helper_rule(chk, 'C01.kern.copy', prog, cfgname)
        if n1 < 4 * 24 or n2 < 4 * 3:
            raise AnalysisBroken('C01: %d/%d leaf valuations explored, floors %d/%d' % (n1, n2, 96, 12))
        chk.notes.append('%s: %d leaf valuations of ?gssv, %d of ?gstrs' % (cfgname, n1, n2))
        if cfgname in ('tested', 'cblas'):
            dunits = {p + u for p in 'dz' for u in R9_UNITS}
            r9_sibling.run(chk, prog, 'C01.D4', dunits, cfgname)
        r9_sibling.run_twins(chk, prog, 'C01.twins', [('SRC/relax_snode.c', 'relax_snode', 'SRC/ilu_relax_snode.c', 'ilu_relax_snode', 'ext'),
                                                 ('SRC/heap_relax_snode.c', 'heap_relax_snode', 'SRC/ilu_heap_relax_snode.c', 'ilu_heap_relax_snode', 'ext')], cfgname)
    return chk.finish()
