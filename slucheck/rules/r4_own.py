"""R4 `own`: ownership / typestate of every block allocated by a function.

Intraprocedural and path-sensitive.  The abstract state at a CFG node is a set of
"worlds"; a world maps
    local pointer variable -> block id (allocation site) or NULL/unknown
    block id               -> O owned | F freed | E escaped
    object (local struct or heap block) -> inner-contents state O | F  (what a
        creator such as sp_preorder / ?Create_*_Matrix / StatInit put inside it
        and the matching destroyer must release)
    correlated predicate   -> True | False   (canonical branch condition over
        variables not re-assigned since it was decided)
Worlds are propagated over the CFG to a fixpoint (finite domain).  Paths that
end in ABORT/exit carry no obligation.  Callee behaviour comes from summaries
computed bottom-up over the direct call graph: returns-fresh, frees(param),
frees-inner(param), allocs-into(param), stores(param -> param).
"""
from ..facts import strip, canon, callee_name, root_ref, const_value, loc
from ..ir import N, pretty
from ..cfg import NORETURN

BASE_ALLOC = {'superlu_malloc', 'malloc', 'calloc'}
BASE_FREE = {'superlu_free', 'free'}
MAX_WORLDS = 4000


def is_ptr(t):
    return bool(t) and t.rstrip().endswith('*')


class Summary(object):
    __slots__ = ('returns_fresh', 'frees', 'frees_inner', 'allocs_into', 'stores', 'alloc_out')

    def __init__(self):
        self.returns_fresh = False
        self.frees = set()        # param indices whose pointee block is released
        self.frees_inner = set()  # param indices: blocks loaded through the param are released
        self.allocs_into = set()  # param indices: a fresh block is stored into memory reachable from the param
        self.stores = set()       # (src param, dst param): value of src is stored into memory reachable from dst
        self.alloc_out = {}       # param index -> 'always' | 'maybe': *param = fresh block (out-parameter pointer)


class Summaries(object):
    def __init__(self, prog):
        self.prog = prog
        self.s = {}
        for f in prog.topo_bottom_up():
            self.s[(f.unit, f.name)] = self.summarise(f)

    def get(self, name, unit):
        f = self.prog.resolve(name, unit)
        if f is None:
            return None
        return self.s.get((f.unit, f.name))

    def is_alloc_call(self, call, unit):
        name = callee_name(call)
        if name in BASE_ALLOC:
            return True
        s = self.get(name, unit) if name else None
        return bool(s and s.returns_fresh)

    def summarise(self, f):
        s = Summary()
        pidx = {pid: i for i, (_, pid, _) in enumerate(f.params)}
        # flow-insensitive derivation: local -> set of params it may point into
        der = {pid: {i} for pid, i in pidx.items()}
        fresh = set()   # locals that may hold a fresh block
        assigns = []
        for n in f.body.walk():
            if n.k == 'Var' and n.c:
                assigns.append((n, n.a['id'], n.c[0]))
            elif n.k == 'Assign' and n.a['op'] == '=':
                l = strip(n.c[0])
                if l.k == 'Ref':
                    assigns.append((n, l.a['id'], n.c[1]))
        changed = True
        while changed:
            changed = False
            for (_, vid, rhs) in assigns:
                r = strip(rhs)
                if r.k == 'Call' and self.is_alloc_call(r, f.unit):
                    if vid not in fresh:
                        fresh.add(vid)
                        changed = True
                    continue
                rr = root_ref(rhs)
                if rr is None:
                    continue
                rid = rr.a.get('id')
                if rid in der:
                    cur = der.setdefault(vid, set())
                    if not der[rid] <= cur:
                        cur |= der[rid]
                        changed = True
                if rid in fresh and strip(rhs).k == 'Ref' and vid not in fresh:
                    fresh.add(vid)
                    changed = True

        def params_of(e):
            r = root_ref(e)
            if r is None:
                return set()
            return der.get(r.a.get('id'), set())

        def is_fresh_expr(e):
            e = strip(e)
            if e.k == 'Call' and self.is_alloc_call(e, f.unit):
                return True
            return e.k == 'Ref' and e.a.get('id') in fresh

        outs = []
        for n in f.body.walk():
            if n.k == 'Return' and n.c and is_fresh_expr(n.c[0]):
                s.returns_fresh = True
            elif n.k == 'Assign' and n.a['op'] == '=':
                lv = strip(n.c[0])
                if lv.k != 'Ref':
                    dst = params_of(lv)
                    if dst:
                        if is_fresh_expr(n.c[1]):
                            s.allocs_into |= dst
                            if lv.k == 'Unary' and lv.a['op'] == '*' and strip(lv.c[0]).k == 'Ref' and strip(lv.c[0]).a.get('id') in pidx:
                                outs.append((pidx[strip(lv.c[0]).a['id']], n))
                        rv = strip(n.c[1])
                        if rv.k == 'Ref' and rv.a.get('id') in pidx:
                            for d in dst:
                                if d != pidx[rv.a['id']]:
                                    s.stores.add((pidx[rv.a['id']], d))
            elif n.k == 'Call':
                name = callee_name(n)
                args = n.c[1:]
                if name in BASE_FREE and args:
                    a = strip(args[0])
                    if a.k == 'Ref' and a.a.get('id') in pidx:
                        s.frees.add(pidx[a.a['id']])
                    else:
                        for p in params_of(a):
                            s.frees_inner.add(p)
                    continue
                cs = self.get(name, f.unit) if name else None
                if cs is None:
                    continue
                for k in cs.frees:
                    if k < len(args):
                        a = strip(args[k])
                        if a.k == 'Ref' and a.a.get('id') in pidx:
                            s.frees.add(pidx[a.a['id']])
                        else:
                            s.frees_inner |= params_of(a)
                for k in cs.frees_inner:
                    if k < len(args):
                        s.frees_inner |= params_of(args[k])
                for k in cs.allocs_into:
                    if k < len(args):
                        s.allocs_into |= params_of(args[k])
                for (a_, b_) in cs.stores:
                    if a_ < len(args) and b_ < len(args):
                        src = strip(args[a_])
                        if src.k == 'Ref' and src.a.get('id') in pidx:
                            for d in params_of(args[b_]):
                                if d != pidx[src.a['id']]:
                                    s.stores.add((pidx[src.a['id']], d))
                        if is_fresh_expr(args[a_]):
                            s.allocs_into |= params_of(args[b_])
                # out-parameter pointers handed on to a callee that allocates them
                for k, how in cs.alloc_out.items():
                    if k < len(args):
                        a = strip(args[k])
                        if a.k == 'Ref' and a.a.get('id') in pidx:
                            outs.append((pidx[a.a['id']], n))
        if outs:
            cfg = self.prog.cfg(f)
            dom = cfg.dominators()
            exit_dom = dom.get(cfg.exit.id) or set()
            node_of = {}
            for cn in cfg.nodes:
                if cn.ast is not None and cn.kind in ('stmt', 'cond', 'return', 'switch', 'abort'):
                    for x in cn.ast.walk():
                        node_of[id(x)] = cn.id
            for (k, n) in outs:
                nid = node_of.get(id(n))
                always = nid is not None and nid in exit_dom
                if always and s.alloc_out.get(k) != 'maybe':
                    s.alloc_out[k] = 'always'
                else:
                    s.alloc_out[k] = 'maybe'
        return s


# ---------------------------------------------------------------- worlds
class World(object):
    """immutable-ish world; hashable via key()"""
    __slots__ = ('var', 'blk', 'inner', 'pred', 'origin', '_key')

    def __init__(self, var=None, blk=None, inner=None, pred=None, origin=None):
        self.var = var or {}        # var id -> block id | None
        self.blk = blk or {}        # block id -> 'O' | 'F' | 'E'
        self.inner = inner or {}    # object key -> 'O' | 'F'
        self.pred = pred or {}      # canonical predicate -> bool
        self.origin = origin or {}  # block id / object key -> description (not part of the key)
        self._key = None

    def copy(self):
        return World(dict(self.var), dict(self.blk), dict(self.inner), dict(self.pred), dict(self.origin))

    def key(self):
        if self._key is None:
            self._key = (tuple(sorted(self.var.items(), key=lambda kv: kv[0])), tuple(sorted(self.blk.items())),
                         tuple(sorted(self.inner.items())), tuple(sorted(self.pred.items())))
        return self._key


def pred_form(e):
    """(canonical base, polarity) of a branch condition"""
    e = strip(e)
    pol = True
    while True:
        if e.k == 'Unary' and e.a['op'] == '!':
            e = strip(e.c[0])
            pol = not pol
            continue
        if e.k == 'Binary' and e.a['op'] in ('!=', '==') and const_value(e.c[1]) == 0 and strip(e.c[1]).k in ('Int', 'Cast'):
            if e.a['op'] == '==':
                pol = not pol
            e = strip(e.c[0])
            continue
        if e.k == 'Binary' and e.a['op'] == '!=':
            m = N('Binary', e.t, e.c, dict(e.a, op='=='), e.line, e.mac)
            return canon(m), not pol
        break
    return canon(e), pol


class Finding(object):
    def __init__(self, kind, key, node, what, detail=None):
        self.kind, self.key, self.node, self.what, self.detail = kind, key, node, what, detail or {}


class Analyzer(object):
    def __init__(self, prog, summaries):
        self.prog = prog
        self.sums = summaries

    # -------------------------------------------------------------- per function
    def analyse(self, f):
        self.f = f
        self.findings = {}
        self.pids = {pid: i for i, (_, pid, _) in enumerate(f.params)}
        self.param_derived = self._param_derived(f)
        cfg = self.prog.cfg(f)
        self.cfg = cfg
        # only predicates tested at two or more branch nodes can correlate anything
        cnt = {}
        for cn in cfg.nodes:
            if cn.kind == 'cond' and cn.ast is not None:
                b, _ = pred_form(cn.ast)
                cnt[b] = cnt.get(b, 0) + 1
        self.multi = {b for b, c in cnt.items() if c >= 2} & self.guarding_preds(f)
        self.exits = 0
        if not self.has_events(f):
            return []
        self.nallocs = 0
        self.alloc_sites = set()
        states = {cfg.entry.id: {}}
        w0 = World()
        states[cfg.entry.id][w0.key()] = w0
        work = [cfg.entry.id]
        inwork = {cfg.entry.id}
        total = 0
        while work:
            nid = work.pop()
            inwork.discard(nid)
            node = cfg.nodes[nid]
            cur = list(states.get(nid, {}).values())
            for w in cur:
                for (succ, w2) in self.transfer(node, w):
                    d = states.setdefault(succ, {})
                    k = w2.key()
                    if k not in d:
                        d[k] = w2
                        total += 1
                        if total > MAX_WORLDS * 10:
                            raise RuntimeError('R4: state explosion in %s' % f.name)
                        if succ not in inwork:
                            inwork.add(succ)
                            work.append(succ)
        # obligations at return exits
        self.leaks = {}
        for node in cfg.nodes:
            if node.kind == 'return' and node.id in states:
                self.exits += 1
                for w in states[node.id].values():
                    self.at_return(node, w)
        for ek, (node, descs) in sorted(self.leaks.items()):
            names = sorted(descs)
            short = ','.join(sorted({d.split('`')[1] if '`' in d else d for d in names}))
            self.report('leak', 'leak:%s@%s:{%s}' % (self.f.name, ek, short), node.ast if node.ast is not None else self.f.body,
                        'not released on the exit "%s" (%s): %s' % (ek, self.where_exit(node), '; '.join(names)),
                        {'exit': ek, 'resources': names})
        return list(self.findings.values())

    def is_event(self, n):
        if n.k == 'Return':
            return True
        if n.k == 'Call':
            name = callee_name(n)
            if name in BASE_ALLOC or name in BASE_FREE or name in NORETURN:
                return True
            cs = self.sums.get(name, self.f.unit) if name else None
            if cs is not None and (cs.returns_fresh or cs.frees or cs.frees_inner or cs.allocs_into or cs.stores):
                return True
        return False

    def guarding_preds(self, f):
        """bases of the atomic conditions of every if/loop whose body contains a resource event or a return"""
        out = set()

        def atoms(e):
            e = strip(e)
            if e.k == 'Binary' and e.a['op'] in ('&&', '||'):
                return atoms(e.c[0]) + atoms(e.c[1])
            if e.k == 'Unary' and e.a['op'] == '!':
                return atoms(e.c[0])
            return [e]
        for n in f.body.walk():
            if n.k in ('If', 'While', 'For', 'Do'):
                cond = n.c[0] if n.k in ('If', 'While') else (n.c[1] if n.k in ('For', 'Do') else None)
                bodies = n.c[1:] if n.k in ('If', 'While') else ([n.c[3]] if n.k == 'For' else [n.c[0]])
                if cond is None or cond.k == 'Empty':
                    continue
                if any(self.is_event(x) for b in bodies for x in b.walk()):
                    for a in atoms(cond):
                        out.add(pred_form(a)[0])
        return out

    def has_events(self, f):
        for n in f.body.walk():
            if n.k == 'Call':
                name = callee_name(n)
                if name in BASE_ALLOC or name in BASE_FREE:
                    return True
                cs = self.sums.get(name, f.unit) if name else None
                if cs is not None and (cs.returns_fresh or cs.frees or cs.frees_inner or cs.allocs_into):
                    return True
        return False

    def _param_derived(self, f):
        der = set(self.pids)
        assigns = []
        for n in f.body.walk():
            if n.k == 'Var' and n.c:
                assigns.append((n.a['id'], n.c[0]))
            elif n.k == 'Assign' and n.a['op'] == '=':
                l = strip(n.c[0])
                if l.k == 'Ref':
                    assigns.append((l.a['id'], n.c[1]))
        changed = True
        while changed:
            changed = False
            for vid, rhs in assigns:
                if vid in der:
                    continue
                r = strip(rhs)
                if r.k == 'Call':
                    continue
                if r.k == 'Assign':
                    # v = (P->field = e): v points to what was just stored into caller memory
                    rr = root_ref(r.c[0])
                    if rr is not None and rr.a.get('id') in der and strip(r.c[0]).k != 'Ref':
                        der.add(vid)
                        changed = True
                    continue
                rr = root_ref(rhs)
                if rr is not None and rr.a.get('id') in der and r.k != 'Ref' or (r.k == 'Ref' and r.a.get('id') in der):
                    # pointer INTO caller memory (field load / address arithmetic), or plain copy of a param
                    if is_ptr(self.f.locals[vid].t if vid in self.f.locals else None) or True:
                        der.add(vid)
                        changed = True
        return der

    def report(self, kind, key, node, what, detail=None):
        if key not in self.findings:
            self.findings[key] = Finding(kind, key, node, what, detail)

    # -------------------------------------------------------------- exits
    def exit_descr(self, node, w):
        """semantic description of a return exit: the decided predicates that lead here, most recent last"""
        ast = node.ast
        return ast

    def at_return(self, node, w):
        ret_expr = node.ast.c[0] if (node.ast is not None and node.ast.c) else None
        ret_b = None
        if ret_expr is not None:
            r = strip(ret_expr)
            if r.k == 'Ref':
                ret_b = w.var.get(r.a.get('id'))
        ek = self.exit_key(node)
        for b, st in w.blk.items():
            if st == 'O' and b != ret_b:
                desc = w.origin.get(b, str(b))
                self.leaks.setdefault(ek, (node, set()))[1].add(desc)
        for o, st in w.inner.items():
            if st == 'O':
                desc = w.origin.get(o, str(o))
                self.leaks.setdefault(ek, (node, set()))[1].add(desc)

    def where_exit(self, node):
        if node.ast is None:
            return 'the end of the function'
        return 'return at line %d' % node.ast.line

    def exit_key(self, node):
        """semantic descriptor of a return exit: the condition of the innermost if that contains it (names, no ids/lines)"""
        if node.ast is None:
            return 'end'
        if not hasattr(self, '_exitkeys') or self._exitkeys[0] is not self.f:
            keys = {}

            def walk(n, cond):
                if n.k == 'Return':
                    keys[id(n)] = cond
                    return
                if n.k == 'If':
                    c = None
                    for x in n.c[0].walk():
                        if x.k == 'Assign' and strip(x.c[1]).k == 'Call' and callee_name(strip(x.c[1])):
                            c = 'failed-call:' + callee_name(strip(x.c[1]))
                            break
                    if c is None:
                        c = canon(n.c[0], ids=False)
                    walk(n.c[1], c if c.startswith('failed-call:') else 'if ' + c)
                    if len(n.c) > 2:
                        walk(n.c[2], 'else of ' + c)
                    return
                if n.k in ('For', 'While', 'Do', 'Switch', 'Block', 'Label', 'Case', 'Default'):
                    for ch in n.c:
                        walk(ch, cond)
            walk(self.f.body, 'end')
            self._exitkeys = (self.f, keys)
        k = self._exitkeys[1].get(id(node.ast), 'end')
        return k[:120]

    def vname(self, vid):
        v = self.f.locals.get(vid)
        if v is not None:
            return v.a['name']
        for (name, pid, _) in self.f.params:
            if pid == vid:
                return name
        return '?'

    # -------------------------------------------------------------- transfer
    def transfer(self, node, w):
        k = node.kind
        if k in ('entry', 'join', 'goto'):
            return [(s, w) for (s, _) in node.succ]
        if k in ('exit', 'abort'):
            return []
        if k == 'return':
            if node.ast is not None and node.ast.c:
                w2 = w.copy()
                self.eval_expr(node.ast.c[0], w2, node)     # use-after-free in the returned expression
            return []   # at_return reads the in-state of the node
        if k == 'stmt':
            w2 = w.copy()
            self.exec_stmt(node.ast, w2, node)
            return [(s, w2) for (s, _) in node.succ]
        if k == 'cond':
            return self.branch(node, w)
        if k == 'switch':
            w2 = w.copy()
            self.eval_expr(node.ast, w2, node)
            return [(s, w2) for (s, _) in node.succ]
        return [(s, w) for (s, _) in node.succ]

    def branch(self, node, w):
        e = node.ast
        w1 = w.copy()
        self.eval_expr(e, w1, node)          # side effects (assignment in condition) and uses
        base, pol = pred_form(e)
        outs = []
        known = w1.pred.get(base)
        # pointer null tests
        se = strip(e)
        inner = se
        negs = 0
        while True:
            if inner.k == 'Unary' and inner.a['op'] == '!':
                inner = strip(inner.c[0]); negs += 1
            elif inner.k == 'Binary' and inner.a['op'] in ('==', '!=') and const_value(inner.c[1]) == 0:
                if inner.a['op'] == '==':
                    negs += 1
                inner = strip(inner.c[0])
            else:
                break
        ptr_var = None
        if inner.k == 'Assign' and inner.a['op'] == '=' and strip(inner.c[0]).k == 'Ref':
            ptr_var = strip(inner.c[0]).a['id']
        elif inner.k == 'Ref' and inner.a.get('dk') in ('VarDecl', 'ParmVarDecl') and is_ptr(inner.t):
            ptr_var = inner.a['id']
        nonnull_label = (negs % 2 == 0)      # edge label on which the pointer is non-NULL
        for (succ, label) in node.succ:
            if known is not None and ptr_var is None:
                truth = known if pol else (not known)
                if label != truth:
                    continue
            w2 = w1.copy()
            if ptr_var is not None:
                b = w2.var.get(ptr_var, 'unk')
                if label == nonnull_label:
                    if b is None:
                        continue          # known NULL: infeasible
                else:
                    if b not in (None, 'unk'):
                        # allocation failed / pointer is NULL: the block never existed on this path
                        if w2.blk.get(b) == 'O':
                            others = [v for v, bb in w2.var.items() if bb == b and v != ptr_var]
                            if not others:
                                del w2.blk[b]
                                w2.origin.pop(b, None)
                            else:
                                for v in others:
                                    w2.var[v] = None
                                del w2.blk[b]
                        elif w2.blk.get(b) in ('F',):
                            pass
                        w2.var[ptr_var] = None
                    elif b == 'unk':
                        w2.var[ptr_var] = None
            elif base and base in self.multi and isinstance(label, bool):
                w2.pred[base] = (label == pol)
            outs.append((succ, w2))
        return outs

    # -------------------------------------------------------------- statements
    def exec_stmt(self, s, w, node):
        if s.k == 'Var':
            vid = s.a['id']
            if s.c:
                self.assign_var(vid, s.c[0], w, node, s)
            return
        self.eval_expr(s, w, node)

    def kill_preds(self, vid, w):
        name = None
        v = self.f.locals.get(vid)
        tag = '@' + vid[-5:]
        for p in list(w.pred):
            if tag in p:
                del w.pred[p]

    def kill_mem_preds(self, w, field=None):
        """a store through a pointer / a call may change memory read by predicates that mention -> or [ or *.
        field: name of the struct field a direct store writes (then only predicates on that field die)"""
        for p in list(w.pred):
            if '->' in p or '[' in p or '(*' in p:
                if field is not None:
                    if ('->' + field) in p or ('.' + field) in p:
                        del w.pred[p]
                    continue
                # keep predicates over caller-owned option/flag fields that callees never write
                # (MemModel is fixed by ?SetupSpace / ?LUMemInit before anything is allocated; direct stores are handled above)
                if any(x in p for x in ('->Stype', '->Fact', '->Trans', '->Equil', '->ColPerm', '->RowPerm', '->SymmetricMode',
                                        '->IterRefine', '->PivotGrowth', '->ConditionNumber', '->ILU_', '->ncol', '->nrow', '->MemModel')):
                    continue
                del w.pred[p]

    def is_view_object(self, vid):
        """GlobalLU_t is a view: the arrays it points to are owned by L and U (documented contract), never by the view"""
        v = self.f.locals.get(vid)
        return v is not None and 'GlobalLU_t' in (v.t or '')

    def new_block(self, node, what, w, suffix=''):
        b = 'b%d%s' % (node.id, ('.' + suffix) if suffix else '')
        self.alloc_sites.add(b)
        if w.blk.get(b) == 'O':
            # re-allocation at the same site while the previous block is still owned (loop)
            self.report('leak', 'leak-loop:%s:%s' % (self.f.name, what), node.ast, 'block %s is allocated again while the previous one is still owned' % what)
        w.blk[b] = 'O'
        w.origin[b] = what
        return b

    def assign_var(self, vid, rhs, w, node, at):
        r = strip(rhs)
        self.kill_preds(vid, w)
        if r.k == 'Assign' and r.a['op'] == '=':
            # chained assignment  v = (lv = e): perform the inner store, then v takes the same value
            self.eval_expr(r, w, node)
            inner = strip(r.c[1])
            if strip(r.c[0]).k == 'Ref':
                src = strip(r.c[0]).a['id']
                w.var[vid] = w.var.get(src, 'unk')
            else:
                w.var[vid] = 'unk'
            return
        if r.k == 'Call' and self.sums.is_alloc_call(r, self.f.unit):
            for a in r.c[1:]:
                self.eval_expr(a, w, node)
            old = w.var.get(vid)
            if old not in (None, 'unk') and w.blk.get(old) == 'O' and not [v for v, bb in w.var.items() if bb == old and v != vid]:
                self.report('leak', 'leak-overwrite:%s:%s' % (self.f.name, w.origin.get(old, old)), at,
                            'pointer `%s` is overwritten while it still owns block %s' % (self.vname(vid), w.origin.get(old, old)))
            b = self.new_block(node, '`%s` allocated by %s' % (self.vname(vid), callee_name(r)), w)
            w.var[vid] = b
            return
        self.eval_expr(rhs, w, node)
        cv = const_value(r, self.prog.enums)
        lt = (self.f.locals[vid].t if vid in self.f.locals else '') or ''
        if cv is not None and not is_ptr(lt):
            # flag variable set to a constant (iperm_r_allocated = 1): its truth value is known until re-assigned
            v = self.f.locals.get(vid)
            if v is not None:
                w.pred['%s@%s' % (v.a['name'], vid[-5:])] = bool(cv)
            return
        if r.k == 'Ref' and r.a.get('id') in w.var and is_ptr(r.t):
            w.var[vid] = w.var[r.a['id']]
            return
        if r.k in ('Int',) and r.a.get('value') == 0:
            w.var[vid] = None
            return
        if r.k == 'Cast' or r.k == 'Int':
            if const_value(r) == 0:
                w.var[vid] = None
                return
        if vid in w.var:
            # any other value: the variable no longer refers to the tracked block
            old = w.var[vid]
            if old not in (None, 'unk') and w.blk.get(old) == 'O' and not [v for v, bb in w.var.items() if bb == old and v != vid]:
                self.report('leak', 'leak-overwrite:%s:%s' % (self.f.name, w.origin.get(old, old)), at,
                            'pointer `%s` is overwritten while it still owns block %s' % (self.vname(vid), w.origin.get(old, old)))
            w.var[vid] = 'unk'

    def obj_key(self, e):
        """key of the object denoted by an argument expression: &X (local struct), X (local pointer) -> ('obj', var id)"""
        e = strip(e)
        if e.k == 'Unary' and e.a['op'] == '&':
            e = strip(e.c[0])
        if e.k == 'Ref' and e.a.get('dk') == 'VarDecl':
            return e.a['id']
        return None

    def is_caller_mem(self, e):
        r = root_ref(e)
        return r is not None and r.a.get('id') in self.param_derived

    def use(self, e, w, node):
        """a read of expression e: use-after-free check for tracked pointers"""
        e = strip(e)
        if e.k == 'Ref' and e.a.get('id') in w.var:
            b = w.var[e.a['id']]
            if b not in (None, 'unk') and w.blk.get(b) == 'F':
                self.report('uaf', 'use-after-free:%s:%s' % (self.f.name, w.origin.get(b, b)), e,
                            'pointer `%s` is used after block %s was released' % (e.a['name'], w.origin.get(b, b)))

    def eval_expr(self, e, w, node, lhs=False):
        e = strip(e)
        k = e.k
        if k == 'Ref':
            if not lhs:
                # plain mention of a pointer value is not a dereference; uses are checked at deref / call sites
                pass
            return
        if k == 'Assign':
            lv = strip(e.c[0])
            if e.a['op'] == '=' and lv.k == 'Ref' and lv.a.get('dk') == 'VarDecl':
                self.assign_var(lv.a['id'], e.c[1], w, node, e)
                return
            # store through memory
            self.eval_expr(e.c[1], w, node)
            if lv.k == 'Ref':
                self.kill_preds(lv.a['id'], w)
                return
            self.deref_uses(lv, w, node)
            self.kill_mem_preds(w, field=lv.a.get('name') if lv.k == 'Member' else None)
            rv = strip(e.c[1])
            if e.a['op'] == '=':
                fresh = rv.k == 'Call' and self.sums.is_alloc_call(rv, self.f.unit)
                src_b = None
                if rv.k == 'Ref' and w.var.get(rv.a.get('id')) not in (None, 'unk'):
                    src_b = w.var[rv.a['id']]
                if self.is_caller_mem(lv):
                    # stored into caller-visible memory: ownership passes to the caller (documented contract)
                    if src_b is not None and w.blk.get(src_b) == 'O':
                        w.blk[src_b] = 'E'
                    return
                # stored into a local object (struct local or heap block held by a local)
                root = root_ref(lv)
                okey = root.a.get('id') if root is not None else None
                if fresh:
                    # allocation directly into a field of a local object: tracked as that object's contents
                    if okey is not None:
                        key = 'in:%s' % okey
                        w.inner[key] = 'O'
                        w.origin[key] = 'the blocks stored into local object `%s`' % self.vname(okey)
                elif src_b is not None and w.blk.get(src_b) == 'O':
                    # moving an owned block into a local object: the block now lives or dies with that object;
                    # it stays owned under its own name as well (the variable still refers to it)
                    pass
            return
        if k == 'Unary' and e.a['op'] in ('++', '--'):
            lv = strip(e.c[0])
            if lv.k == 'Ref':
                self.kill_preds(lv.a['id'], w)
            else:
                self.deref_uses(lv, w, node)
                self.kill_mem_preds(w)
            return
        if k == 'Call':
            self.call(e, w, node)
            return
        if k in ('Index', 'Member') or (k == 'Unary' and e.a['op'] == '*'):
            self.deref_uses(e, w, node)
        for c in e.c:
            self.eval_expr(c, w, node)

    def deref_uses(self, lv, w, node):
        """pointers dereferenced by l-value/r-value expression lv"""
        lv = strip(lv)
        if lv.k == 'Index':
            self.use(lv.c[0], w, node)
            self.deref_uses(lv.c[0], w, node)
            self.eval_expr(lv.c[1], w, node)
        elif lv.k == 'Member':
            if lv.a['arrow']:
                self.use(lv.c[0], w, node)
            self.deref_uses(lv.c[0], w, node)
        elif lv.k == 'Unary' and lv.a['op'] == '*':
            self.use(lv.c[0], w, node)
            self.deref_uses(lv.c[0], w, node)
        elif lv.k == 'Binary':
            for c in lv.c:
                self.deref_uses(c, w, node)

    def call(self, e, w, node):
        name = callee_name(e)
        args = e.c[1:]
        for a in args:
            self.eval_expr(a, w, node)
        if name in NORETURN:
            return
        # a scalar whose address is handed to a callee may be rewritten by it: what earlier tests established about it is gone
        for a in args:
            a = strip(a)
            if a.k == 'Unary' and a.a['op'] == '&' and strip(a.c[0]).k == 'Ref' and strip(a.c[0]).a.get('id') and not is_ptr(strip(a.c[0]).t):
                self.kill_preds(strip(a.c[0]).a['id'], w)
        # ---- release
        if name in BASE_FREE and args:
            self.release(args[0], w, node, e, name)
            return
        cs = self.sums.get(name, self.f.unit) if name else None
        if cs is None:
            # external: uses of freed pointers passed as arguments
            for a in args:
                self.use(a, w, node)
            if name and not name.endswith('_') and name not in ('printf', 'fprintf', 'sprintf', 'strncmp', 'strcmp', 'fabs', 'sqrt'):
                pass
            return
        for i, a in enumerate(args):
            if i not in cs.frees:
                self.use(a, w, node)
        for i in sorted(cs.frees):
            if i < len(args):
                self.release(args[i], w, node, e, name)
        for i in sorted(cs.frees_inner):
            if i < len(args):
                ok = self.obj_key(args[i])
                if ok is not None and not self.is_caller_mem(args[i]):
                    key = 'in:%s' % ok
                    st = w.inner.get(key)
                    if st == 'F':
                        self.report('double-free', 'double-release:%s:%s' % (self.f.name, w.origin.get(key, key)), e,
                                    'contents of local object `%s` are released twice (second time by %s)' % (self.vname(ok), name))
                    w.inner[key] = 'F'
                    w.origin.setdefault(key, 'the contents of local object `%s`' % self.vname(ok))
        for i in sorted(cs.allocs_into):
            if i < len(args):
                ok = self.obj_key(args[i])
                a = strip(args[i])
                if i in cs.alloc_out and a.k == 'Unary' and a.a['op'] == '&' and strip(a.c[0]).k == 'Ref' \
                        and strip(a.c[0]).a.get('dk') == 'VarDecl' and is_ptr(strip(a.c[0]).t):
                    # g(..., &p, ...) where g does *p = fresh block: p now owns a block
                    vid = strip(a.c[0]).a['id']
                    b = self.new_block(node, '`%s` allocated by %s' % (self.vname(vid), name), w, suffix=str(i))
                    if cs.alloc_out[i] == 'maybe':
                        w.blk[b] = 'M'
                    w.var[vid] = b
                    self.kill_preds(vid, w)
                    continue
                if ok is not None and self.is_view_object(ok):
                    continue
                if ok is not None and not self.is_caller_mem(args[i]):
                    key = 'in:%s' % ok
                    if w.inner.get(key) == 'O' and i not in cs.frees_inner:
                        pass
                    w.inner[key] = 'O'
                    w.origin[key] = 'what %s allocated inside local object `%s`' % (name, self.vname(ok))
        for (src, dst) in sorted(cs.stores):
            if src < len(args) and dst < len(args):
                a = strip(args[src])
                if a.k == 'Ref' and w.var.get(a.a.get('id')) not in (None, 'unk'):
                    b = w.var[a.a['id']]
                    if w.blk.get(b) == 'O':
                        # ownership of the block moves into the destination object
                        if self.is_caller_mem(args[dst]):
                            w.blk[b] = 'E'
                        else:
                            ok = self.obj_key(args[dst])
                            w.blk[b] = 'E'
                            if ok is not None:
                                key = 'in:%s' % ok
                                w.inner[key] = 'O'
                                w.origin.setdefault(key, 'what %s stored inside local object `%s`' % (name, self.vname(ok)))
        self.kill_mem_preds(w)

    def release(self, arg, w, node, at, by):
        a = strip(arg)
        if a.k == 'Ref' and a.a.get('id') in w.var:
            b = w.var[a.a['id']]
            if b is None:
                return
            if b == 'unk':
                return
            st = w.blk.get(b)
            if st == 'F':
                self.report('double-free', 'double-free:%s:%s' % (self.f.name, w.origin.get(b, b)), at,
                            'block %s is released twice (second time through `%s` by %s)' % (w.origin.get(b, b), a.a['name'], by))
            elif st in ('O', 'E', 'M'):
                w.blk[b] = 'F'
            return
        if a.k == 'Ref':
            return
        # free(obj->field) / free(obj.field): releases contents of a local object
        root = root_ref(a)
        if root is not None and not self.is_caller_mem(a):
            key = 'in:%s' % root.a.get('id')
            if key in w.inner:
                w.inner[key] = 'F'
